#!/usr/bin/env python3
"""Self-validation: apply each property-breaking edit to a scratch copy of the repository and
require the named check to report a VIOLATION there (and, optionally, the repository's own
test-suite to stay green).  Usage:

    selftest/run_mutants.py [--tier quick] [--tests] [name-substring ...]

Mutants are (name, property ids, relative file, old text, new text).  The scratch copy lives under
$TMPDIR and is removed afterwards; /repo is never touched.
"""
import argparse
import json
import os
import shutil
import subprocess
import sys
import tempfile

HERE = os.path.dirname(os.path.abspath(__file__))
ROOT = os.path.dirname(HERE)
REPO = os.environ.get("VERIF_REPO", "/repo")


def load():
    with open(os.path.join(HERE, "mutants.json")) as fh:
        return json.load(fh)


def main():
    ap = argparse.ArgumentParser()
    ap.add_argument("--tier", default="quick")
    ap.add_argument("--tests", action="store_true", help="also run the repository's own suite on the mutant")
    ap.add_argument("names", nargs="*")
    args = ap.parse_args()
    muts = load()
    if args.names:
        muts = [m for m in muts if any(n in m["name"] or n in m["props"] for n in args.names)]
    failed = 0
    for m in muts:
        tmp = tempfile.mkdtemp(prefix="mut-")
        try:
            dst = os.path.join(tmp, "repo")
            shutil.copytree(REPO, dst, ignore=shutil.ignore_patterns(".git", "__pycache__", "*.pyc", ".pytest_cache"))
            for ed in m["edits"]:
                p = os.path.join(dst, ed["file"])
                s = open(p).read()
                if ed.get("all") and s.count(ed["old"]) >= 1:
                    open(p, "w").write(s.replace(ed["old"], ed["new"]))
                    continue
                if s.count(ed["old"]) != 1:
                    print(f"MUTANT {m['name']}: edit does not apply uniquely ({s.count(ed['old'])} matches) in {ed['file']}")
                    failed += 1
                    break
                open(p, "w").write(s.replace(ed["old"], ed["new"]))
            else:
                tests_ok = None
                if args.tests:
                    try:
                        r = subprocess.run(["/venv/bin/python", "-B", "-m", "pytest", "-q", "-x", "-p", "no:cacheprovider",
                                            "--timeout=120", "dali/tests"], cwd=dst, capture_output=True, text=True, timeout=400,
                                           env={**os.environ, "PYTHONPATH": dst, "PYTHONDONTWRITEBYTECODE": "1"})
                        tests_ok = r.returncode == 0
                    except subprocess.TimeoutExpired:
                        tests_ok = False
                for prop in m["props"]:
                    env = {**os.environ, "VERIF_REPO": dst, "VERIF_EVIDENCE_DIR": os.path.join(tmp, "ev"),
                           "VERIF_REPLAY_DIR": os.path.join(tmp, "rp")}
                    r = subprocess.run([os.path.join(ROOT, "check"), prop, "--tier", args.tier], cwd=ROOT,
                                       capture_output=True, text=True, env=env)
                    caught = r.returncode == 1 and f"VIOLATION property={prop}" in r.stdout
                    keys = [ln for ln in r.stdout.splitlines() if "violated:" in ln]
                    print(f"MUTANT {m['name']:45s} {prop} {'CAUGHT' if caught else 'MISSED rc=%d' % r.returncode}"
                          f"{'' if tests_ok is None else ' tests=' + ('pass' if tests_ok else 'FAIL')}"
                          f" {keys[0][:120] if keys else ''}")
                    if not caught:
                        failed += 1
                        print(r.stdout[-1500:])
        finally:
            shutil.rmtree(tmp, ignore_errors=True)
    # evidence files were rewritten by the mutant runs: the caller should re-run the real checks
    return 1 if failed else 0


if __name__ == "__main__":
    sys.exit(main())
