#!/usr/bin/env python3
"""False-alarm hunt: behaviour-preserving refactorings produced by independent sub-agents must leave every check silent.

    selftest/refactors.py ingest <agent-out-dir> <NAME>     confirm each patchK (applies to HEAD, suite passes) and store it
    selftest/refactors.py run [--tier quick] [--props C01,C02] [name ...]

A check may end 'held' (rc 0) or 'inconclusive' (rc 2: the harness could not attach to something that was renamed); a
VIOLATION on a refactoring is a false alarm of the machinery and has to be corrected there.
"""
import argparse
import json
import os
import shutil
import subprocess
import sys
import tempfile

HERE = os.path.dirname(os.path.abspath(__file__))
ROOT = os.path.dirname(HERE)
STORE = os.path.join(ROOT, "refactors")
ALL = [f"C{n:02d}" for n in range(1, 21)]


def sh(cmd, **kw):
    return subprocess.run(cmd, capture_output=True, text=True, **kw)


def worktree():
    d = tempfile.mkdtemp(prefix="refwt-")
    os.rmdir(d)
    r = sh(["git", "-C", "/repo", "worktree", "add", "-q", "--detach", d, "HEAD"])
    if r.returncode:
        raise RuntimeError(r.stderr)
    return d


def drop(d):
    sh(["git", "-C", "/repo", "worktree", "remove", "--force", d])
    shutil.rmtree(d, ignore_errors=True)


def ingest(outdir, name):
    meta = json.load(open(os.path.join(outdir, "meta.json")))
    os.makedirs(STORE, exist_ok=True)
    for k, m in enumerate(meta, 1):
        patch = os.path.join(outdir, m["patch"])
        wt = worktree()
        try:
            ap = sh(["git", "-C", wt, "apply", patch])
            if ap.returncode:
                print(f"{name}-{k}: patch does not apply: {ap.stderr[:200]}")
                continue
            r = sh(["/venv/bin/python", "-B", "-m", "pytest", "-q", "-p", "no:cacheprovider", "--timeout=600", "dali/tests"], cwd=wt,
                   env={**os.environ, "PYTHONPATH": wt})
            tail = (r.stdout.strip().splitlines() or ["?"])[-1]
            ok = r.returncode == 0
            print(f"{name}-{k}: suite={'pass' if ok else 'FAIL'} ({tail}) -> {'KEEP' if ok else 'DROP'}")
            if not ok:
                continue
            dst = os.path.join(STORE, f"{name}-{k}")
            os.makedirs(dst, exist_ok=True)
            shutil.copy(patch, os.path.join(dst, "patch.diff"))
            files = sorted({ln[6:].strip() for ln in open(patch) if ln.startswith("+++ b/")})
            json.dump({"summary": m.get("summary"), "why_equivalent": m.get("why_equivalent"), "agent_ran": m.get("ran"),
                       "files": files, "suite_with_patch": tail, "checks": {}}, open(os.path.join(dst, "meta.json"), "w"), indent=1)
        finally:
            drop(wt)


def run(names, tier, props):
    rc = 0
    for name in sorted(os.listdir(STORE)):
        d = os.path.join(STORE, name)
        if not os.path.isdir(d) or (names and not any(n in name for n in names)):
            continue
        mpath = os.path.join(d, "meta.json")
        meta = json.load(open(mpath))
        wt = worktree()
        try:
            ap = sh(["git", "-C", wt, "apply", os.path.join(d, "patch.diff")])
            if ap.returncode:
                print(f"{name}: patch no longer applies to HEAD: {ap.stderr[:200]}")
                continue
            tmp = tempfile.mkdtemp(prefix="refev-")
            for prop in props:
                env = {**os.environ, "VERIF_REPO": wt, "VERIF_EVIDENCE_DIR": tmp, "VERIF_REPLAY_DIR": tmp}
                r = sh([os.path.join(ROOT, "check"), prop, "--tier", tier], cwd=ROOT, env=env)
                alarm = "VIOLATION" in r.stdout or r.returncode == 1
                verdict = "FALSE-ALARM" if alarm else ("inconclusive" if r.returncode == 2 else "silent")
                keys = [ln.split("violated:")[1].strip()[:160] for ln in r.stdout.splitlines() if "violated:" in ln]
                inc = [ln.strip()[:160] for ln in r.stdout.splitlines() if "INCONCLUSIVE" in ln][:2]
                print(f"{name:8s} {prop} {tier:8s} {verdict} {keys[:2] or inc[:1]}")
                meta.setdefault("checks", {})[f"{prop}/{tier}"] = {"verdict": verdict, "rc": r.returncode, "keys": keys[:3], "inconclusive": inc}
                if alarm:
                    rc = 1
            shutil.rmtree(tmp, ignore_errors=True)
            json.dump(meta, open(mpath, "w"), indent=1)
        finally:
            drop(wt)
    return rc


def main():
    ap = argparse.ArgumentParser()
    sub = ap.add_subparsers(dest="cmd", required=True)
    a = sub.add_parser("ingest")
    a.add_argument("outdir")
    a.add_argument("name")
    b = sub.add_parser("run")
    b.add_argument("--tier", default="quick")
    b.add_argument("--props", default="")
    b.add_argument("names", nargs="*")
    args = ap.parse_args()
    if args.cmd == "ingest":
        ingest(args.outdir, args.name)
        return 0
    return run(args.names, args.tier, [p for p in args.props.split(",") if p] or ALL)


if __name__ == "__main__":
    sys.exit(main())
