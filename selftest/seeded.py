#!/usr/bin/env python3
"""Confirm and evaluate property-breaking changes produced by independent sub-agents.

    selftest/seeded.py ingest <agent-out-dir> <PROP>     confirm each patchK/demoK and store it under seeded/<PROP>-<k>/
    selftest/seeded.py run [--tier quick] [name ...]     run the named checks against every stored change

A change is kept only when, in a fresh scratch worktree of /repo's HEAD (under $TMPDIR): the patch
applies, the repository's own suite still passes with it, and the demonstration fails with it and
passes without it.  Checks run with VERIF_REPO pointing at the scratch worktree; /repo is not touched.
"""
import argparse
import json
import os
import shutil
import subprocess
import sys
import tempfile

HERE = os.path.dirname(os.path.abspath(__file__))
ROOT = os.path.dirname(HERE)
SEEDED = os.path.join(ROOT, "seeded")
PY = "/venv/bin/python"


def sh(cmd, **kw):
    return subprocess.run(cmd, capture_output=True, text=True, **kw)


def worktree():
    d = tempfile.mkdtemp(prefix="seedwt-")
    os.rmdir(d)
    r = sh(["git", "-C", "/repo", "worktree", "add", "-q", "--detach", d, "HEAD"])
    if r.returncode:
        raise RuntimeError(r.stderr)
    return d


def drop(d):
    sh(["git", "-C", "/repo", "worktree", "remove", "--force", d])
    shutil.rmtree(d, ignore_errors=True)


def suite(wt):
    env = {**os.environ, "PYTHONPATH": wt, "PYTHONDONTWRITEBYTECODE": "1"}
    r = sh([PY, "-B", "-m", "pytest", "-q", "-p", "no:cacheprovider", "dali/tests"], cwd=wt, env=env)
    tail = (r.stdout.strip().splitlines() or ["?"])[-1]
    return r.returncode == 0, tail


def demo(wt, path):
    env = {**os.environ, "PYTHONPATH": wt, "PYTHONDONTWRITEBYTECODE": "1"}
    try:
        r = sh([PY, "-B", path], cwd=os.path.dirname(path), env=env, timeout=600)
        return r.returncode, (r.stdout + r.stderr)[-300:]
    except subprocess.TimeoutExpired:
        return 124, "timeout"


def ingest(outdir, prop):
    meta = json.load(open(os.path.join(outdir, "meta.json")))
    os.makedirs(SEEDED, exist_ok=True)
    for k, m in enumerate(meta, 1):
        patch = os.path.join(outdir, m["patch"])
        dem = os.path.join(outdir, m["demo"])
        wt = worktree()
        try:
            rc0, out0 = demo(wt, dem)
            ap = sh(["git", "-C", wt, "apply", patch])
            if ap.returncode:
                print(f"{prop}-{k}: patch does not apply: {ap.stderr[:200]}")
                continue
            ok, tail = suite(wt)
            rc1, out1 = demo(wt, dem)
            good = ok and rc0 == 0 and rc1 != 0
            print(f"{prop}-{k}: suite={'pass' if ok else 'FAIL'} ({tail}) demo clean rc={rc0} patched rc={rc1} -> "
                  f"{'KEEP' if good else 'DROP'}")
            if not good:
                continue
            name = f"{prop}-{k}"
            n = 1
            while os.path.exists(os.path.join(SEEDED, name)):
                n += 1
                name = f"{prop}-{k}-{n}"
            dst = os.path.join(SEEDED, name)
            os.makedirs(dst)
            shutil.copy(patch, os.path.join(dst, "patch.diff"))
            shutil.copy(dem, os.path.join(dst, "demo.py"))
            json.dump({"property": prop, "summary": m.get("summary"), "needs": m.get("needs"),
                       "agent_ran": m.get("ran"),
                       "confirmed": {"suite_with_patch": tail, "demo_clean_rc": rc0, "demo_patched_rc": rc1,
                                     "demo_patched_tail": out1[-200:]},
                       "checks": {}}, open(os.path.join(dst, "meta.json"), "w"), indent=1)
        finally:
            drop(wt)


def run(names, tier, props_override=None):
    rc = 0
    for name in sorted(os.listdir(SEEDED)):
        d = os.path.join(SEEDED, name)
        if not os.path.isdir(d) or (names and not any(n in name for n in names)):
            continue
        mpath = os.path.join(d, "meta.json")
        meta = json.load(open(mpath))
        props = props_override or ([meta["property"]] + list(meta.get("caught_by", [])))
        if meta.get("not_judged") and not props_override:
            print(f"{name:12s} not judged: {meta['not_judged'][:120]}")
            continue
        wt = worktree()
        try:
            ap = sh(["git", "-C", wt, "apply", os.path.join(d, "patch.diff")])
            if ap.returncode:
                print(f"{name}: patch no longer applies to HEAD: {ap.stderr[:200]}")
                rc = 1
                continue
            tmp = tempfile.mkdtemp(prefix="seedev-")
            for prop in props:
                env = {**os.environ, "VERIF_REPO": wt, "VERIF_EVIDENCE_DIR": tmp, "VERIF_REPLAY_DIR": tmp}
                r = sh([os.path.join(ROOT, "check"), prop, "--tier", tier], cwd=ROOT, env=env)
                caught = r.returncode == 1 and f"VIOLATION property={prop}" in r.stdout
                keys = [ln.split("violated:")[1].strip()[:150] for ln in r.stdout.splitlines() if "violated:" in ln]
                print(f"{name:12s} {prop} {tier:8s} {'CAUGHT' if caught else 'MISSED rc=%d' % r.returncode} {keys[:1]}")
                meta.setdefault("checks", {})[f"{prop}/{tier}"] = {"caught": caught, "rc": r.returncode, "keys": keys[:3]}
                if not caught and not (prop == meta["property"] and meta.get("caught_by") and not props_override):
                    rc = 1
                    print("    " + "\n    ".join(r.stdout.strip().splitlines()[-6:]))
            shutil.rmtree(tmp, ignore_errors=True)
            json.dump(meta, open(mpath, "w"), indent=1)
        finally:
            drop(wt)
    return rc


def main():
    ap = argparse.ArgumentParser()
    sub = ap.add_subparsers(dest="cmd", required=True)
    a = sub.add_parser("ingest")
    a.add_argument("outdir")
    a.add_argument("prop")
    b = sub.add_parser("run")
    b.add_argument("--tier", default="quick")
    b.add_argument("--props", default="")
    b.add_argument("names", nargs="*")
    args = ap.parse_args()
    if args.cmd == "ingest":
        ingest(args.outdir, args.prop.upper())
        return 0
    return run(args.names, args.tier, [p for p in args.props.split(",") if p] or None)


if __name__ == "__main__":
    sys.exit(main())
