"""Gateway models for the virtual-time simulation of the asyncio drivers.

Each model is the weakest device consistent with what the driver documents and with the vendor
protocol as the author knows it.  A model owns a DALI *bus*: commands are processed strictly in the
order they were handed to the gateway; every transmitted frame is appended to `bus.wire` (the wire
log) together with the answer the bus gave.  All delays are decisions of a `pick(label, options)`
callable supplied by the harness (seeded, DFS or replay).

HID devices are reached through an `os` shim (open/read/write/close on a fake fd registered with the
fake selector); serial devices through a fake `serial_asyncio.create_serial_connection`.
"""
import collections

from spec import wire_formats as W
from models import cmd_ref


class Bus:
    """The DALI bus behind a gateway: a function frame -> answer plus the ordered wire log."""

    def __init__(self, answer):
        self.answer = answer            # (width, value, index) -> None | ('ok', v) | ('collision', v)
        self.wire = []                  # dicts: t, width, value, answer, origin ('own' | 'foreign')

    def transmit(self, t, width, value, origin="own", want_answer=True):
        idx = len(self.wire)
        # the units on the bus see every frame (the first transmission of a send-twice command too); want_answer=False
        # only means the gateway does not listen for a backward frame after this transmission
        ans = self.answer(width, value, idx)
        if not want_answer:
            ans = None
        self.wire.append({"t": t, "width": width, "value": value, "answer": ans, "origin": origin})
        return ans


def is_query(width, value, dt=0):
    """Does the standard define an answer for this frame? (used by devices that only report answers to queries)"""
    if width == 16:
        c = cmd_ref.classify16(value, 0)
        if c[0] != "known" and dt:
            c = cmd_ref.classify16(value, dt)
    elif width == 24 and (value >> 16) & 1:
        c = cmd_ref.classify24(value)
    else:
        return False
    return c[0] == "known" and c[1].answer != "none"


def is_send_twice(width, value, dt=0):
    """Is this frame a command the standard requires to be sent twice?"""
    if width == 16:
        c = cmd_ref.classify16(value, 0)
        if c[0] != "known" and dt:
            c = cmd_ref.classify16(value, dt)
    elif width == 24 and (value >> 16) & 1:
        c = cmd_ref.classify24(value)
    else:
        return False
    return c[0] == "known" and bool(c[1].twice)


# ------------------------------------------------------------------------------------------- HID

class OsShim:
    """Replacement for the `os` module inside dali.driver.hid."""
    O_RDWR = 2
    O_NONBLOCK = 2048

    def __init__(self, world):
        self.world = world
        self.paths = {}          # path -> device
        self.fds = {}            # fd -> device
        self._next_fd = 700
        self.log = []            # ('open'|'close'|'write'|'read', ...)

    def add(self, path, dev):
        self.paths[path] = dev
        dev.shim = self

    def open(self, path, flags):
        dev = self.paths.get(path)
        self.log.append(("open", self.world.now, path, bool(dev and dev.present)))
        if dev is None or not dev.present:
            # the node is gone - or still there while the adapter re-enumerates, or not yet accessible: whatever the reason,
            # the device cannot be opened now
            self._open_failures = getattr(self, "_open_failures", 0) + 1
            k = self._open_failures % 4
            if dev is None or k == 1:
                raise FileNotFoundError(2, "No such file or directory", path)
            if k == 2:
                raise OSError(19, "No such device", path)
            if k == 3:
                raise PermissionError(13, "Permission denied", path)
            raise OSError(5, "Input/output error", path)
        self._next_fd += 1
        fd = self._next_fd
        self.fds[fd] = dev
        dev.opened(fd)
        return fd

    def close(self, fd):
        dev = self.fds.pop(fd, None)
        self.log.append(("close", self.world.now, fd))
        if dev:
            dev.closed(fd)

    def read(self, fd, n):
        if not isinstance(fd, int):
            raise TypeError(f"an integer is required (got type {type(fd).__name__})")       # as the real os module does
        dev = self.fds.get(fd)
        if dev is None:
            raise OSError(9, "Bad file descriptor")
        return dev.read(fd, n)

    def write(self, fd, data):
        if not isinstance(fd, int):
            raise TypeError(f"an integer is required (got type {type(fd).__name__})")
        dev = self.fds.get(fd)
        if dev is None:
            raise OSError(9, "Bad file descriptor")
        self.log.append(("write", self.world.now, bytes(data)))
        return dev.write(fd, bytes(data))


class GlobShim:
    """Replacement for the `glob` module inside dali.driver.hid: device nodes exist while the device is present."""

    def __init__(self, os_shim):
        self.os_shim = os_shim
        self.calls = 0

    def glob(self, pattern):
        import fnmatch
        self.calls += 1
        found = sorted(p for p, dev in self.os_shim.paths.items() if dev.present and fnmatch.fnmatch(p, pattern))
        if not found:
            # an attempt to (re)open that found no device node: logged like a failed open
            self.os_shim.log.append(("open", self.os_shim.world.now, pattern, False))
        return found


class HidDevice:
    def __init__(self, world, pick):
        self.world, self.pick = world, pick
        self.present = True
        self.fd = None
        self.rx = collections.deque()
        self.lost_mode = None          # None | 'oserror' | 'eof'
        self.write_fails = False
        self.writes = []
        self.on_report = None          # harness hook: called when a report becomes readable
        self.blocked_until = -1.0      # writes raise BlockingIOError until this instant (output queue full)
        world.devices.append(self)

    # -- file interface
    def opened(self, fd):
        self.fd = fd
        self.rx.clear()
        self.lost_mode = None

    def closed(self, fd):
        if self.fd == fd:
            self.fd = None

    def readable(self, fd):
        return fd == self.fd and (bool(self.rx) or self.lost_mode is not None)

    def read(self, fd, n):
        if self.lost_mode == "oserror":
            raise OSError(19, "No such device")
        if self.lost_mode == "eof":
            return b""
        if not self.rx:
            raise BlockingIOError(11, "Resource temporarily unavailable")
        return self.rx.popleft()

    def write(self, fd, data):
        if self.lost_mode is not None or self.write_fails or not self.present:
            raise OSError(19, "No such device")
        if self.world.now < self.blocked_until:
            # the device's output queue is full (O_NONBLOCK): try again later
            raise BlockingIOError(11, "Resource temporarily unavailable")
        self.writes.append((self.world.now, data))
        self.on_write(data)
        return len(data)

    # -- faults
    def lose(self, mode="oserror", write_only=False):
        """The device disappears: reads fail (OSError or EOF), writes fail, re-opening fails until restore()."""
        self.present = False
        if write_only:
            self.write_fails = True
        else:
            self.lost_mode = mode

    def restore(self):
        self.present = True
        self.write_fails = False

    def report(self, delay, data):
        def deliver(fd=self.fd):
            if self.fd == fd and self.lost_mode is None:
                self.rx.append(data)
                if self.on_report is not None:
                    self.on_report(data)
        self.world.after(delay, deliver)


class TridonicUsb(HidDevice):
    """Tridonic DALI USB: 64-byte reports; commands processed in order; every transmitted forward frame is
    reported (type 0x73/0x76, with the command's sequence number), then the outcome (0x72 value / 0x77 status 3 /
    0x71 no frame)."""

    VERSION = (4, 7)
    SERIAL = bytes([0x12, 0x34, 0x56, 0x78])

    def __init__(self, world, pick, bus):
        super().__init__(world, pick)
        self.bus = bus
        self.busy_until = 0.0
        self.handshakes = []
        self.silent_handshake = False

    def opened(self, fd):
        super().opened(fd)
        self.busy_until = self.world.now

    def on_write(self, data):
        cmd = data[0]
        if cmd == 0x01:
            self.handshakes.append((self.world.now, data[1]))
            if self.silent_handshake:
                return
            if data[1] == 0x00:
                rep = bytes([W.TRI_INFO, 0, 0, self.VERSION[0], self.VERSION[1]]) + bytes(59)
            else:
                rep = bytes([W.TRI_INFO]) + self.SERIAL + bytes(59)
            self.report(self.pick("tri.info_delay", [0.002, 0.02]), rep)
        elif cmd == 0x12:
            seq, ctrl, mode = data[1], data[2], data[3]
            width = {3: 16, 6: 24, 2: 8}.get(mode)
            value = int.from_bytes(data[4:8], "big")
            twice = bool(ctrl & 0x20)
            self.start_tx(seq, width, value, twice)
        elif cmd == 0x40:
            pass

    def start_tx(self, seq, width, value, twice):
        t0 = max(self.world.now, self.busy_until)
        frame_time = 0.0167 if width == 16 else 0.0233
        t = t0 + self.pick("tri.queue_delay", [0.001, 0.004, 0.03])
        n = 2 if twice else 1
        for k in range(n):
            t += frame_time
            last = k == n - 1
            self._tx_one(t, seq, width, value, last)
            t += 0.0025
        t += self.pick("tri.answer_delay", [0.006, 0.011])
        self.busy_until = t + 0.002

    def _tx_one(self, t, seq, width, value, last):
        def fire():
            ans = self.bus.transmit(self.world.now, width, value, "own", want_answer=last)
            rtype = W.TRI_16 if width == 16 else W.TRI_24
            self.report(self.pick("tri.report_delay", [0.0005, 0.003]), W.tridonic_report(W.TRI_RESPONSE, rtype, value, seq))
            if last:
                d = self.pick("tri.outcome_delay", [0.007, 0.012, 0.022])
                if ans is None:
                    self.report(d, W.tridonic_report(W.TRI_RESPONSE, W.TRI_NO, 0, seq))
                elif ans[0] == "ok":
                    self.report(d, W.tridonic_report(W.TRI_RESPONSE, W.TRI_8, ans[1], seq))
                else:
                    self.report(d, W.tridonic_report(W.TRI_RESPONSE, W.TRI_STATUS, 0, seq, status=3))
        self.world.at(t, fire)

    def foreign(self, delay, width, value, answer=None, answer_delay=0.009):
        """Traffic from another master observed on the bus (MODE_OBSERVE reports)."""
        def fire():
            self.bus.wire.append({"t": self.world.now, "width": width, "value": value, "answer": answer, "origin": "foreign"})
            rtype = {16: W.TRI_16, 24: W.TRI_24}[width]
            self.report(0.001, W.tridonic_report(W.TRI_OBSERVE, rtype, value, 0))
            if answer == "none-report":
                self.report(answer_delay, W.tridonic_report(W.TRI_OBSERVE, W.TRI_NO, 0, 0))
            elif answer is not None and answer[0] == "ok":
                self.report(answer_delay, W.tridonic_report(W.TRI_OBSERVE, W.TRI_8, answer[1], 0))
            elif answer is not None:
                self.report(answer_delay, W.tridonic_report(W.TRI_OBSERVE, W.TRI_STATUS, 0, 0, status=3))
        self.world.after(delay, fire)


class HassebUsb(HidDevice):
    """hasseb DALI master: two bytes per transmission; reports (status, value) only for frames of its internal table
    of queries (device type 0); sends 'no data available' reports while idle."""

    def __init__(self, world, pick, bus, idle_reports=True):
        super().__init__(world, pick)
        self.bus = bus
        self.busy_until = 0.0
        self.idle_reports = idle_reports
        self.last_frame = None

    def on_write(self, data):
        value = int.from_bytes(data[:2], "big")
        t0 = max(self.world.now, self.busy_until) + 0.0167
        self.busy_until = t0 + 0.012

        def fire():
            ans = self.bus.transmit(self.world.now, 16, value, "own")
            if is_query(16, value):
                d = self.pick("hasseb.answer_delay", [0.008, 0.013])
                # a report is the status byte and, where there is something to carry, a data byte; what follows is padding
                shape = self.pick("hasseb.report_shape", ["two", "two", "padded", "status-only"])
                pad = bytes(6) if shape == "padded" else b""
                if ans is None:
                    self.report(d, bytes([1]) if shape == "status-only" else bytes([1, 0]) + pad)
                elif ans[0] == "ok":
                    self.report(d, bytes([2, ans[1]]) + pad)
                else:
                    self.report(d, bytes([3, ans[1]]) + pad)
            elif self.idle_reports and self.pick("hasseb.idle", [0, 1]):
                self.report(0.02, bytes([0]) if self.pick("hasseb.idle_shape", [0, 1]) else bytes([0, 0]))
        self.world.at(t0, fire)


# ------------------------------------------------------------------------------------------- serial

class FakeTransport:
    def __init__(self, world, loop, device):
        self.world, self.loop, self.device = world, loop, device
        self.closed = False
        self.written = []

    def write(self, data):
        data = bytes(data)
        self.written.append((self.world.now, data))
        self.device.on_write(data)

    def close(self):
        self.closed = True

    def is_closing(self):
        return self.closed

    def __repr__(self):
        return "<FakeTransport>"


class FakeSerialAsyncio:
    """Replacement for the serial_asyncio module inside dali.driver.serial."""

    class SerialTransport:
        pass

    def __init__(self, world, devices):
        self.world = world
        self.devices = devices        # url -> device model
        self.connections = []

    async def create_serial_connection(self, loop, protocol_factory, url=None, **kw):
        dev = self.devices[url]
        proto = protocol_factory()
        tr = FakeTransport(self.world, loop, dev)
        dev.attach(loop, proto, tr)
        self.connections.append((url, kw))
        loop.call_soon(proto.connection_made, tr)
        return tr, proto


class SerialDevice:
    def __init__(self, world, pick, bus):
        self.world, self.pick, self.bus = world, pick, bus
        self.loop = self.proto = self.transport = None
        self.silent = False             # the gateway stops talking altogether
        self.busy_until = 0.0
        self.rxbuf = b""
        self.late_answers = {}          # (width, value) -> extra seconds before the backward frame of that command is reported

    def attach(self, loop, proto, transport):
        self.loop, self.proto, self.transport = loop, proto, transport

    def readable(self, fd):
        return False

    def send(self, delay, data):
        """Bytes from the gateway to the host, possibly split into chunks."""
        if self.silent:
            return
        data = bytes(data)
        cuts = self.pick("serial.chunking", [0, 1, 2])
        chunks = [data]
        if cuts == 1 and len(data) > 1:
            chunks = [data[:1], data[1:]]
        elif cuts == 2 and len(data) > 2:
            m = len(data) // 2
            chunks = [data[:m], data[m:]]
        # a serial line delivers frames one after the other: never interleave the bytes of two messages
        t = max(self.world.now + delay, getattr(self, "_line_free_at", 0.0))
        for k, ch in enumerate(chunks):
            self.loop.call_at(t + 0.0003 * k, self._deliver, ch)
        self._line_free_at = t + 0.0003 * len(chunks)
        return self._line_free_at

    def send_whole(self, delay, data):
        """Deliver data in one piece (one read on the host side)."""
        if self.silent:
            return
        t = max(self.world.now + delay, getattr(self, "_line_free_at", 0.0))
        self.loop.call_at(t, self._deliver, bytes(data))
        self._line_free_at = t + 0.0003
        return self._line_free_at

    def _deliver(self, ch):
        if not self.transport.closed:
            self.proto.data_received(ch)


class LubaGateway(SerialDevice):
    """Lunatone LUBA RS232: answers device-info / settings requests; each ADD DALI FRAME TO TX is acknowledged (0x33),
    transmitted in order, reported with a 'sent' event per transmission and followed by a 'received' event when a
    backward frame came (a framing error is reported with event info 63)."""

    def __init__(self, world, pick, bus):
        super().__init__(world, pick, bus)
        self.tx_id = 0
        self.confirm = True        # send the 'sent' events
        self.answering = True      # forward backward frames

    def on_write(self, data):
        self.rxbuf += data
        while len(self.rxbuf) >= 4:
            if self.rxbuf[0] != 0x59:
                self.rxbuf = self.rxbuf[1:]
                continue
            ln = self.rxbuf[2]
            if len(self.rxbuf) < ln + 4:
                return
            frame, self.rxbuf = self.rxbuf[:ln + 4], self.rxbuf[ln + 4:]
            self.handle(frame[1], frame[3:-1])

    def handle(self, cmd, payload):
        if cmd == 0x20:
            self.send(self.pick("luba.info_delay", [0.003, 0.05]), W.luba_devinfo())
        elif cmd == 0x2A:
            self.send(self.pick("luba.info_delay", [0.003, 0.05]), W.luba_settings(payload[0], payload[1], payload[2]))
        elif cmd == 0x32:
            nbits, mode = payload[1], payload[2]
            value = int.from_bytes(bytes(payload[3:3 + nbits // 8]), "big")
            twice = bool(mode & 0x80)
            self.tx_id = (self.tx_id + 1) % 256
            tx_id = self.tx_id
            if self.pick("luba.ack", [1, 0]):
                self.send(0.001, W.luba_frame(0x33, [tx_id, 0]))
            t = max(self.world.now, self.busy_until) + self.pick("luba.queue_delay", [0.002, 0.02, 0.3])
            frame_time = 0.0167 if nbits == 16 else 0.0233
            n = 2 if twice else 1
            fb = list(value.to_bytes(nbits // 8, "big"))
            for k in range(n):
                t += frame_time
                self.world.at(t, lambda last=(k == n - 1), tx_id=tx_id, fb=fb, nbits=nbits, value=value:
                              self._sent(last, tx_id, fb, nbits, value))
                t += 0.0025
            self.busy_until = t + 0.012

    def _sent(self, last, tx_id, fb, nbits, value):
        ans = self.bus.transmit(self.world.now, nbits, value, "own", want_answer=last)
        conf = W.luba_event_sent(tx_id, fb, tick=int(self.world.now * 1000) & 0xFFFF)
        answer = None
        if last and ans is not None and self.answering:
            answer = W.luba_event_received([ans[1]]) if ans[0] == "ok" else W.luba_event_received([ans[1]], info=63)
        late = self.late_answers.get((nbits, value), 0.0)
        if late and answer is not None:
            if self.confirm:
                self.send(self.pick("luba.confirm_delay", [0.001, 0.004]), conf)
            self.send(0.012 + late, answer)
            return
        if self.confirm and answer is not None and self.pick("luba.coalesce", [0, 0, 1]):
            # a USB-serial adapter may hand both events to the host in one read
            self.send_whole(self.pick("luba.answer_delay", [0.012, 0.02]), conf + answer)
            return
        if self.confirm:
            self.send(self.pick("luba.confirm_delay", [0.001, 0.004]), conf)
        if answer is not None:
            self.send(self.pick("luba.answer_delay", [0.007, 0.012, 0.02]), answer)

    def foreign(self, delay, nbits, value, answer=None):
        def fire():
            entry = {"t": self.world.now, "width": nbits, "value": value, "answer": answer, "origin": "foreign"}
            self.bus.wire.append(entry)
            d = self.send(0.001, W.luba_event_received(list(value.to_bytes(nbits // 8, "big"))))
            if answer is not None and answer[0] == "ok":
                d = self.send(0.009, W.luba_event_received([answer[1]]))
            elif answer is not None:
                d = self.send(0.009, W.luba_event_received([answer[1]], info=63))
            entry["delivered"] = d
        self.world.after(delay, fire)


class SciGateway(SerialDevice):
    """Lunatone SCI RS232: five-byte frames.  A send request is transmitted, optionally echoed as an observed frame,
    then confirmed with a status frame (OK, or NO when a query stayed unanswered) and, when a backward frame came,
    an 8-bit frame report."""

    def __init__(self, world, pick, bus, align="left"):
        super().__init__(world, pick, bus)
        self.align = align         # how 8/16-bit frames sit in the three data bytes of a *request* (see C18)
        self.confirm = True
        self.answering = True
        self.dev_id = 0x30
        self.late_confirms = {}        # (width, value) -> extra seconds before the status report of that command is sent

    def on_write(self, data):
        self.rxbuf += data
        while len(self.rxbuf) >= 5:
            f, self.rxbuf = self.rxbuf[:5], self.rxbuf[5:]
            if W.xor(f[:4]) != f[4]:
                self.send(0.001, W.sci_frame(self.dev_id | 7, 0, 0, 1))
                continue
            self.handle(f)

    def handle(self, f):
        ctrl = f[0]
        mode = ctrl & 0x0F
        twice = bool(ctrl & 0x10)
        echo = bool(ctrl & 0x20)
        if ctrl & 0x40 and mode == 2 and f[1:4] == bytes(3):
            self.send(self.pick("sci.info_delay", [0.003, 0.05]), W.sci_frame(self.dev_id | 0, 0, 0, 0))
            return
        nbits = {2: 8, 3: 16, 8: 24}.get(mode)
        if nbits is None:
            self.send(0.001, W.sci_frame(self.dev_id | 7, 0, 0, 4))
            return
        raw = int.from_bytes(f[1:4], "big")
        value = raw >> (24 - nbits) if self.align == "left" else raw & ((1 << nbits) - 1)
        t = max(self.world.now, self.busy_until) + self.pick("sci.queue_delay", [0.002, 0.02])
        frame_time = 0.0167 if nbits == 16 else 0.0233
        n = 2 if twice else 1
        for k in range(n):
            t += frame_time
            self.world.at(t, lambda last=(k == n - 1), nbits=nbits, value=value, echo=echo: self._sent(last, nbits, value, echo))
            t += 0.0025
        self.busy_until = t + 0.012

    def _sent(self, last, nbits, value, echo):
        ans = self.bus.transmit(self.world.now, nbits, value, "own", want_answer=last)
        if echo and nbits in (16, 24):
            b = value.to_bytes(3, "big")
            self.send(0.0005, W.sci_frame(self.dev_id | (3 if nbits == 16 else 8), b[0], b[1], b[2]))
        if not last:
            return
        if self.confirm:
            if ans is not None and ans[0] != "ok":
                # a garbled backward frame is reported as a DALI receive error *instead of* the OK status
                self.send(self.pick("sci.confirm_delay", [0.002, 0.012]), W.sci_frame(self.dev_id | 7, 0, 0, 3))
            else:
                code = 1 if (ans is None and is_query(nbits, value)) else 0
                self.send(self.pick("sci.confirm_delay", [0.002, 0.012]) + self.late_confirms.get((nbits, value), 0.0),
                          W.sci_frame(self.dev_id | code, 0, 0, 0))
        if ans is not None and ans[0] == "ok" and self.answering:
            d = self.pick("sci.answer_delay", [0.014, 0.02, 0.028]) + self.late_answers.get((nbits, value), 0.0)
            self.send(d, W.sci_frame(self.dev_id | 2, 0, 0, ans[1]))

    def foreign(self, delay, nbits, value, answer=None):
        def fire():
            entry = {"t": self.world.now, "width": nbits, "value": value, "answer": answer, "origin": "foreign"}
            self.bus.wire.append(entry)
            b = value.to_bytes(3, "big")
            d = self.send(0.001, W.sci_frame(self.dev_id | (3 if nbits == 16 else 8), b[0], b[1], b[2]))
            if answer is not None and answer[0] == "ok":
                d = self.send(0.009, W.sci_frame(self.dev_id | 2, 0, 0, answer[1]))
            elif answer is not None:
                d = self.send(0.009, W.sci_frame(self.dev_id | 7, 0, 0, 3))      # spontaneous 'DALI receive error' status
            entry["delivered"] = d
        self.world.after(delay, fire)
