"""Builds a virtual-time simulation around one real asyncio driver object."""
import asyncio
import importlib
import logging
import random

from vlib import vloop
from gateways import sim

DRIVERS = ("tridonic", "hasseb", "luba", "sci")


class HarnessDetached(Exception):
    """The library no longer goes through the module attributes the harness replaces: nothing can be observed."""


class Picker:
    """Source of every nondeterministic decision: seeded RNG, a forced prefix (DFS / replay), and a log."""

    def __init__(self, rng, prefix=None, overrides=None, default="random"):
        self.rng = rng
        self.prefix = list(prefix or [])
        self.log = []                  # (label, n_options, index)
        self.overrides = overrides or {}   # label -> fixed index
        self.default = default         # beyond the prefix: "random" (seeded) or "first" (deterministic, for DFS)

    def pick(self, label, options):
        n = len(options)
        k = len(self.log)
        if label in self.overrides:
            i = self.overrides[label] % n
        elif k < len(self.prefix):
            i = self.prefix[k] % n
        elif self.default == "first":
            i = 0
        else:
            i = self.rng.randrange(n)
        self.log.append((label, n, i))
        return options[i]


class ExtremeRandom:
    """Stands in for the `random` module inside a driver: every draw is the largest ('max') or smallest ('min') value the
    call can return."""

    def __init__(self, mode):
        self.mode = mode

    def randint(self, a, b):
        return b if self.mode == "max" else a

    def randrange(self, a, b=None, step=1):
        lo, hi = (0, a) if b is None else (a, b)
        return hi - 1 if self.mode == "max" else lo

    def getrandbits(self, k):
        return (1 << k) - 1 if self.mode == "max" else 0

    def random(self):
        return 0.9999999 if self.mode == "max" else 0.0

    def choice(self, seq):
        return seq[-1] if self.mode == "max" else seq[0]

    def __getattr__(self, name):
        return getattr(random, name)


class Sim:
    def __init__(self, kind, picker, answer=None, dev_inst_map=None, hid_kwargs=None, register_callbacks=True, answer2=None, random_mode=None):
        assert kind in DRIVERS
        self.kind = kind
        self.picker = picker
        self.world = vloop.World()
        self.answers = {}              # wire index -> answer given
        self.bus = sim.Bus(self._answer)
        self.user_answer = answer
        self.random_mode = random_mode
        # a second gateway of the same kind on a second bus, driven by a second driver instance in the same process
        self.user_answer2 = answer2
        self.bus2 = sim.Bus(lambda w_, v_, i_: self.user_answer2(w_, v_, i_, 0)) if answer2 is not None else None
        self.driver2 = self.dev2 = None
        self.status_events = []        # (virtual time, status) from connection_status_callback
        self.traffic = []              # (virtual time, command, response, error flag) from bus_traffic
        self.driver = None
        self.dev = None
        self.loop = None
        self.hid_kwargs = hid_kwargs or {}
        self.dev_inst_map = dev_inst_map
        self.register_callbacks = register_callbacks
        self.hostile = False
        self.hostile_calls = 0
        logging.disable(logging.CRITICAL)

    # -- the bus: unique answer values per transmitted frame unless the harness decides otherwise
    def _answer(self, width, value, idx):
        dt = 0
        prev = self.bus.wire[-1] if self.bus.wire else None
        if prev is not None and prev["width"] == 16 and prev["value"] >> 8 == 0xC1:
            dt = prev["value"] & 0xFF          # ENABLE DEVICE TYPE applies to the next frame only
        if self.user_answer is not None:
            a = self.user_answer(width, value, idx, dt)
        else:
            a = ("ok", (idx * 37 + 11) % 256) if sim.is_query(width, value, dt) else None
        self.answers[idx] = a
        return a

    def install(self):
        """Create device model + shims. Must be called inside the running loop (driver objects create asyncio primitives)."""
        w, p = self.world, self.picker.pick
        random.seed(self.picker.rng.random())
        if self.kind in ("tridonic", "hasseb"):
            H = importlib.import_module("dali.driver.hid")
            self.shim = sim.OsShim(w)
            H.os = self.shim
            self.glob_shim = sim.GlobShim(self.shim)
            H.glob = self.glob_shim
            H.random = ExtremeRandom(self.random_mode) if self.random_mode is not None else random
            hid_path = "/dev/dali/hid*" if self.hid_kwargs.get("glob") else "/dev/dali/hid"
            if self.kind == "tridonic":
                self.dev = sim.TridonicUsb(w, p, self.bus)
                self.shim.add("/dev/dali/hid", self.dev)
                self.driver = H.tridonic(hid_path, dev_inst_map=self.dev_inst_map, **self.hid_kwargs)
            else:
                self.dev = sim.HassebUsb(w, p, self.bus)
                self.shim.add("/dev/dali/hid", self.dev)
                self.driver = H.hasseb(hid_path, **self.hid_kwargs)
            if self.bus2 is not None:
                cls_dev = sim.TridonicUsb if self.kind == "tridonic" else sim.HassebUsb
                self.dev2 = cls_dev(w, p, self.bus2)
                self.shim.add("/dev/dali/hid2", self.dev2)
                self.driver2 = (H.tridonic if self.kind == "tridonic" else H.hasseb)("/dev/dali/hid2", **self.hid_kwargs)
            if self.register_callbacks:
                self.driver.connection_status_callback.register(lambda d, s: self.status_events.append((w.now, s)))
                self.driver.bus_traffic.register(lambda d, c, r, e: self.traffic.append((w.now, c, r, e)))
                # applications' listeners are not all well behaved: some leave from inside their own notification, some
                # subscribe another listener there, some raise.  None of that is the driver's business.
                self.hostile = p("hostile-listeners", [False, False, False, "leave", "raise", "all"])
                if self.hostile:
                    for reg in (self.driver.connection_status_callback, self.driver.bus_traffic):
                        self._hostile_listeners(reg)
        else:
            S = importlib.import_module("dali.driver.serial")
            if self.kind == "luba":
                self.dev = sim.LubaGateway(w, p, self.bus)
                devs = {"/dev/ttyLUBA": self.dev}
                if self.bus2 is not None:
                    self.dev2 = sim.LubaGateway(w, p, self.bus2)
                    devs["/dev/ttyLUBA2"] = self.dev2
                self.fake_serial = sim.FakeSerialAsyncio(w, devs)
                S.serial_asyncio = self.fake_serial
                self.driver = S.DriverLubaRs232("luba232:/dev/ttyLUBA", dev_inst_map=self.dev_inst_map)
                if self.bus2 is not None:
                    self.driver2 = S.DriverLubaRs232("luba232:/dev/ttyLUBA2")
            else:
                self.dev = sim.SciGateway(w, p, self.bus)
                devs = {"/dev/ttySCI": self.dev}
                if self.bus2 is not None:
                    self.dev2 = sim.SciGateway(w, p, self.bus2)
                    devs["/dev/ttySCI2"] = self.dev2
                self.fake_serial = sim.FakeSerialAsyncio(w, devs)
                S.serial_asyncio = self.fake_serial
                self.driver = S.DriverSCIRS232("scirs232:/dev/ttySCI", dev_inst_map=self.dev_inst_map)
                if self.bus2 is not None:
                    self.driver2 = S.DriverSCIRS232("scirs232:/dev/ttySCI2")
        return self.driver

    def _hostile_listeners(self, reg):
        box = {}

        def one_shot(*a):
            self.hostile_calls += 1
            h = box.pop("h", None)
            if h is not None:
                h.unregister()

        def spawner(*a):
            self.hostile_calls += 1
            if "spawned" not in box:
                box["spawned"] = reg.register(lambda *a2: None)

        def raiser(*a):
            self.hostile_calls += 1
            raise vloop.ListenerError("an application's listener raised")
        if self.hostile in ("raise", "all"):
            reg.register(raiser)
        if self.hostile in ("leave", "all"):
            box["h"] = reg.register(one_shot)
            reg.register(spawner)
        if self.hostile == "all":
            reg.register(raiser)

    async def connect(self):
        d = self.driver
        try:
            if self.kind in ("tridonic", "hasseb"):
                d.connect()
                await asyncio.wait_for(d.connected.wait(), 30.0)
                if self.driver2 is not None:
                    self.driver2.connect()
                    await asyncio.wait_for(self.driver2.connected.wait(), 30.0)
            else:
                await asyncio.wait_for(d.connect(), 30.0)
                if self.driver2 is not None:
                    await asyncio.wait_for(self.driver2.connect(), 30.0)
        except (asyncio.TimeoutError, OSError):
            if not self.attached():
                raise HarnessDetached(f"the {self.kind} driver never touched the shimmed I/O boundary")
            raise

    def attached(self):
        """Did the driver reach the device model through the shims (os / serial_asyncio module attributes)?"""
        if self.kind in ("tridonic", "hasseb"):
            return any(e[0] == "open" for e in self.shim.log)
        return bool(self.fake_serial.connections)

    def run(self, main):
        """main(sim) is a coroutine function; returns (result, stalled)."""
        async def wrapper(loop):
            self.loop = loop
            self.install()
            return await main(self)
        result, loop, stalled = vloop.run(self.world, wrapper)
        self.loop = loop
        return result, stalled

    def close(self):
        if self.loop is not None:
            vloop.finish(self.loop)
