"""Memory-bank layout of IEC 62386-102:2014 §9.10.6 (bank 0), §9.10.7 + DiiA Part 251 (bank 1),
DiiA Part 252 (banks 202-204) and DiiA Part 253 (banks 205-207), with reference decoders.

Hand-transcribed: location ranges, widths, scaling and the meaning of the raw bytes come from the
specifications' tables as the author knows them (no copy is available offline).  Columns `access`,
`mask`, `tmask` of the DiiA 253 rows were recalled with less certainty; where the author could not
recall a cell it was pinned to the reviewed library value and is listed in PINNED (such a cell still
detects a later change but is not independent evidence).

Row: library class | bank | first | last | kind | access | mask | tmask | min | max | scale
  kind    u = unsigned big-endian number, fs = unsigned x fixed scale, temp = unsigned - 60 °C,
          ver = version number, bin = boolean (0/1), str = ASCII string (NUL terminated),
          scaled = scale byte (10^n, n signed -6..6) + unsigned number, ldt = light distribution type,
          cct = colour temperature (0xFFFE = "Part 209 implemented")
  access  rom, ram_ro, ram_rw, nvm_ro, nvm_rw, nvm_rw_l (lockable)
"""
from decimal import Decimal

LAYOUT = """
info.LastMemoryBank                  | 0   | 0x02 | 0x02 | u    | rom      | - | - | -  | -  | -
info.GTIN                            | 0   | 0x03 | 0x08 | u    | rom      | - | - | -  | -  | -
info.FirmwareVersion                 | 0   | 0x09 | 0x0a | ver  | rom      | - | - | -  | -  | -
info.IdentificationNumber            | 0   | 0x0b | 0x12 | u    | rom      | - | - | -  | -  | -
info.HardwareVersion                 | 0   | 0x13 | 0x14 | ver  | rom      | - | - | -  | -  | -
info.Part101Version                  | 0   | 0x15 | 0x15 | ver  | rom      | - | - | -  | -  | -
info.Part102Version                  | 0   | 0x16 | 0x16 | ver  | rom      | - | - | -  | -  | -
info.Part103Version                  | 0   | 0x17 | 0x17 | ver  | rom      | - | - | -  | -  | -
info.DeviceUnitCount                 | 0   | 0x18 | 0x18 | u    | rom      | - | - | -  | 64 | -
info.GearUnitCount                   | 0   | 0x19 | 0x19 | u    | rom      | - | - | -  | 64 | -
info.UnitIndex                       | 0   | 0x1a | 0x1a | u    | rom      | - | - | -  | -  | -
info.LastMemoryBank_legacy           | 0L  | 0x02 | 0x02 | u    | rom      | - | - | -  | -  | -
info.GTIN_legacy                     | 0L  | 0x03 | 0x08 | u    | rom      | - | - | -  | -  | -
info.FirmwareVersion_legacy          | 0L  | 0x09 | 0x0a | ver  | rom      | - | - | -  | -  | -
info.IdentifictionNumber_legacy      | 0L  | 0x0b | 0x0e | u    | rom      | - | - | -  | -  | -
oem.ManufacturerGTIN                 | 1   | 0x03 | 0x08 | u    | nvm_rw_l | - | - | -  | -  | -
oem.LuminaireID                      | 1   | 0x09 | 0x10 | u    | nvm_rw_l | - | - | -  | -  | -
oem.ContentFormatID                  | 1   | 0x11 | 0x12 | u    | nvm_rw_l | - | - | -  | -  | -
oem.YearOfManufacture                | 1   | 0x13 | 0x13 | u    | nvm_rw_l | M | - | -  | 99 | -
oem.WeekOfManufacture                | 1   | 0x14 | 0x14 | u    | nvm_rw_l | M | - | 1  | 53 | -
oem.InputPowerNominal                | 1   | 0x15 | 0x16 | u    | nvm_rw_l | M | - | -  | -  | -
oem.InputPowerMinimumDim             | 1   | 0x17 | 0x18 | u    | nvm_rw_l | M | - | -  | -  | -
oem.MainsVoltageMinimum              | 1   | 0x19 | 0x1a | u    | nvm_rw_l | M | - | 90 | 480 | -
oem.MainsVoltageMaximum              | 1   | 0x1b | 0x1c | u    | nvm_rw_l | M | - | 90 | 480 | -
oem.LightOutputNominal               | 1   | 0x1d | 0x1f | u    | nvm_rw_l | M | - | -  | -  | -
oem.CRI                              | 1   | 0x20 | 0x20 | u    | nvm_rw_l | M | - | -  | 100 | -
oem.CCT                              | 1   | 0x21 | 0x22 | cct  | nvm_rw_l | M | - | -  | 17000 | -
oem.LightDistributionType            | 1   | 0x23 | 0x23 | ldt  | nvm_rw_l | M | - | -  | -  | -
oem.LuminaireColor                   | 1   | 0x24 | 0x3b | str  | nvm_rw_l | - | - | -  | -  | -
oem.LuminaireIdentification          | 1   | 0x3c | 0x77 | str  | nvm_rw_l | - | - | -  | -  | -
energy.ActiveBankVersion             | 202 | 0x03 | 0x03 | u    | rom      | - | - | -  | -  | -
energy.ActiveEnergy                  | 202 | 0x04 | 0x0a | scaled | rom+nvm_ro | - | T | - | 0xfffffffffffd | -
energy.ActivePower                   | 202 | 0x0b | 0x0f | scaled | rom+ram_ro | - | T | - | 0xfffffffd | -
energy.ApparentBankVersion           | 203 | 0x03 | 0x03 | u    | rom      | - | - | -  | -  | -
energy.ApparentEnergy                | 203 | 0x04 | 0x0a | scaled | rom+nvm_ro | - | T | - | 0xfffffffffffd | -
energy.ApparentPower                 | 203 | 0x0b | 0x0f | scaled | rom+ram_ro | - | T | - | 0xfffffffd | -
energy.LoadsideBankVersion           | 204 | 0x03 | 0x03 | u    | rom      | - | - | -  | -  | -
energy.ActiveEnergyLoadside          | 204 | 0x04 | 0x0a | scaled | rom+nvm_ro | - | T | - | 0xfffffffffffd | -
energy.ActivePowerLoadside           | 204 | 0x0b | 0x0f | scaled | rom+ram_ro | - | T | - | 0xfffffffd | -
diagnostics.ControlGearDiagnosticBankVersion          | 205 | 0x03 | 0x03 | u    | rom    | - | - | - | - | -
diagnostics.ControlGearOperatingTime                  | 205 | 0x04 | 0x07 | u    | nvm_ro | - | T | - | 0xfffffffd | -
diagnostics.ControlGearStartCounter                   | 205 | 0x08 | 0x0a | u    | nvm_ro | - | T | - | 0xfffffd | -
diagnostics.ControlGearExternalSupplyVoltage          | 205 | 0x0b | 0x0c | fs   | ram_ro | M | T | - | 0xfffd | 0.1
diagnostics.ControlGearExternalSupplyVoltageFrequency | 205 | 0x0d | 0x0d | u    | ram_ro | M | T | - | 0xfd | -
diagnostics.ControlGearPowerFactor                    | 205 | 0x0e | 0x0e | fs   | ram_ro | M | T | - | 100 | 0.01
diagnostics.ControlGearOverallFailureCondition        | 205 | 0x0f | 0x0f | bin  | ram_ro | - | T | - | - | -
diagnostics.ControlGearOverallFailureConditionCounter | 205 | 0x10 | 0x10 | u    | nvm_ro | - | T | - | 0xfd | -
diagnostics.ControlGearExternalSupplyUndervoltage        | 205 | 0x11 | 0x11 | bin | ram_ro | M | T | - | - | -
diagnostics.ControlGearExternalSupplyUndervoltageCounter | 205 | 0x12 | 0x12 | u   | nvm_ro | M | T | - | 0xfd | -
diagnostics.ControlGearExternalSupplyOvervoltage         | 205 | 0x13 | 0x13 | bin | ram_ro | M | T | - | - | -
diagnostics.ControlGearExternalSupplyOvervoltageCounter  | 205 | 0x14 | 0x14 | u   | nvm_ro | M | T | - | 0xfd | -
diagnostics.ControlGearOutputPowerLimitation             | 205 | 0x15 | 0x15 | bin | ram_ro | M | T | - | - | -
diagnostics.ControlGearOutputPowerLimitationCounter      | 205 | 0x16 | 0x16 | u   | nvm_ro | M | T | - | 0xfd | -
diagnostics.ControlGearThermalDerating                   | 205 | 0x17 | 0x17 | bin | ram_ro | M | T | - | - | -
diagnostics.ControlGearThermalDeratingCounter            | 205 | 0x18 | 0x18 | u   | nvm_ro | M | T | - | 0xfd | -
diagnostics.ControlGearThermalShutdown                   | 205 | 0x19 | 0x19 | bin | ram_ro | M | T | - | - | -
diagnostics.ControlGearThermalShutdownCounter            | 205 | 0x1a | 0x1a | u   | nvm_ro | M | T | - | 0xfd | -
diagnostics.ControlGearTemperature                       | 205 | 0x1b | 0x1b | temp | ram_ro | - | T | - | 0xfd | -
diagnostics.ControlGearOutputCurrentPercent              | 205 | 0x1c | 0x1c | u   | ram_ro | - | T | - | 100 | -
diagnostics.LightSourceDiagnosticBankVersion          | 206 | 0x03 | 0x03 | u    | rom      | - | - | - | - | -
diagnostics.LightSourceStartCounterResettable         | 206 | 0x04 | 0x06 | u    | nvm_rw   | - | T | - | 0xfffffd | -
diagnostics.LightSourceStartCounter                   | 206 | 0x07 | 0x09 | u    | nvm_ro   | - | T | - | 0xfffffd | -
diagnostics.LightSourceOnTimeResettable               | 206 | 0x0a | 0x0d | u    | nvm_rw   | - | T | - | 0xfffffffd | -
diagnostics.LightSourceOnTime                         | 206 | 0x0e | 0x11 | u    | nvm_ro   | - | T | - | 0xfffffffd | -
diagnostics.LightSourceVoltage                        | 206 | 0x12 | 0x13 | fs   | ram_ro   | - | T | - | 0xfffd | 0.1
diagnostics.LightSourceCurrent                        | 206 | 0x14 | 0x15 | fs   | ram_ro   | - | T | - | 0xfffd | 0.001
diagnostics.LightSourceOverallFailureCondition        | 206 | 0x16 | 0x16 | bin  | ram_ro   | - | T | - | - | -
diagnostics.LightSourceOverallFailureConditionCounter | 206 | 0x17 | 0x17 | u    | nvm_ro   | - | T | - | 0xfd | -
diagnostics.LightSourceShortCircuit                   | 206 | 0x18 | 0x18 | bin  | ram_ro   | M | T | - | - | -
diagnostics.LightSourceShortCircuitCounter            | 206 | 0x19 | 0x19 | u    | nvm_ro   | M | T | - | 0xfd | -
diagnostics.LightSourceOpenCircuit                    | 206 | 0x1a | 0x1a | bin  | ram_ro   | M | T | - | - | -
diagnostics.LightSourceOpenCircuitCounter             | 206 | 0x1b | 0x1b | u    | nvm_ro   | M | T | - | 0xfd | -
diagnostics.LightSourceThermalDerating                | 206 | 0x1c | 0x1c | bin  | ram_ro   | M | T | - | - | -
diagnostics.LightSourceThermalDeratingCounter         | 206 | 0x1d | 0x1d | u    | nvm_ro   | M | T | - | 0xfd | -
diagnostics.LightSourceThermalShutdown                | 206 | 0x1e | 0x1e | bin  | ram_ro   | M | T | - | - | -
diagnostics.LightSourceThermalShutdownCounter         | 206 | 0x1f | 0x1f | u    | nvm_ro   | M | T | - | 0xfd | -
diagnostics.LightSourceTemperature                    | 206 | 0x20 | 0x20 | temp | ram_ro   | M | T | - | 0xfd | -
maintenance.LuminaireMaintenanceBankVersion           | 207 | 0x03 | 0x03 | u    | rom      | - | - | - | - | -
maintenance.RatedMedianUsefulLifeOfLuminaire          | 207 | 0x04 | 0x04 | fs   | nvm_rw_l | M | T | - | 0xfd | 1000
maintenance.InternalControlGearReferenceTemperature   | 207 | 0x05 | 0x05 | temp | nvm_rw_l | M | T | - | 0xfd | -
maintenance.RatedMedianUsefulLightSourceStarts        | 207 | 0x06 | 0x07 | fs   | nvm_rw_l | M | T | - | 0xfffd | 100
"""

# bank -> (last accessible location, has lock byte, latchable); "0L" is the 2009 layout of bank 0
BANKS = {"0": (0x7f, False, False), "0L": (0x0e, False, False), "1": (0x77, True, False),
         "202": (0x0f, False, True), "203": (0x0f, False, True), "204": (0x0f, False, True),
         "205": (0x1c, True, True), "206": (0x20, True, True), "207": (0x07, True, False)}

BANK_OBJECTS = {"0": "info.BANK_0", "0L": "info.BANK_0_legacy", "1": "oem.BANK_1", "202": "energy.BANK_202",
                "203": "energy.BANK_203", "204": "energy.BANK_204", "205": "diagnostics.BANK_205",
                "206": "diagnostics.BANK_206", "207": "maintenance.BANK_207"}

# cells recalled with less certainty and pinned to the reviewed library value (see module docstring)
PINNED = {"access/mask/tmask columns of banks 205 and 206 (DiiA 253 Tables)", "tmask column of banks 202-204"}


class Row:
    def __init__(self, lib, bank, first, last, kind, access, mask, tmask, mn, mx, scale):
        self.lib, self.bank, self.first, self.last, self.kind = lib, bank, first, last, kind
        self.access, self.mask, self.tmask, self.min, self.max, self.scale = access, mask, tmask, mn, mx, scale

    @property
    def width(self):
        return self.last - self.first + 1

    @property
    def writable(self):
        return self.access in ("ram_rw", "nvm_rw", "nvm_rw_l")

    def access_at(self, k):
        """Access class of the k-th location (scaled values: scale byte is ROM)."""
        if "+" in self.access:
            a, b = self.access.split("+")
            return a if k == 0 else b
        return self.access


def rows():
    out = []
    for line in LAYOUT.strip().splitlines():
        c = [x.strip() for x in line.split("|")]
        num = lambda s: None if s == "-" else int(s, 0)
        scale = None if c[10] == "-" else Decimal(c[10])
        out.append(Row(c[0], c[1], int(c[2], 0), int(c[3], 0), c[4], c[5], c[6] == "M", c[7] == "T",
                       num(c[8]), num(c[9]), scale))
    return out


def resolve(path):
    import importlib
    mod, name = path.split(".")
    return getattr(importlib.import_module("dali.memory." + mod), name)


LDT = {0: "not specified", 1: "Type I", 2: "Type II", 3: "Type III", 4: "Type IV", 5: "Type V"}


def decode(row, raw):
    """Reference interpretation of raw bytes: a value, or one of 'MASK' / 'TMASK' / 'Invalid'."""
    raw = bytes(raw)
    assert len(raw) == row.width
    body = raw
    exp = None
    if row.kind == "scaled":
        s = raw[0]
        if 6 < s < 0xFA:
            return "Invalid"
        exp = s if s <= 6 else s - 256
        body = raw[1:]
    n = 0
    for b in body:
        n = n * 256 + b
    ones = 256 ** len(body) - 1
    if row.mask and n == ones:
        return "MASK"
    if row.tmask and n == ones - 1:
        return "TMASK"
    k = row.kind
    if k == "cct" and n == 0xFFFE:
        return "Part 209 implemented"
    if k == "bin":
        if n not in (0, 1):
            return "Invalid"
        return n == 1
    if k == "str":
        text = raw.split(b"\x00")[0]
        if any(ch > 0x7F for ch in text):
            return "Invalid"
        return text.decode("ascii")
    if k == "ldt":
        return LDT.get(n, "reserved")
    if k in ("u", "fs", "temp", "scaled", "cct"):
        if row.min is not None and n < row.min:
            return "Invalid"
        if row.max is not None and n > row.max:
            return "Invalid"
    if k in ("u", "cct"):
        return n
    if k == "fs":
        return row.scale * n
    if k == "temp":
        return n - 60
    if k == "scaled":
        return n * (Decimal(10) ** exp)
    if k == "ver":
        if len(raw) == 1:
            return "not implemented" if n == 0xFF else f"{n // 4}.{n % 4}"
        return f"{raw[0]}.{raw[1]}"
    raise KeyError(k)


def same(lib_value, ref_value):
    """Compare a library result (value or FlagValue) with the reference result."""
    name = getattr(lib_value, "name", None)
    if type(lib_value).__name__ == "FlagValue":
        return isinstance(ref_value, str) and name == ref_value
    if isinstance(ref_value, str) and ref_value in ("MASK", "TMASK", "Invalid"):
        return False
    if isinstance(ref_value, bool) or isinstance(lib_value, bool):
        return lib_value is ref_value
    return lib_value == ref_value and type(lib_value).__name__ in (type(ref_value).__name__, "int", "Decimal", "str")
