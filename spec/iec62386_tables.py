"""Command tables of IEC 62386 parts 102, 103, 202, 205, 206, 207, 209, 301, 303, 304.

Hand-transcribed (the sandbox holds no copy of the standard): opcode numbers, the send-twice column,
the answer column and the device type come from the standard's command tables as the author knows
them; the last column is only the *name* of the library class that claims to implement the row.
Nothing here is read from the library's _cmdval/_opcode/_addr/_instance attributes.

Row format:  NAME | kind | opcode | twice | answer | library class
  kind   std    16-bit  YAAAAAA1 oooooooo            (102 Table 15 / 2xx application extended)
         stdn   16-bit  YAAAAAA1 oooonnnn            (opcode = first of 16, nibble = scene/group)
         dapc   16-bit  YAAAAAA0 llllllll
         spc0   16-bit  oooooooo 00000000            (102 Table 16, no data)
         spc1   16-bit  oooooooo dddddddd
         spca   16-bit  oooooooo 0AAAAAA1 | 11111111 (short address or MASK)
         init   16-bit  10100101 00000000 | 0AAAAAA1 | 11111111
         dev    24-bit  AAAAAAA1 11111110 oooooooo   (103 Table 21, device commands)
         inst   24-bit  AAAAAAA1 iiiiiiii oooooooo   (103 Table 21 instance commands, 301/303/304)
         dsp0   24-bit  11000001 oooooooo 00000000   (103 Table 22)
         dsp1   24-bit  11000001 oooooooo dddddddd
         dsp2   24-bit  oooooooo dddddddd dddddddd   (0xC5 / 0xC7 / 0xC9)
  twice  T / -          answer  none / yn / 8
"""

PART102 = """
DAPC                              | dapc | 0    | - | none | gear.general.DAPC
OFF                               | std  | 0    | - | none | gear.general.Off
UP                                | std  | 1    | - | none | gear.general.Up
DOWN                              | std  | 2    | - | none | gear.general.Down
STEP UP                           | std  | 3    | - | none | gear.general.StepUp
STEP DOWN                         | std  | 4    | - | none | gear.general.StepDown
RECALL MAX LEVEL                  | std  | 5    | - | none | gear.general.RecallMaxLevel
RECALL MIN LEVEL                  | std  | 6    | - | none | gear.general.RecallMinLevel
STEP DOWN AND OFF                 | std  | 7    | - | none | gear.general.StepDownAndOff
ON AND STEP UP                    | std  | 8    | - | none | gear.general.OnAndStepUp
ENABLE DAPC SEQUENCE              | std  | 9    | - | none | gear.general.EnableDAPCSequence
GO TO LAST ACTIVE LEVEL           | std  | 10   | - | none | gear.general.GoToLastActiveLevel
CONTINUOUS UP                     | std  | 11   | - | none | gear.general.ContinuousUp
CONTINUOUS DOWN                   | std  | 12   | - | none | gear.general.ContinuousDown
GO TO SCENE                       | stdn | 16   | - | none | gear.general.GoToScene
RESET                             | std  | 32   | T | none | gear.general.Reset
STORE ACTUAL LEVEL IN DTR0        | std  | 33   | T | none | gear.general.StoreActualLevelInDTR0
SAVE PERSISTENT VARIABLES         | std  | 34   | T | none | gear.general.SavePersistentVariables
SET OPERATING MODE                | std  | 35   | T | none | gear.general.SetOperatingMode
RESET MEMORY BANK                 | std  | 36   | T | none | gear.general.ResetMemoryBank
IDENTIFY DEVICE                   | std  | 37   | T | none | gear.general.IdentifyDevice
SET MAX LEVEL                     | std  | 42   | T | none | gear.general.SetMaxLevel
SET MIN LEVEL                     | std  | 43   | T | none | gear.general.SetMinLevel
SET SYSTEM FAILURE LEVEL          | std  | 44   | T | none | gear.general.SetSystemFailureLevel
SET POWER ON LEVEL                | std  | 45   | T | none | gear.general.SetPowerOnLevel
SET FADE TIME                     | std  | 46   | T | none | gear.general.SetFadeTime
SET FADE RATE                     | std  | 47   | T | none | gear.general.SetFadeRate
SET EXTENDED FADE TIME            | std  | 48   | T | none | gear.general.SetExtendedFadeTime
SET SCENE                         | stdn | 64   | T | none | gear.general.SetScene
REMOVE FROM SCENE                 | stdn | 80   | T | none | gear.general.RemoveFromScene
ADD TO GROUP                      | stdn | 96   | T | none | gear.general.AddToGroup
REMOVE FROM GROUP                 | stdn | 112  | T | none | gear.general.RemoveFromGroup
SET SHORT ADDRESS                 | std  | 128  | T | none | gear.general.SetShortAddress
ENABLE WRITE MEMORY               | std  | 129  | T | none | gear.general.EnableWriteMemory
QUERY STATUS                      | std  | 144  | - | 8    | gear.general.QueryStatus
QUERY CONTROL GEAR PRESENT        | std  | 145  | - | yn   | gear.general.QueryControlGearPresent
QUERY LAMP FAILURE                | std  | 146  | - | yn   | gear.general.QueryLampFailure
QUERY LAMP POWER ON               | std  | 147  | - | yn   | gear.general.QueryLampPowerOn
QUERY LIMIT ERROR                 | std  | 148  | - | yn   | gear.general.QueryLimitError
QUERY RESET STATE                 | std  | 149  | - | yn   | gear.general.QueryResetState
QUERY MISSING SHORT ADDRESS       | std  | 150  | - | yn   | gear.general.QueryMissingShortAddress
QUERY VERSION NUMBER              | std  | 151  | - | 8    | gear.general.QueryVersionNumber
QUERY CONTENT DTR0                | std  | 152  | - | 8    | gear.general.QueryContentDTR0
QUERY DEVICE TYPE                 | std  | 153  | - | 8    | gear.general.QueryDeviceType
QUERY PHYSICAL MINIMUM            | std  | 154  | - | 8    | gear.general.QueryPhysicalMinimum
QUERY POWER FAILURE               | std  | 155  | - | yn   | gear.general.QueryPowerFailure
QUERY CONTENT DTR1                | std  | 156  | - | 8    | gear.general.QueryContentDTR1
QUERY CONTENT DTR2                | std  | 157  | - | 8    | gear.general.QueryContentDTR2
QUERY OPERATING MODE              | std  | 158  | - | 8    | gear.general.QueryOperatingMode
QUERY LIGHT SOURCE TYPE           | std  | 159  | - | 8    | gear.general.QueryLightSourceType
QUERY ACTUAL LEVEL                | std  | 160  | - | 8    | gear.general.QueryActualLevel
QUERY MAX LEVEL                   | std  | 161  | - | 8    | gear.general.QueryMaxLevel
QUERY MIN LEVEL                   | std  | 162  | - | 8    | gear.general.QueryMinLevel
QUERY POWER ON LEVEL              | std  | 163  | - | 8    | gear.general.QueryPowerOnLevel
QUERY SYSTEM FAILURE LEVEL        | std  | 164  | - | 8    | gear.general.QuerySystemFailureLevel
QUERY FADE TIME/FADE RATE         | std  | 165  | - | 8    | gear.general.QueryFadeTimeFadeRate
QUERY MANUFACTURER SPECIFIC MODE  | std  | 166  | - | yn   | gear.general.QueryManufacturerSpecificMode
QUERY NEXT DEVICE TYPE            | std  | 167  | - | 8    | gear.general.QueryNextDeviceType
QUERY EXTENDED FADE TIME          | std  | 168  | - | 8    | gear.general.QueryExtendedFadeTime
QUERY CONTROL GEAR FAILURE        | std  | 170  | - | yn   | gear.general.QueryControlGearFailure
QUERY SCENE LEVEL                 | stdn | 176  | - | 8    | gear.general.QuerySceneLevel
QUERY GROUPS 0-7                  | std  | 192  | - | 8    | gear.general.QueryGroupsZeroToSeven
QUERY GROUPS 8-15                 | std  | 193  | - | 8    | gear.general.QueryGroupsEightToFifteen
QUERY RANDOM ADDRESS (H)          | std  | 194  | - | 8    | gear.general.QueryRandomAddressH
QUERY RANDOM ADDRESS (M)          | std  | 195  | - | 8    | gear.general.QueryRandomAddressM
QUERY RANDOM ADDRESS (L)          | std  | 196  | - | 8    | gear.general.QueryRandomAddressL
READ MEMORY LOCATION              | std  | 197  | - | 8    | gear.general.ReadMemoryLocation
QUERY EXTENDED VERSION NUMBER     | std  | 255  | - | 8    | gear.general.QueryExtendedVersionNumber
TERMINATE                         | spc0 | 0xA1 | - | none | gear.general.Terminate
DTR0                              | spc1 | 0xA3 | - | none | gear.general.DTR0
INITIALISE                        | init | 0xA5 | T | none | gear.general.Initialise
RANDOMISE                         | spc0 | 0xA7 | T | none | gear.general.Randomise
COMPARE                           | spc0 | 0xA9 | - | yn   | gear.general.Compare
WITHDRAW                          | spc0 | 0xAB | - | none | gear.general.Withdraw
PING                              | spc0 | 0xAD | - | none | gear.general.Ping
SEARCHADDRH                       | spc1 | 0xB1 | - | none | gear.general.SearchaddrH
SEARCHADDRM                       | spc1 | 0xB3 | - | none | gear.general.SearchaddrM
SEARCHADDRL                       | spc1 | 0xB5 | - | none | gear.general.SearchaddrL
PROGRAM SHORT ADDRESS             | spca | 0xB7 | - | none | gear.general.ProgramShortAddress
VERIFY SHORT ADDRESS              | spca | 0xB9 | - | yn   | gear.general.VerifyShortAddress
QUERY SHORT ADDRESS               | spc0 | 0xBB | - | 8    | gear.general.QueryShortAddress
ENABLE DEVICE TYPE                | spc1 | 0xC1 | - | none | gear.general.EnableDeviceType
DTR1                              | spc1 | 0xC3 | - | none | gear.general.DTR1
DTR2                              | spc1 | 0xC5 | - | none | gear.general.DTR2
WRITE MEMORY LOCATION             | spc1 | 0xC7 | - | 8    | gear.general.WriteMemoryLocation
WRITE MEMORY LOCATION - NO REPLY  | spc1 | 0xC9 | - | none | gear.general.WriteMemoryLocationNoReply
"""

# application extended commands: device type -> rows (kind std unless stated)
PART2XX = {
    1: """
REST                              | std | 224 | T | none | gear.emergency.Rest
INHIBIT                           | std | 225 | T | none | gear.emergency.Inhibit
RE-LIGHT/RESET INHIBIT            | std | 226 | T | none | gear.emergency.ReLightResetInhibit
START FUNCTION TEST               | std | 227 | T | none | gear.emergency.StartFunctionTest
START DURATION TEST               | std | 228 | T | none | gear.emergency.StartDurationTest
STOP TEST                         | std | 229 | T | none | gear.emergency.StopTest
RESET FUNCTION TEST DONE FLAG     | std | 230 | T | none | gear.emergency.ResetFunctionTestDoneFlag
RESET DURATION TEST DONE FLAG     | std | 231 | T | none | gear.emergency.ResetDurationTestDoneFlag
RESET LAMP TIME                   | std | 232 | T | none | gear.emergency.ResetLampTime
STORE DTR AS EMERGENCY LEVEL      | std | 233 | T | none | gear.emergency.StoreDTRAsEmergencyLevel
STORE TEST DELAY TIME HIGH BYTE   | std | 234 | T | none | gear.emergency.StoreTestDelayTimeHighByte
STORE TEST DELAY TIME LOW BYTE    | std | 235 | T | none | gear.emergency.StoreTestDelayTimeLowByte
STORE FUNCTION TEST INTERVAL      | std | 236 | T | none | gear.emergency.StoreFunctionTestInterval
STORE DURATION TEST INTERVAL      | std | 237 | T | none | gear.emergency.StoreDurationTestInterval
STORE TEST EXECUTION TIMEOUT      | std | 238 | T | none | gear.emergency.StoreTestExecutionTimeout
STORE PROLONG TIME                | std | 239 | T | none | gear.emergency.StoreProlongTime
START IDENTIFICATION              | std | 240 | T | none | gear.emergency.StartIdentification
QUERY BATTERY CHARGE              | std | 241 | - | 8    | gear.emergency.QueryBatteryCharge
QUERY TEST TIMING                 | std | 242 | - | 8    | gear.emergency.QueryTestTiming
QUERY DURATION TEST RESULT        | std | 243 | - | 8    | gear.emergency.QueryDurationTestResult
QUERY LAMP EMERGENCY TIME         | std | 244 | - | 8    | gear.emergency.QueryLampEmergencyTime
QUERY LAMP TOTAL OPERATION TIME   | std | 245 | - | 8    | gear.emergency.QueryLampTotalOperationTime
QUERY EMERGENCY LEVEL             | std | 246 | - | 8    | gear.emergency.QueryEmergencyLevel
QUERY EMERGENCY MIN LEVEL         | std | 247 | - | 8    | gear.emergency.QueryEmergencyMinLevel
QUERY EMERGENCY MAX LEVEL         | std | 248 | - | 8    | gear.emergency.QueryEmergencyMaxLevel
QUERY RATED DURATION              | std | 249 | - | 8    | gear.emergency.QueryRatedDuration
QUERY EMERGENCY MODE              | std | 250 | - | 8    | gear.emergency.QueryEmergencyMode
QUERY FEATURES                    | std | 251 | - | 8    | gear.emergency.QueryEmergencyFeatures
QUERY FAILURE STATUS              | std | 252 | - | 8    | gear.emergency.QueryEmergencyFailureStatus
QUERY EMERGENCY STATUS            | std | 253 | - | 8    | gear.emergency.QueryEmergencyStatus
PERFORM DTR SELECTED FUNCTION     | std | 254 | T | none | gear.emergency.PerformDTRSelectedFunction
QUERY EXTENDED VERSION NUMBER     | std | 255 | - | 8    | gear.emergency.QueryExtendedVersionNumber
""",
    4: """
REFERENCE SYSTEM POWER            | std | 224 | T | none | gear.incandescent.ReferenceSystemPower
SELECT DIMMING CURVE              | std | 225 | T | none | gear.incandescent.SelectDimmingCurve
QUERY DIMMING CURVE               | std | 238 | - | 8    | gear.incandescent.QueryDimmingCurve
QUERY DIMMER STATUS               | std | 239 | - | 8    | gear.incandescent.QueryDimmerStatus
QUERY FEATURES                    | std | 240 | - | 8    | gear.incandescent.QueryFeatures
QUERY FAILURE STATUS              | std | 241 | - | 8    | gear.incandescent.QueryFailureStatus
QUERY DIMMER TEMPERATURE          | std | 242 | - | 8    | gear.incandescent.QueryDimmerTemperature
QUERY RMS SUPPLY VOLTAGE          | std | 243 | - | 8    | gear.incandescent.QueryRMSSupplyVoltage
QUERY SUPPLY FREQUENCY            | std | 244 | - | 8    | gear.incandescent.QuerySupplyFrequency
QUERY RMS LOAD VOLTAGE            | std | 245 | - | 8    | gear.incandescent.QueryRMSLoadVoltage
QUERY RMS LOAD CURRENT            | std | 246 | - | 8    | gear.incandescent.QueryRMSLoadCurrent
QUERY REAL LOAD POWER             | std | 247 | - | 8    | gear.incandescent.QueryRealLoadPower
QUERY LOAD RATING                 | std | 248 | - | 8    | gear.incandescent.QueryLoadRating
QUERY REFERENCE RUNNING           | std | 249 | - | yn   | gear.incandescent.QueryReferenceRunning
QUERY REFERENCE MEASUREMENT FAILED| std | 250 | - | yn   | gear.incandescent.QueryReferenceMeasurementFailed
QUERY EXTENDED VERSION NUMBER     | std | 255 | - | 8    | gear.incandescent.QueryExtendedVersionNumber
""",
    5: """
SET OUTPUT RANGE TO 1-10V         | std | 224 | T | none | gear.converter.SetOutputRange1To10V
SET OUTPUT RANGE TO 0-10V         | std | 225 | T | none | gear.converter.SetOutputRange0To10V
SWITCH ON INTERNAL PULL-UP        | std | 226 | T | none | gear.converter.SwitchOnInternalPullUp
SWITCH OFF INTERNAL PULL-UP       | std | 227 | T | none | gear.converter.SwitchOffInternalPullUp
STORE DTR AS PHYSICAL MINIMUM     | std | 228 | T | none | gear.converter.StoreDtrAsPhysicalMinimum
SELECT DIMMING CURVE              | std | 229 | T | none | gear.converter.SelectDimmingCurve
RESET CONVERTER SETTINGS          | std | 230 | T | none | gear.converter.ResetConverterSettings
QUERY DIMMING CURVE               | std | 238 | - | 8    | gear.converter.QueryDimmingCurve
QUERY OUTPUT LEVEL                | std | 239 | - | 8    | gear.converter.QueryOutputLevel
QUERY CONVERTER FEATURES          | std | 240 | - | 8    | gear.converter.QueryConverterFeatures
QUERY FAILURE STATUS              | std | 241 | - | 8    | gear.converter.QueryFailureStatus
QUERY CONVERTER STATUS            | std | 242 | - | 8    | gear.converter.QueryConverterStatus
QUERY EXTENDED VERSION NUMBER     | std | 255 | - | 8    | gear.converter.QueryExtendedVersionNumber
""",
    6: """
REFERENCE SYSTEM POWER            | std | 224 | T | none | gear.led.ReferenceSystemPower
ENABLE CURRENT PROTECTOR          | std | 225 | T | none | gear.led.EnableCurrentProtector
DISABLE CURRENT PROTECTOR         | std | 226 | T | none | gear.led.DisableCurrentProtector
SELECT DIMMING CURVE              | std | 227 | T | none | gear.led.SelectDimmingCurve
STORE DTR AS FAST FADE TIME       | std | 228 | T | none | gear.led.StoreDTRAsFastFadeTime
QUERY GEAR TYPE                   | std | 237 | - | 8    | gear.led.QueryGearType
QUERY DIMMING CURVE               | std | 238 | - | 8    | gear.led.QueryDimmingCurve
QUERY POSSIBLE OPERATING MODES    | std | 239 | - | 8    | gear.led.QueryPossibleOperatingModes
QUERY FEATURES                    | std | 240 | - | 8    | gear.led.QueryFeatures
QUERY FAILURE STATUS              | std | 241 | - | 8    | gear.led.QueryFailureStatus
QUERY SHORT CIRCUIT               | std | 242 | - | yn   | gear.led.QueryShortCircuit
QUERY OPEN CIRCUIT                | std | 243 | - | yn   | gear.led.QueryOpenCircuit
QUERY LOAD DECREASE               | std | 244 | - | yn   | gear.led.QueryLoadDecrease
QUERY LOAD INCREASE               | std | 245 | - | yn   | gear.led.QueryLoadIncrease
QUERY CURRENT PROTECTOR ACTIVE    | std | 246 | - | yn   | gear.led.QueryCurrentProtectorActive
QUERY THERMAL SHUT DOWN           | std | 247 | - | yn   | gear.led.QueryThermalShutDown
QUERY THERMAL OVERLOAD            | std | 248 | - | yn   | gear.led.QueryThermalOverload
QUERY REFERENCE RUNNING           | std | 249 | - | yn   | gear.led.QueryReferenceRunning
QUERY REFERENCE MEASUREMENT FAILED| std | 250 | - | yn   | gear.led.QueryReferenceMeasurementFailed
QUERY CURRENT PROTECTOR ENABLED   | std | 251 | - | yn   | gear.led.QueryCurrentProtectorEnabled
QUERY OPERATING MODE              | std | 252 | - | 8    | gear.led.QueryOperatingMode
QUERY FAST FADE TIME              | std | 253 | - | 8    | gear.led.QueryFastFadeTime
QUERY MIN FAST FADE TIME          | std | 254 | - | 8    | gear.led.QueryMinFastFadeTime
QUERY EXTENDED VERSION NUMBER     | std | 255 | - | 8    | gear.led.QueryExtendedVersionNumber
""",
    8: """
SET TEMPORARY X-COORDINATE        | std | 224 | - | none | gear.colour.SetTemporaryXCoordinate
SET TEMPORARY Y-COORDINATE        | std | 225 | - | none | gear.colour.SetTemporaryYCoordinate
ACTIVATE                          | std | 226 | - | none | gear.colour.Activate
X-COORDINATE STEP UP              | std | 227 | - | none | gear.colour.XCoordinateStepUp
X-COORDINATE STEP DOWN            | std | 228 | - | none | gear.colour.XCoordinateStepDown
Y-COORDINATE STEP UP              | std | 229 | - | none | gear.colour.YCoordinateStepUp
Y-COORDINATE STEP DOWN            | std | 230 | - | none | gear.colour.YCoordinateStepDown
SET TEMPORARY COLOUR TEMPERATURE Tc | std | 231 | - | none | gear.colour.SetTemporaryColourTemperature
COLOUR TEMPERATURE Tc STEP COOLER | std | 232 | - | none | gear.colour.ColourTemperatureTcStepCooler
COLOUR TEMPERATURE Tc STEP WARMER | std | 233 | - | none | gear.colour.ColourTemperatureTcStepWarmer
SET TEMPORARY PRIMARY N DIMLEVEL  | std | 234 | - | none | gear.colour.SetTemporaryPrimaryNDimLevel
SET TEMPORARY RGB DIMLEVEL        | std | 235 | - | none | gear.colour.SetTemporaryRGBDimLevel
SET TEMPORARY WAF DIMLEVEL        | std | 236 | - | none | gear.colour.SetTemporaryWAFDimLevel
SET TEMPORARY RGBWAF CONTROL      | std | 237 | - | none | gear.colour.SetTemporaryRGBWAFControl
COPY REPORT TO TEMPORARY          | std | 238 | - | none | gear.colour.CopyReportToTemporary
STORE TY PRIMARY N                | std | 240 | T | none | gear.colour.StoreTYPrimaryN
STORE XY-COORDINATE PRIMARY N     | std | 241 | T | none | gear.colour.StoreXYCoordinatePrimaryN
STORE COLOUR TEMPERATURE Tc LIMIT | std | 242 | T | none | gear.colour.StoreColourTemperatureTcLimit
STORE GEAR FEATURES/STATUS        | std | 243 | T | none | gear.colour.StoreGearFeaturesStatus
ASSIGN COLOUR TO LINKED CHANNEL   | std | 245 | T | none | gear.colour.AssignColourToLinkedChannel
START AUTO CALIBRATION            | std | 246 | - | none | gear.colour.StartAutoCalibration
QUERY GEAR FEATURES/STATUS        | std | 247 | - | 8    | gear.colour.QueryGearFeaturesStatus
QUERY COLOUR STATUS               | std | 248 | - | 8    | gear.colour.QueryColourStatus
QUERY COLOUR TYPE FEATURES        | std | 249 | - | 8    | gear.colour.QueryColourTypeFeatures
QUERY COLOUR VALUE                | std | 250 | - | 8    | gear.colour.QueryColourValue
QUERY RGBWAF CONTROL              | std | 251 | - | 8    | gear.colour.QueryRBGWAFControl
QUERY ASSIGNED COLOUR             | std | 252 | - | 8    | gear.colour.QueryAssignedColour
QUERY EXTENDED VERSION NUMBER     | std | 255 | - | 8    | gear.colour.QueryExtendedVersionNumber
""",
}

PART103 = """
IDENTIFY DEVICE                   | dev  | 0x00 | T | none | device.general.IdentifyDevice
RESET POWER CYCLE SEEN            | dev  | 0x01 | T | none | device.general.ResetPowerCycleSeen
RESET                             | dev  | 0x10 | T | none | device.general.Reset
RESET MEMORY BANK                 | dev  | 0x11 | T | none | device.general.ResetMemoryBank
SET SHORT ADDRESS                 | dev  | 0x14 | T | none | device.general.SetShortAddress
ENABLE WRITE MEMORY               | dev  | 0x15 | T | none | device.general.EnableWriteMemory
ENABLE APPLICATION CONTROLLER     | dev  | 0x16 | T | none | device.general.EnableApplicationController
DISABLE APPLICATION CONTROLLER    | dev  | 0x17 | T | none | device.general.DisableApplicationController
SET OPERATING MODE                | dev  | 0x18 | T | none | device.general.SetOperatingMode
ADD TO DEVICE GROUPS 0-15         | dev  | 0x19 | T | none | device.general.AddToDeviceGroupsZeroToFifteen
ADD TO DEVICE GROUPS 16-31        | dev  | 0x1A | T | none | device.general.AddToDeviceGroupsSixteenToThirtyOne
REMOVE FROM DEVICE GROUPS 0-15    | dev  | 0x1B | T | none | device.general.RemoveFromDeviceGroupsZeroToFifteen
REMOVE FROM DEVICE GROUPS 16-31   | dev  | 0x1C | T | none | device.general.RemoveFromDeviceGroupsSixteenToThirtyOne
START QUIESCENT MODE              | dev  | 0x1D | T | none | device.general.StartQuiescentMode
STOP QUIESCENT MODE               | dev  | 0x1E | T | none | device.general.StopQuiescentMode
ENABLE POWER CYCLE NOTIFICATION   | dev  | 0x1F | T | none | device.general.EnablePowerCycleNotification
DISABLE POWER CYCLE NOTIFICATION  | dev  | 0x20 | T | none | device.general.DisablePowerCycleNotification
SAVE PERSISTENT VARIABLES         | dev  | 0x21 | T | none | device.general.SavePersistentVariables
QUERY DEVICE STATUS               | dev  | 0x30 | - | 8    | device.general.QueryDeviceStatus
QUERY APPLICATION CONTROLLER ERROR| dev  | 0x31 | - | 8    | device.general.QueryApplicationControllerError
QUERY INPUT DEVICE ERROR          | dev  | 0x32 | - | 8    | device.general.QueryInputDeviceError
QUERY MISSING SHORT ADDRESS       | dev  | 0x33 | - | yn   | device.general.QueryMissingShortAddress
QUERY VERSION NUMBER              | dev  | 0x34 | - | 8    | device.general.QueryVersionNumber
QUERY NUMBER OF INSTANCES         | dev  | 0x35 | - | 8    | device.general.QueryNumberOfInstances
QUERY CONTENT DTR0                | dev  | 0x36 | - | 8    | device.general.QueryContentDTR0
QUERY CONTENT DTR1                | dev  | 0x37 | - | 8    | device.general.QueryContentDTR1
QUERY CONTENT DTR2                | dev  | 0x38 | - | 8    | device.general.QueryContentDTR2
QUERY RANDOM ADDRESS (H)          | dev  | 0x39 | - | 8    | device.general.QueryRandomAddressH
QUERY RANDOM ADDRESS (M)          | dev  | 0x3A | - | 8    | device.general.QueryRandomAddressM
QUERY RANDOM ADDRESS (L)          | dev  | 0x3B | - | 8    | device.general.QueryRandomAddressL
READ MEMORY LOCATION              | dev  | 0x3C | - | 8    | device.general.ReadMemoryLocation
QUERY APPLICATION CONTROL ENABLED | dev  | 0x3D | - | yn   | device.general.QueryApplicationControlEnabled
QUERY OPERATING MODE              | dev  | 0x3E | - | 8    | device.general.QueryOperatingMode
QUERY MANUFACTURER SPECIFIC MODE  | dev  | 0x3F | - | yn   | device.general.QueryManufacturerSpecificMode
QUERY QUIESCENT MODE              | dev  | 0x40 | - | yn   | device.general.QueryQuiescentMode
QUERY DEVICE GROUPS 0-7           | dev  | 0x41 | - | 8    | device.general.QueryDeviceGroupsZeroToSeven
QUERY DEVICE GROUPS 8-15          | dev  | 0x42 | - | 8    | device.general.QueryDeviceGroupsEightToFifteen
QUERY DEVICE GROUPS 16-23         | dev  | 0x43 | - | 8    | device.general.QueryDeviceGroupsSixteenToTwentyThree
QUERY DEVICE GROUPS 24-31         | dev  | 0x44 | - | 8    | device.general.QueryDeviceGroupsTwentyFourToThirtyOne
QUERY POWER CYCLE NOTIFICATION    | dev  | 0x45 | - | yn   | device.general.QueryPowerCycleNotification
QUERY DEVICE CAPABILITIES         | dev  | 0x46 | - | 8    | device.general.QueryDeviceCapabilities
QUERY EXTENDED VERSION NUMBER     | dev  | 0x47 | - | 8    | device.general.QueryExtendedVersionNumber
QUERY RESET STATE                 | dev  | 0x48 | - | yn   | device.general.QueryResetState
SET EVENT PRIORITY                | inst | 0x61 | T | none | device.general.SetEventPriority
ENABLE INSTANCE                   | inst | 0x62 | T | none | device.general.EnableInstance
DISABLE INSTANCE                  | inst | 0x63 | T | none | device.general.DisableInstance
SET PRIMARY INSTANCE GROUP        | inst | 0x64 | T | none | device.general.SetPrimaryInstanceGroup
SET INSTANCE GROUP 1              | inst | 0x65 | T | none | device.general.SetInstanceGroup1
SET INSTANCE GROUP 2              | inst | 0x66 | T | none | device.general.SetInstanceGroup2
SET EVENT SCHEME                  | inst | 0x67 | T | none | device.general.SetEventScheme
SET EVENT FILTER                  | inst | 0x68 | T | none | device.general.SetEventFilter
QUERY INSTANCE TYPE               | inst | 0x80 | - | 8    | device.general.QueryInstanceType
QUERY RESOLUTION                  | inst | 0x81 | - | 8    | device.general.QueryResolution
QUERY INSTANCE ERROR              | inst | 0x82 | - | 8    | device.general.QueryInstanceError
QUERY INSTANCE STATUS             | inst | 0x83 | - | 8    | device.general.QueryInstanceStatus
QUERY EVENT PRIORITY              | inst | 0x84 | - | 8    | device.general.QueryEventPriority
QUERY INSTANCE ENABLED            | inst | 0x86 | - | yn   | device.general.QueryInstanceEnabled
QUERY PRIMARY INSTANCE GROUP      | inst | 0x88 | - | 8    | device.general.QueryPrimaryInstanceGroup
QUERY INSTANCE GROUP 1            | inst | 0x89 | - | 8    | device.general.QueryInstanceGroup1
QUERY INSTANCE GROUP 2            | inst | 0x8A | - | 8    | device.general.QueryInstanceGroup2
QUERY EVENT SCHEME                | inst | 0x8B | - | 8    | device.general.QueryEventScheme
QUERY INPUT VALUE                 | inst | 0x8C | - | 8    | device.general.QueryInputValue
QUERY INPUT VALUE LATCH           | inst | 0x8D | - | 8    | device.general.QueryInputValueLatch
QUERY FEATURE TYPE                | inst | 0x8E | - | 8    | device.general.QueryFeatureType
QUERY NEXT FEATURE TYPE           | inst | 0x8F | - | 8    | device.general.QueryNextFeatureType
QUERY EVENT FILTER 0-7            | inst | 0x90 | - | 8    | device.general.QueryEventFilterZeroToSeven
QUERY EVENT FILTER 8-15           | inst | 0x91 | - | 8    | device.general.QueryEventFilterEightToFifteen
QUERY EVENT FILTER 16-23          | inst | 0x92 | - | 8    | device.general.QueryEventFilterSixteenToTwentyThree
TERMINATE                         | dsp0 | 0x00 | - | none | device.general.Terminate
INITIALISE                        | dsp1 | 0x01 | T | none | device.general.Initialise
RANDOMISE                         | dsp0 | 0x02 | T | none | device.general.Randomise
COMPARE                           | dsp0 | 0x03 | - | yn   | device.general.Compare
WITHDRAW                          | dsp0 | 0x04 | - | none | device.general.Withdraw
SEARCHADDRH                       | dsp1 | 0x05 | - | none | device.general.SearchAddrH
SEARCHADDRM                       | dsp1 | 0x06 | - | none | device.general.SearchAddrM
SEARCHADDRL                       | dsp1 | 0x07 | - | none | device.general.SearchAddrL
PROGRAM SHORT ADDRESS             | dsp1 | 0x08 | - | none | device.general.ProgramShortAddress
VERIFY SHORT ADDRESS              | dsp1 | 0x09 | - | yn   | device.general.VerifyShortAddress
QUERY SHORT ADDRESS               | dsp0 | 0x0A | - | 8    | device.general.QueryShortAddress
WRITE MEMORY LOCATION             | dsp1 | 0x20 | - | 8    | device.general.WriteMemoryLocation
WRITE MEMORY LOCATION - NO REPLY  | dsp1 | 0x21 | - | none | device.general.WriteMemoryLocationNoReply
DTR0                              | dsp1 | 0x30 | - | none | device.general.DTR0
DTR1                              | dsp1 | 0x31 | - | none | device.general.DTR1
DTR2                              | dsp1 | 0x32 | - | none | device.general.DTR2
SEND TESTFRAME                    | dsp1 | 0x33 | - | none | device.general.SendTestframe
DIRECT WRITE MEMORY               | dsp2 | 0xC5 | - | 8    | device.general.DirectWriteMemory
DTR1:DTR0                         | dsp2 | 0xC7 | - | none | device.general.DTR1DTR0
DTR2:DTR1                         | dsp2 | 0xC9 | - | none | device.general.DTR2DTR1
"""

PART30X = """
SET SHORT TIMER                   | inst | 0x00 | T | none | device.pushbutton.SetShortTimer
SET DOUBLE TIMER                  | inst | 0x01 | T | none | device.pushbutton.SetDoubleTimer
SET REPEAT TIMER                  | inst | 0x02 | T | none | device.pushbutton.SetRepeatTimer
SET STUCK TIMER                   | inst | 0x03 | T | none | device.pushbutton.SetStuckTimer
QUERY SHORT TIMER                 | inst | 0x0A | - | 8    | device.pushbutton.QueryShortTimer
QUERY SHORT TIMER MIN             | inst | 0x0B | - | 8    | device.pushbutton.QueryShortTimerMin
QUERY DOUBLE TIMER                | inst | 0x0C | - | 8    | device.pushbutton.QueryDoubleTimer
QUERY DOUBLE TIMER MIN            | inst | 0x0D | - | 8    | device.pushbutton.QueryDoubleTimerMin
QUERY REPEAT TIMER                | inst | 0x0E | - | 8    | device.pushbutton.QueryRepeatTimer
QUERY STUCK TIMER                 | inst | 0x0F | - | 8    | device.pushbutton.QueryStuckTimer
CATCH MOVEMENT                    | inst | 0x20 | - | none | device.occupancy.CatchMovement
SET HOLD TIMER                    | inst | 0x21 | T | none | device.occupancy.SetHoldTimer
SET REPORT TIMER                  | inst | 0x22 | T | none | device.occupancy.SetReportTimer
SET DEADTIME TIMER                | inst | 0x23 | T | none | device.occupancy.SetDeadtimeTimer
CANCEL HOLD TIMER                 | inst | 0x24 | - | none | device.occupancy.CancelHoldTimer
QUERY DEADTIME TIMER              | inst | 0x2C | - | 8    | device.occupancy.QueryDeadtimeTimer
QUERY HOLD TIMER                  | inst | 0x2D | - | 8    | device.occupancy.QueryHoldTimer
QUERY REPORT TIMER                | inst | 0x2E | - | 8    | device.occupancy.QueryReportTimer
QUERY CATCHING                    | inst | 0x2F | - | yn   | device.occupancy.QueryCatching
SET REPORT TIMER                  | inst | 0x30 | T | none | device.light.SetReportTimer
SET HYSTERESIS                    | inst | 0x31 | T | none | device.light.SetHysteresis
SET DEADTIME TIMER                | inst | 0x32 | T | none | device.light.SetDeadtimeTimer
SET HYSTERESIS MIN                | inst | 0x33 | T | none | device.light.SetHysteresisMin
QUERY HYSTERESIS MIN              | inst | 0x3C | - | 8    | device.light.QueryHysteresisMin
QUERY DEADTIME TIMER              | inst | 0x3D | - | 8    | device.light.QueryDeadtimeTimer
QUERY REPORT TIMER                | inst | 0x3E | - | 8    | device.light.QueryReportTimer
QUERY HYSTERESIS                  | inst | 0x3F | - | 8    | device.light.QueryHysteresis
"""

# IEC 62386-301 Table 2: push-button event information (10 bits)
PUSHBUTTON_EVENTS = {
    0b0000000000: "ButtonReleased",
    0b0000000001: "ButtonPressed",
    0b0000000010: "ShortPress",
    0b0000000101: "DoublePress",
    0b0000001001: "LongPressStart",
    0b0000001011: "LongPressRepeat",
    0b0000001100: "LongPressStop",
    0b0000001110: "ButtonFree",
    0b0000001111: "ButtonStuck",
}

# rows whose send-twice / answer column the author could not recall with certainty and which were
# therefore *pinned* to the reviewed value of the library at the pinned commit (they still detect a
# later change, they are not independent evidence that the pinned value is the standard's)
PINNED = {
    ("gear.colour.StartAutoCalibration", "twice"),
    ("gear.emergency.PerformDTRSelectedFunction", "twice"),
    ("device.occupancy.CatchMovement", "twice"),
    ("device.occupancy.CancelHoldTimer", "twice"),
}


class Row:
    __slots__ = ("name", "kind", "opcode", "twice", "answer", "lib", "dt", "part")

    def __init__(self, name, kind, opcode, twice, answer, lib, dt, part):
        self.name, self.kind, self.opcode, self.twice = name, kind, opcode, twice
        self.answer, self.lib, self.dt, self.part = answer, lib, dt, part

    @property
    def width(self):
        return 16 if self.kind in ("std", "stdn", "dapc", "spc0", "spc1", "spca", "init") else 24

    def __repr__(self):
        return f"Row({self.name!r}, {self.kind}, {self.opcode:#x}, dt={self.dt})"


def _parse(text, dt, part):
    rows = []
    for line in text.strip().splitlines():
        name, kind, opcode, twice, answer, lib = [x.strip() for x in line.split("|")]
        rows.append(Row(name, kind, int(opcode, 0), twice == "T", answer, lib, dt, part))
    return rows


def all_rows():
    rows = _parse(PART102, 0, "102")
    for dt, text in PART2XX.items():
        rows += _parse(text, dt, {1: "202", 4: "205", 5: "206", 6: "207", 8: "209"}[dt])
    rows += _parse(PART103, 0, "103")
    rows += _parse(PART30X, 0, "30x")
    return rows


def resolve(row):
    """The library class named by a row (import by module path + attribute name)."""
    import importlib
    mod, cls = row.lib.rsplit(".", 1)
    return getattr(importlib.import_module("dali." + mod), cls)
