"""Independent encoders / decoders of the gateway wire formats (from the vendors' protocol descriptions
as the author knows them and from the drivers' docstrings/comments; not from their struct templates).

Lunatone LUBA (RS232)    'Y'(0x59) cmd len payload[len] chk,  chk = XOR of cmd, len and payload
    0x32 ADD DALI FRAME TO TX: payload = line(0) nbits mode d0 d1 d2 0 ; mode = priority(1..5) | 0x80 send twice
    0x31 EVENT: payload = tick_hi tick_lo line status [data...]; status bits 7..6 type (0 sent, 2 received),
         bits 5..0 info (received: number of bits 1..32, 62 start/stop only, 63 framing error);
         sent: data = tx_id frame-bytes; received: data = frame-bytes (1 byte = backward frame)
    0x21 DEVICE INFO (len 20): gtin[6] id[8] pcb assembly article[4];  0x2B SETTINGS: mode event hardware
    0x33 response to 0x32: len 1 error code / len 2 tx id
Lunatone SCI (RS232)     five bytes: control/status d_hi d_mi d_lo chk, chk = XOR of the first four
    to device:  control = ME(0x80) | identify(0x40) | echo(0x20) | send twice(0x10) | mode (2: 8 bit, 3: 16 bit, 8: 24 bit);
                the frame is right aligned in the three data bytes as in the device's own reports
    from device: status low nibble 0 OK, 1 NO, 2 8-bit frame (d_lo), 3 16-bit frame (d_mi d_lo), 8 24-bit frame,
                 7 error (d_lo = error code 1..5), high nibble device id
Tridonic DALI USB        64-byte reports.
    to device:  0x12 seq ctrl mode frame[4] dtr prio devtype 0...   ctrl 0x20 = send twice; mode 3 = 16 bit, 6 = 24 bit;
                frame right aligned in 4 bytes; seq 1..255
    from device: mode(0x11 observed / 0x12 own) type frame[4] interval[2] seq 0...; type 0x71 no frame, 0x72 8-bit,
                0x73 16-bit, 0x76 24-bit, 0x77 info (frame[3] = 3: framing error)
hasseb DALI master       two bytes written per transmission (frame big endian); report = status(0 none, 1 no answer,
                         2 ok, 3 invalid answer) value
daliserver               request 02 00 addr cmd ; response 02 status value 00 ; status 0 no answer, 1 answer, 255 error
ATX LED DALI hat         ASCII line: 'h' + 4 hex digits (16 bit), 't' (16 bit send twice), 'l' + 6 hex (24 bit), LF;
                         answer 'J' + 2 hex, 'N' no answer, 'X' collision
"""


def xor(bs):
    x = 0
    for b in bs:
        x ^= b
    return x


# ------------------------------------------------------------------------------------------ LUBA

LUBA_KNOWN = {0x2A, 0x2B, 0x2C, 0x2D, 0x20, 0x21, 0x31, 0x32, 0x33, 0x34, 0x35, 0x36, 0x37}
LUBA_MAX_PAYLOAD = 20


def luba_frame(cmd, payload):
    body = [cmd, len(payload)] + list(payload)
    return bytes([0x59] + body + [xor(body)])


def luba_tx(nbits, value, priority, twice):
    nbytes = nbits // 8
    data = list(value.to_bytes(nbytes, "big")) + [0] * (4 - nbytes)
    return luba_frame(0x32, [0, nbits, priority | (0x80 if twice else 0)] + data)


def luba_event_sent(tx_id, frame_bytes, tick=0):
    return luba_frame(0x31, [tick >> 8, tick & 0xFF, 0, 0x00, tx_id] + list(frame_bytes))


def luba_event_received(frame_bytes, nbits=None, tick=0, info=None):
    if info is None:
        info = nbits if nbits is not None else 8 * len(frame_bytes)
    return luba_frame(0x31, [tick >> 8, tick & 0xFF, 0, 0x80 | info] + list(frame_bytes))


def luba_devinfo(article=24166096, gtin=0x1234567890AB, dev_id=7, pcb=1, assembly=2):
    """Device information reply: GTIN (6 bytes), device id (8), PCB version (1), assembly version (1), article number (4),
    all unsigned, most significant byte first."""
    return luba_frame(0x21, list(gtin.to_bytes(6, "big")) + list(dev_id.to_bytes(8, "big")) + [pcb, assembly] +
                      list(article.to_bytes(4, "big")))


def luba_settings(mode, event, hw=0):
    return luba_frame(0x2B, [mode, event, hw])


def luba_deframe(data, long_policy="drop"):
    """Reference deframer over a whole byte string.

    Returns (items, malformed, had_long) where items is a list of
      ('answer', value) | ('txconf', tx_id, frame_bytes) | ('observed', frame_bytes) | ('info', article) |
      ('settings', mode, event)
    malformed is True when a checksum-valid frame of a known type carries a payload that is malformed for that type
    (the driver raises deliberately on those: such streams are set aside).  long_policy: what to do with a length byte
    21..23 ('drop' = invalid length: resynchronise after the length byte; 'frame' = treat as a frame of that length)."""
    items = []
    malformed = False
    had_long = False
    i = 0
    n = len(data)
    while i < n:
        if data[i] != 0x59:
            i += 1
            continue
        if i + 2 >= n:
            break
        cmd, ln = data[i + 1], data[i + 2]
        valid = 1 <= ln <= LUBA_MAX_PAYLOAD
        if 21 <= ln <= 23:
            had_long = True
            if long_policy == "frame":
                valid = True
        if not valid:
            i += 3
            continue
        if i + 3 + ln >= n:
            break                      # incomplete frame at the end of the stream
        payload = data[i + 3:i + 3 + ln]
        chk = data[i + 3 + ln]
        i += 4 + ln
        if xor([cmd, ln] + list(payload)) != chk:
            continue
        if cmd not in LUBA_KNOWN:
            continue
        if ln > LUBA_MAX_PAYLOAD:
            continue
        if cmd == 0x31:
            if ln < 4:
                malformed = True
                continue
            status = payload[3]
            etype, info = status >> 6, status & 0x3F
            if etype == 0:
                if ln < 5:
                    malformed = True
                    continue
                items.append(("txconf", payload[4], bytes(payload[5:])))
            elif etype == 2:
                if not (1 <= info <= 32):
                    continue
                rx = bytes(payload[4:])
                if len(rx) == 1:
                    items.append(("answer", rx[0]))
                elif len(rx) >= 2:
                    items.append(("observed", rx))
        elif cmd == 0x33:
            if ln not in (1, 2):
                malformed = True
        elif cmd == 0x21:
            if ln != 20:
                malformed = True
                continue
            pl = bytes(payload)
            items.append(("info", int.from_bytes(pl[16:20], "big"), int.from_bytes(pl[0:6], "big"), int.from_bytes(pl[6:14], "big"),
                          pl[14], pl[15]))
        elif cmd == 0x2B:
            if ln < 2:
                malformed = True
                continue
            items.append(("settings", payload[0], payload[1]))
    return items, malformed, had_long


# ------------------------------------------------------------------------------------------ SCI

def sci_frame(status, hi, mi, lo):
    b = [status, hi, mi, lo]
    return bytes(b + [xor(b)])


def sci_tx(nbits, value, twice, monitor=True, echo=True, identify=False):
    ctrl = (0x80 if monitor else 0) | (0x40 if identify else 0) | (0x20 if echo else 0) | (0x10 if twice else 0)
    ctrl |= {8: 2, 16: 3, 24: 8}[nbits]
    d = list(value.to_bytes(3, "big"))           # right aligned
    return sci_frame(ctrl, d[0], d[1], d[2])


def sci_deframe(data):
    """items: ('answer', v) | ('observed', frame_bytes) | ('info', id, code)"""
    items = []
    for k in range(0, len(data) - 4, 5):
        b = data[k:k + 5]
        if xor(b[:4]) != b[4]:
            continue
        code = b[0] & 0x0F
        dev = b[0] >> 4
        if code in (0, 1):
            items.append(("info", dev, code))
        elif code == 2:
            items.append(("answer", b[3]))
        elif code == 3:
            items.append(("observed", bytes(b[2:4])))
        elif code == 8:
            items.append(("observed", bytes(b[1:4])))
        elif code == 7:
            if 1 <= b[3] <= 5:
                items.append(("info", dev, 7))
    return items


# ------------------------------------------------------------------------------------------ Tridonic

def tridonic_tx(seq, nbits, value, twice):
    return bytes([0x12, seq, 0x20 if twice else 0, {16: 3, 24: 6}[nbits]]) + value.to_bytes(4, "big") + bytes(56)


def tridonic_report(mode, rtype, value=0, seq=0, status=None):
    frame = value.to_bytes(4, "big") if status is None else bytes([0, 0, 0, status])
    return bytes([mode, rtype]) + frame + bytes([0, 0, seq]) + bytes(55)


TRI_OBSERVE, TRI_RESPONSE, TRI_INFO = 0x11, 0x12, 0x01
TRI_NO, TRI_8, TRI_16, TRI_24, TRI_STATUS = 0x71, 0x72, 0x73, 0x76, 0x77
