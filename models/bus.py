"""A DALI bus with specification-model units, driven by the frames a sequence yields.

The driver loop mimics what every driver of the library does with a yielded command: a command
whose devicetype != 0 is preceded by ENABLE DEVICE TYPE, a send-twice command is transmitted twice,
and the backward frame (none / clean / collision) is wrapped in the command's response class.
Units see only integers (frame width, value) and decode them with models/cmd_ref.py.
"""
from models import cmd_ref


class Fault:
    """Inject one fault at the k-th *command* (0-based, counting yielded Command objects)."""

    def __init__(self, at=None, kind=None):
        self.at, self.kind = at, kind       # kind: 'silence' | 'garble' | value (int) to substitute


class CommandBoundExceeded(Exception):
    pass


class Bus:
    def __init__(self, units, bound=10 ** 6, collision_as_silence=False):
        # collision_as_silence: what a sequence sees behind a gateway whose protocol cannot hand a garbled backward frame
        # to the host (the serial gateways): colliding answers arrive as 'no answer'
        self.collision_as_silence = collision_as_silence
        self.units = list(units)
        self.bound = bound
        self.log = []            # (width, value, answer) per transmitted frame
        self.commands = []       # yielded Command objects' (name, frame int)
        self.command_answers = []   # outcome handed to the sequence per yielded command (after fault injection)
        self.n_commands = 0
        self.sleeps = 0
        self.progress = []

    # ---------------------------------------------------------------- wire level
    def transmit(self, width, value):
        """Deliver one forward frame to all units; returns None | ('ok', v) | ('collision', v)."""
        answers = []
        for u in self.units:
            a = u.receive(width, value)
            if a is not None:
                answers.append(a)
        if not answers:
            out = None
        elif len(answers) == 1:
            out = ("ok", answers[0])
        else:
            out = ("collision", answers[0])
        self.log.append((width, value, out))
        return out

    # ---------------------------------------------------------------- driver level
    def send(self, cmd, fault=None):
        from dali import frame as F
        f = cmd.frame
        width, value = len(f), f.as_integer
        self.n_commands += 1
        if self.n_commands > self.bound:
            raise CommandBoundExceeded(self.n_commands)
        self.commands.append((type(cmd).__name__, value))
        if width == 16 and cmd.devicetype != 0:
            self.transmit(16, 0xC100 + cmd.devicetype)
        out = self.transmit(width, value)
        if cmd.sendtwice:
            out = self.transmit(width, value)
        if fault is not None:
            if fault == "silence":
                out = None
            elif fault == "garble":
                out = ("collision", out[1] if out else 0)
            elif isinstance(fault, int):
                out = ("ok", fault)
        if self.collision_as_silence and out is not None and out[0] == "collision":
            out = None
        self.command_answers.append(out)
        if cmd.response is None:
            return None
        if out is None:
            bf = None
        elif out[0] == "ok":
            bf = F.BackwardFrame(out[1])
        else:
            bf = F.BackwardFrameError(out[1])
        return cmd.response(bf)

    def run_sequence(self, seq, fault_at=None, fault_kind=None, on_command=None):
        """Run a generator sequence to completion. Returns its return value; exceptions propagate."""
        from dali.command import Command
        response = None
        idx = 0
        while True:
            try:
                item = seq.send(response)
            except StopIteration as stop:
                return stop.value
            response = None
            if isinstance(item, Command):
                fk = fault_kind if (fault_at is not None and idx == fault_at) else None
                if on_command:
                    on_command(idx, item)
                response = self.send(item, fk)
                idx += 1
            elif type(item).__name__ == "sleep":
                self.sleeps += 1
            elif type(item).__name__ == "progress":
                self.progress.append(str(item))
            else:
                raise TypeError(f"sequence yielded {item!r}")


def run_interleaved(pairs, rng=None):
    """Several sequences, each on its own bus, advanced in turns (what two drivers in one process do to two generator
    instances of the same library function).  pairs: [(Bus, generator)]; rng picks who advances next (round-robin when
    None).  Returns a list of ('ok', value) / ('exc', exception), one per pair."""
    from dali.command import Command
    n = len(pairs)
    resp = [None] * n
    out = [None] * n
    live = list(range(n))
    k = 0
    while live:
        i = live[k % len(live)] if rng is None else rng.choice(live)
        k += 1
        bus, seq = pairs[i]
        try:
            item = seq.send(resp[i])
        except StopIteration as stop:
            out[i] = ("ok", stop.value)
            live.remove(i)
            continue
        except Exception as e:      # noqa - handed to the caller
            out[i] = ("exc", e)
            live.remove(i)
            continue
        resp[i] = None
        if isinstance(item, Command):
            try:
                resp[i] = bus.send(item)
            except Exception as e:  # noqa
                out[i] = ("exc", e)
                live.remove(i)
        elif type(item).__name__ == "sleep":
            bus.sleeps += 1
        elif type(item).__name__ == "progress":
            bus.progress.append(str(item))
        else:
            out[i] = ("exc", TypeError(f"sequence yielded {item!r}"))
            live.remove(i)
    return out
