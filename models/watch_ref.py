"""Reference transaction parser for observed bus traffic (what a bus watcher must report).

Input: the ordered list of reports a gateway delivered, each (t, kind, width, value):
    kind 'F' forward frame, 'B' clean backward frame, 'E' backward frame with framing error, 'N' "no frame" report.
Output: list of (t_decided, width, value, devicetype used for decoding, outcome, failed flag) where outcome is
    None (no answer expected) | ('none',) | ('ok', v) | ('err',)
Rules (IEC 62386-102 9.6/9.7 as a bus monitor sees them):
  * a send-twice command is complete when the identical frame follows within the repeat window; anything else
    (another forward frame, a backward frame, a "no frame" report, the window elapsing) makes it a failed command;
  * a query is followed by its backward frame, or has no answer when the window elapses, a "no frame" report or another
    forward frame arrives first;
  * ENABLE DEVICE TYPE n applies to the immediately following forward frame only.
The decision whether a frame is a query / send-twice command comes from spec/iec62386_tables.py via models/cmd_ref.
"""
from models import cmd_ref, events_ref


def classify(width, value, dt):
    """('twice'|'query'|'plain', is_enable_device_type, dt_param)"""
    if width == 16:
        c = cmd_ref.classify16(value, 0)
        hi, lo = value >> 8, value & 0xFF
        from models import addr_ref
        if addr_ref.gear_address(value) is not None and hi % 2 == 1 and lo >= 224:
            # application extended opcodes mean something under a device type only - except 255, which part 102 itself
            # defines (QUERY EXTENDED VERSION NUMBER) and which therefore is a query in any context
            c = cmd_ref.classify16(value, dt) if dt else (c if c[0] == "known" else cmd_ref.UNKNOWN)
        elif c[0] != "known" and dt:
            c2 = cmd_ref.classify16(value, dt)
            if c2[0] == "known":
                c = c2
        if c[0] != "known":
            return ("plain", False, None)
        row = c[1]
        if row.name == "ENABLE DEVICE TYPE":
            return ("plain", True, c[2]["param"])
        if row.twice:
            return ("twice", False, None)
        if row.answer != "none":
            return ("query", False, None)
        return ("plain", False, None)
    if width == 24 and (value >> 16) & 1:
        c = cmd_ref.classify24(value)
        if c[0] != "known":
            return ("plain", False, None)
        row = c[1]
        if row.twice:
            return ("twice", False, None)
        if row.answer != "none":
            return ("query", False, None)
    return ("plain", False, None)


def parse(reports, window=0.2):
    out = []
    pending = None        # dict(kind, width, value, dt, t)
    dt_next = 0

    def close(t, outcome, failed):
        nonlocal pending
        out.append((t, pending["width"], pending["value"], pending["dt"], outcome, failed))
        pending = None

    last_t = None
    for (t, kind, width, value) in reports:
        # the window of a pending command may have elapsed before this report
        if pending is not None and t - pending["t_wait"] > window:
            if pending["kind"] == "twice":
                close(pending["t_wait"] + window, None, True)
            else:
                close(pending["t_wait"] + window, ("none",), False)
        if pending is not None:
            if pending["kind"] == "twice":
                if kind == "F" and (width, value) == (pending["width"], pending["value"]):
                    close(t, None, False)
                    continue
                if kind == "F":
                    close(t, None, True)          # falls through: the new frame is processed below
                elif kind in ("B", "E"):
                    close(t, None, True)
                    continue
                else:
                    close(t, None, True)
                    continue
            else:
                if kind == "B":
                    close(t, ("ok", value), False)
                    continue
                if kind == "E":
                    close(t, ("err",), False)
                    continue
                if kind == "N":
                    close(t, ("none",), False)
                    continue
                close(t, ("none",), False)         # another forward frame came first
        if kind != "F":
            continue                                # stray backward frame / no-frame report
        dt, dt_next = dt_next, 0
        k, is_edt, param = classify(width, value, dt)
        if is_edt:
            dt_next = param
        if k == "plain":
            out.append((t, width, value, dt, None, False))
        else:
            pending = {"kind": k, "width": width, "value": value, "dt": dt, "t_wait": t}
    return out, pending
