"""Specification model of IEC 62386-102:2014 §9.10 memory banks (the same rules apply to 103 devices).

A bank has 255 locations (0x00..0xFE).  Location 0 holds the address of the last accessible
location; in banks >= 1 location 2 is the lock byte.  Semantics modelled:

* READ MEMORY LOCATION: ignored when bank DTR1 is not implemented; otherwise the content of location
  DTR0 is answered when the location is implemented and not above the last accessible one, else NO;
  DTR0 is incremented when it is below 0xFF (also after NO).
* WRITE MEMORY LOCATION (- NO REPLY): ignored unless writeEnableState is ENABLED and the bank is
  implemented; NO when the location is not implemented / above last / read-only / lockable while the
  lock byte is not 0x55; otherwise the byte is stored and echoed; DTR0 is incremented as above.
* The lock byte itself is always writeable (while write-enabled).  Writing 0xAA to the lock byte of a
  latchable bank takes a snapshot: reads are served from the snapshot until another value is written.
* writeEnableState is owned by the unit (see models/unit.py): set by ENABLE WRITE MEMORY, cleared by
  every accepted command other than DTRx, QUERY CONTENT DTRx, WRITE MEMORY LOCATION (- NO REPLY).
"""

RO, RW, RWL = "ro", "rw", "rwl"


class Bank:
    def __init__(self, number, image, last, access=None, latchable=False, unlock_value=0x55,
                 advance_dtr0=True, wrong_echo=False):
        self.number = number
        self.image = list(image) + [None] * (255 - len(image))     # None = not implemented
        self.last = last
        self.access = dict(access or {})                              # loc -> RO/RW/RWL (default RO)
        self.latchable = latchable
        self.snapshot = None
        self.unlock_value = unlock_value      # a non-conforming unit may use another value
        self.advance_dtr0 = advance_dtr0      # a non-conforming unit may not advance DTR0
        self.wrong_echo = wrong_echo          # a non-conforming unit may echo another byte
        self.writes = []                      # (location, value) actually stored
        self.stall_writes = set()             # a non-conforming unit may fail to advance DTR0 at the k-th write (0-based)
        self.n_write_cmds = 0
        if number != 0 and self.image[2] is None:
            self.image[2] = 0xFF

    @property
    def lock_byte(self):
        return self.image[2] if self.number != 0 else None

    def read(self, loc):
        if loc > 0xFE:
            return None
        if loc == 0:
            return self.last
        if loc > self.last:
            return None
        src = self.snapshot if (self.snapshot is not None and loc != 2) else self.image
        return src[loc]

    def should_advance(self, writing):
        if not self.advance_dtr0:
            return False
        if writing:
            k = self.n_write_cmds
            self.n_write_cmds += 1
            if k in self.stall_writes:
                return False
        return True

    def write(self, loc, value):
        """Returns the echoed byte or None (NO)."""
        if loc > 0xFE or loc > self.last or self.image[loc] is None:
            return None
        if self.number != 0 and loc == 2:
            self.image[2] = value
            self.writes.append((loc, value))
            if self.latchable:
                self.snapshot = list(self.image) if value == 0xAA else None
            return (value ^ 0x01) if self.wrong_echo else value
        acc = self.access.get(loc, RO)
        if acc == RO:
            return None
        if acc == RWL and self.image[2] != self.unlock_value:
            return None
        self.image[loc] = value
        self.writes.append((loc, value))
        return (value ^ 0x01) if self.wrong_echo else value
