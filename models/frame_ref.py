"""Reference model of a DALI frame: a plain list of bits, index i = bit i (bit 0 least significant).

Written from the documented behaviour of dali.frame.Frame (docstrings and tests), not from its
mask arithmetic: every operation works on individual list elements.
"""


class Illegal(Exception):
    """The operation is illegal; .kinds is the set of exception class names that are acceptable."""

    def __init__(self, *kinds):
        self.kinds = set(kinds)


class RefFrame:
    def __init__(self, width, value=0):
        self.bits = [(value >> i) & 1 for i in range(width)]

    @property
    def width(self):
        return len(self.bits)

    def value(self):
        n = 0
        for i, b in enumerate(self.bits):
            if b:
                n += 2 ** i
        return n

    def copy(self):
        r = RefFrame(1)
        r.bits = list(self.bits)
        return r

    # -- single bits
    def _chk_index(self, i):
        if not isinstance(i, int):
            raise Illegal("TypeError")
        if i < 0 or i >= len(self.bits):
            raise Illegal("IndexError")

    def getbit(self, i):
        self._chk_index(i)
        return bool(self.bits[i])

    def setbit(self, i, v):
        self._chk_index(i)
        self.bits[i] = 1 if v else 0

    # -- slices
    def _chk_slice(self, a, b, step, value=None, writing=False):
        kinds = set()
        idx_ok = True
        if not isinstance(a, int) or not isinstance(b, int):
            kinds.add("TypeError")
            idx_ok = False
        if step not in (None, 1):
            kinds.add("TypeError")
        if idx_ok:
            for x in (a, b):
                if x < 0 or x >= len(self.bits):
                    kinds.add("IndexError")
                    idx_ok = False
        if writing:
            if not isinstance(value, int):
                kinds.add("TypeError")
            else:
                if value < 0:
                    kinds.add("ValueError")
                elif isinstance(a, int) and isinstance(b, int):
                    n = abs(a - b) + 1
                    if value >= 2 ** n:
                        kinds.add("ValueError")
        if kinds:
            raise Illegal(*kinds)

    def getslice(self, a, b, step=None):
        self._chk_slice(a, b, step)
        lo, hi = min(a, b), max(a, b)
        n = 0
        for k, i in enumerate(range(lo, hi + 1)):
            if self.bits[i]:
                n += 2 ** k
        return n

    def setslice(self, a, b, value, step=None):
        self._chk_slice(a, b, step, value, writing=True)
        lo, hi = min(a, b), max(a, b)
        for k, i in enumerate(range(lo, hi + 1)):
            self.bits[i] = (value // (2 ** k)) % 2

    # -- concatenation: self is the more significant part
    def concat(self, other):
        r = RefFrame(1)
        r.bits = list(other.bits) + list(self.bits)
        return r

    # -- views
    def byte_seq(self):
        """Big-endian bytes; the first may hold fewer than 8 bits."""
        out = []
        bits = list(self.bits)
        while bits:
            chunk, bits = bits[:8], bits[8:]
            out.append(sum(2 ** k for k, b in enumerate(chunk) if b))
        return list(reversed(out))

    def pack_len(self, n):
        seq = self.byte_seq()
        while len(seq) > 1 and seq[0] == 0:
            seq = seq[1:]
        if seq == [0]:
            seq = []
        if len(seq) > n:
            raise Illegal("OverflowError")
        return [0] * (n - len(seq)) + seq
