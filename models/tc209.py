"""Specification model of the colour-temperature (Tc) part of IEC 62386-209 control gear.

Attached to models/gear102.Gear as its `tc` component; the gear's frame decoder has already applied
the device-type rule (an application extended command is executed only when the immediately
preceding frame was ENABLE DEVICE TYPE 8) and the send-twice rule before calling execute().

    SET TEMPORARY COLOUR TEMPERATURE Tc   temporaryTc := DTR1:DTR0
    ACTIVATE                              actualTc := temporaryTc limited to [coolest, warmest]
    STORE COLOUR TEMPERATURE Tc LIMIT     limit[DTR2] := DTR1:DTR0   (0 coolest, 1 warmest, 2 physical coolest,
                                                                       3 physical warmest)
    QUERY COLOUR VALUE                    the 16-bit value selected by DTR0: answer = MSB, DTR0 := LSB;
                                          an unsupported selector or MASK value answers 255 / DTR0 := 255
    QUERY ACTUAL LEVEL                    copies the actual values to the report values (209 cmd 250 note 2)
"""

SEL_ACTUAL_TC, SEL_TEMP_TC, SEL_REPORT_TC = 2, 194, 226
SEL_LIMITS = {128: 0, 130: 1, 129: 2, 131: 3}     # query selector -> limit index


class TcUnit:
    def __init__(self, values=None, coolest=0, warmest=0xFFFF):
        self.temporary_tc = 0xFFFF
        self.actual_tc = 0xFFFF
        self.report_tc = 0xFFFF
        self.limits = [coolest, warmest, coolest, warmest]
        self.values = dict(values or {})     # other selectors -> stored 16-bit value
        self.activations = 0
        self.log = []

    def on_query_actual_level(self):
        self.report_tc = self.actual_tc

    def value_for(self, selector):
        if selector == SEL_ACTUAL_TC:
            return self.actual_tc
        if selector == SEL_TEMP_TC:
            return self.temporary_tc
        if selector == SEL_REPORT_TC:
            return self.report_tc
        if selector in SEL_LIMITS:
            return self.limits[SEL_LIMITS[selector]]
        return self.values.get(selector, 0xFFFF)

    def execute(self, name, gear):
        self.log.append(name)
        if name == "SET TEMPORARY COLOUR TEMPERATURE Tc":
            self.temporary_tc = gear.dtr1 * 256 + gear.dtr0
        elif name == "ACTIVATE":
            t = self.temporary_tc
            lo, hi = self.limits[0], self.limits[1]
            self.actual_tc = min(max(t, lo), hi)
            self.activations += 1
        elif name == "STORE COLOUR TEMPERATURE Tc LIMIT":
            if gear.dtr2 in (0, 1, 2, 3):
                self.limits[gear.dtr2] = gear.dtr1 * 256 + gear.dtr0
        elif name == "QUERY COLOUR VALUE":
            v = self.value_for(gear.dtr0)
            gear.dtr0 = v % 256
            return v // 256
        return None


# IEC 62386-209 Table 11 "QUERY COLOUR VALUE": DTR0 selector numbers, by the names the library's enumeration uses
def _sel():
    t = {"XCoordinate": 0, "YCoordinate": 1, "ColourTemperatureTC": 2}
    for n in range(6):
        t[f"PrimaryNDimLevel{n}"] = 3 + n
    for k, nm in enumerate(["Red", "Green", "Blue", "White", "Amber", "Freecolour"]):
        t[f"{nm}DimLevel"] = 9 + k
    t["RGBWAFControl"] = 15
    for n in range(6):
        t[f"XCoordinatePrimaryN{n}"] = 64 + 3 * n
        t[f"YCoordinatePrimaryN{n}"] = 65 + 3 * n
        t[f"TYPrimaryN{n}"] = 66 + 3 * n
    t["NumberOfPrimaries"] = 82
    t.update(ColourTemperatureTcCoolest=128, ColourTemperatureTcPhysicalCoolest=129, ColourTemperatureTcWarmest=130,
             ColourTemperatureTcPhysicalWarmest=131)
    t.update(TemporaryXCoordinate=192, TemporaryYCoordinate=193, TemporaryColourTemperature=194)
    for n in range(6):
        t[f"TemporaryPrimaryNDimLevel{n}"] = 195 + n
    for k, nm in enumerate(["Red", "Green", "Blue", "White", "Amber", "Freecolour"]):
        t[f"Temporary{nm}DimLevel"] = 201 + k
    t.update(TemporaryRgbwafControl=207, TemporaryColourType=208)
    t.update(ReportXCoordinate=224, ReportYCoordinate=225, ReportColourTemperatureTc=226)
    for n in range(6):
        t[f"ReportPrimaryNDimLevel{n}"] = 227 + n
    for k, nm in enumerate(["Red", "Green", "Blue", "White", "Amber", "Freecolour"]):
        t[f"Report{nm}DimLevel"] = 233 + k
    t.update(ReportRgbwafControl=239, ReportColourType=240)
    return t


SELECTORS = _sel()
LIMIT_SELECTORS = {"TcCoolest": 0, "TcWarmest": 1, "TcPhysicalCoolest": 2, "TcPhysicalWarmest": 3}   # 209 Table 10 (DTR2)
