"""Specification model of IEC 62386-102:2014 control gear (the subset the library's sequences touch).

Written from the standard's text; driven only by 16-bit frame integers, decoded with models/cmd_ref.
    9.14 / 11.7  initialisation: initialisationState in {DISABLED, ENABLED, WITHDRAWN};
                 INITIALISE(device) addresses all / unaddressed / one short address;
                 RANDOMISE, SEARCHADDRx, PROGRAM SHORT ADDRESS, VERIFY SHORT ADDRESS, QUERY SHORT
                 ADDRESS act while initialisationState != DISABLED; COMPARE and WITHDRAW only
                 while ENABLED; TERMINATE -> DISABLED.
    9.6          send-twice: a configuration command is executed on its second identical reception
                 with no other frame in between.
    9.10         memory banks: models/membank.py; writeEnableState rules.
    11.5.x       QUERY DEVICE TYPE / QUERY NEXT DEVICE TYPE protocol.
    209          optional colour-temperature component (models/tc209.py).
"""
from models import cmd_ref

YES = 0xFF


class Gear:
    def __init__(self, short=None, groups=(), device_types=(), draw=None, banks=None, tc=None,
                 no_store=False, no_verify=False, name=None):
        self.name = name
        self.short = short
        self.groups = set(groups)
        self.device_types = sorted(set(device_types))
        self.dtr0 = self.dtr1 = self.dtr2 = 0
        self.init_state = "DISABLED"
        self.random = 0xFFFFFF
        self.search = 0xFFFFFF
        self.draw = draw or (lambda unit: 0xFFFFFF)
        self.banks = banks or {}
        self.write_enabled = False
        self.tc = tc
        self.no_store = no_store
        self.no_verify = no_verify
        self.pending = None          # frame awaiting its repeat
        self.enabled_dt = None       # device type enabled for the next frame only
        self.qdt_index = None        # progress of the QUERY (NEXT) DEVICE TYPE protocol
        self.actual_level = 254
        self.randomise_count = 0
        self.group_writes = []       # executed (add/remove, group) - for the 'only necessary changes' oracle

    # ------------------------------------------------------------------ addressing
    def addressed(self, addr):
        kind, num = addr
        if kind == "GearShort":
            return self.short == num
        if kind == "GearGroup":
            return num in self.groups
        if kind == "GearBroadcast":
            return True
        if kind == "GearBroadcastUnaddressed":
            return self.short is None
        return False

    # ------------------------------------------------------------------ frame reception
    def receive(self, width, value):
        if width != 16:
            self.pending = None
            self.enabled_dt = None
            self.qdt_index = None
            return None
        dt, self.enabled_dt = self.enabled_dt, None
        if self.pending is not None and self.pending[:2] == (width, value):
            dt = self.pending[2]      # the repeat of a send-twice command is accepted under the first one's enable
        hi, lo = value // 256, value % 256
        c = cmd_ref.classify16(value, 0)
        from models import addr_ref
        is_std = addr_ref.gear_address(value) is not None and hi % 2 == 1
        if is_std and lo >= 224:
            c = cmd_ref.classify16(value, dt) if dt else cmd_ref.UNKNOWN
        if c[0] != "known":
            self.pending = None
            self._other_command(None)
            return None
        row, args = c[1], c[2]
        name = row.name
        if "addr" in args and not self.addressed(args["addr"]):
            # not for us: it still breaks a pending repeat and the device-type query protocol
            self.pending = None
            self.qdt_index = None
            return None
        if row.twice:
            if self.pending is None or self.pending[:2] != (width, value):
                self.pending = (width, value, dt)
                self._other_command(name)
                return None
            self.pending = None
        else:
            self.pending = None
        self._other_command(name)
        return self.execute(name, row, args)

    _KEEP_WRITE_ENABLE = {"DTR0", "DTR1", "DTR2", "QUERY CONTENT DTR0", "QUERY CONTENT DTR1", "QUERY CONTENT DTR2",
                          "WRITE MEMORY LOCATION", "WRITE MEMORY LOCATION - NO REPLY", "ENABLE WRITE MEMORY"}

    def _other_command(self, name):
        if name not in self._KEEP_WRITE_ENABLE:
            self.write_enabled = False
        if name not in ("QUERY DEVICE TYPE", "QUERY NEXT DEVICE TYPE"):
            self.qdt_index = None

    # ------------------------------------------------------------------ semantics
    def execute(self, name, row, a):
        if name == "DTR0":
            self.dtr0 = a["param"]
        elif name == "DTR1":
            self.dtr1 = a["param"]
        elif name == "DTR2":
            self.dtr2 = a["param"]
        elif name == "QUERY CONTENT DTR0":
            return self.dtr0
        elif name == "QUERY CONTENT DTR1":
            return self.dtr1
        elif name == "QUERY CONTENT DTR2":
            return self.dtr2
        elif name == "ENABLE DEVICE TYPE":
            self.enabled_dt = a["param"]
        elif name == "SET SHORT ADDRESS":
            if self.dtr0 == 0xFF:
                self.short = None
            elif self.dtr0 < 128 and self.dtr0 % 2 == 1:
                self.short = self.dtr0 // 2
        elif name == "QUERY CONTROL GEAR PRESENT":
            return YES
        elif name == "QUERY MISSING SHORT ADDRESS":
            return YES if self.short is None else None
        elif name == "QUERY ACTUAL LEVEL":
            if self.tc:
                self.tc.on_query_actual_level()
            return self.actual_level
        elif name == "ADD TO GROUP":
            self.groups.add(a["param"])
            self.group_writes.append(("add", a["param"]))
        elif name == "REMOVE FROM GROUP":
            self.groups.discard(a["param"])
            self.group_writes.append(("remove", a["param"]))
        elif name == "QUERY GROUPS 0-7":
            return sum(1 << g for g in self.groups if g < 8)
        elif name == "QUERY GROUPS 8-15":
            return sum(1 << (g - 8) for g in self.groups if g >= 8)
        elif name == "QUERY DEVICE TYPE":
            if not self.device_types:
                return 254
            if len(self.device_types) == 1:
                return self.device_types[0]
            self.qdt_index = 0
            return 255
        elif name == "QUERY NEXT DEVICE TYPE":
            if self.qdt_index is None:
                return None
            i = self.qdt_index
            if i < len(self.device_types):
                self.qdt_index = i + 1
                return self.device_types[i]
            self.qdt_index = None
            return 254
        # ---- initialisation
        elif name == "TERMINATE":
            self.init_state = "DISABLED"
        elif name == "INITIALISE":
            if a["broadcast"] or (a["address"] is None and self.short is None) or \
                    (a["address"] is not None and a["address"] == self.short):
                self.init_state = "ENABLED"
        elif name == "RANDOMISE":
            if self.init_state != "DISABLED":
                self.random = self.draw(self)
                self.randomise_count += 1
        elif name == "SEARCHADDRH":
            if self.init_state != "DISABLED":
                self.search = (self.search & 0x00FFFF) | (a["param"] << 16)
        elif name == "SEARCHADDRM":
            if self.init_state != "DISABLED":
                self.search = (self.search & 0xFF00FF) | (a["param"] << 8)
        elif name == "SEARCHADDRL":
            if self.init_state != "DISABLED":
                self.search = (self.search & 0xFFFF00) | a["param"]
        elif name == "COMPARE":
            if self.init_state == "ENABLED" and self.random <= self.search:
                return YES
        elif name == "WITHDRAW":
            if self.init_state == "ENABLED" and self.random == self.search:
                self.init_state = "WITHDRAWN"
        elif name == "PROGRAM SHORT ADDRESS":
            if self.init_state != "DISABLED" and self.random == self.search and not self.no_store:
                self.short = None if a["address"] == "MASK" else a["address"]
        elif name == "VERIFY SHORT ADDRESS":
            if self.init_state != "DISABLED" and not self.no_verify and a["address"] != "MASK" \
                    and self.short == a["address"]:
                return YES
        elif name == "QUERY SHORT ADDRESS":
            if self.init_state != "DISABLED" and self.random == self.search:
                return 0xFF if self.short is None else self.short * 2 + 1
        # ---- memory
        elif name == "ENABLE WRITE MEMORY":
            self.write_enabled = True
        elif name == "READ MEMORY LOCATION":
            return self._mem_read()
        elif name == "WRITE MEMORY LOCATION":
            return self._mem_write(a["param"], True)
        elif name == "WRITE MEMORY LOCATION - NO REPLY":
            self._mem_write(a["param"], False)
        # ---- colour control
        elif row.dt == 8 and self.tc is not None:
            return self.tc.execute(name, self)
        return None

    def _advance(self, bank, writing=False):
        if self.dtr0 < 0xFF and (bank is None or bank.should_advance(writing)):
            self.dtr0 += 1

    def _mem_read(self):
        bank = self.banks.get(self.dtr1)
        if bank is None:
            return None
        v = bank.read(self.dtr0)
        self._advance(bank)
        return v

    def _mem_write(self, value, reply):
        bank = self.banks.get(self.dtr1)
        if bank is None or not self.write_enabled:
            return None
        v = bank.write(self.dtr0, value)
        self._advance(bank, True)
        return v if reply else None
