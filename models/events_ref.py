"""Reference slicer for IEC 62386-103 event messages (24-bit forward frames with bit 16 = 0).

Part 103 Table 3 (event source identification):
    bit23 bit22 .... bit15
      0    a a a a a a  0   0 t t t t t   device scheme:          short address, instance type
      0    a a a a a a  0   1 n n n n n   device/instance scheme: short address, instance number
      1    0 g g g g g  0   0 t t t t t   device group scheme:    device group, instance type
      1    0 t t t t t  0   1 n n n n n   instance scheme:        instance type, instance number
      1    1 g g g g g  0   0 t t t t t   instance group scheme:  instance group, instance type
      1    1 . . . . .  0   1 . . . . .   reserved / power notification -> not an input-device event
    bits 9..0: event information, meaning defined by the instance type (parts 301, 303, 304).
"""
from spec.iec62386_tables import PUSHBUTTON_EVENTS


def slice_event(v):
    """dict(scheme, short_address, instance_number, device_group, instance_group, instance_type, data)
    or None when the frame is not an input-device event."""
    assert (v // 65536) % 2 == 0
    b23 = (v // 8388608) % 2
    b22 = (v // 4194304) % 2
    b15 = (v // 32768) % 2
    f_hi6 = (v // 131072) % 64      # bits 22..17
    f_hi5 = (v // 131072) % 32      # bits 21..17
    f_lo5 = (v // 1024) % 32        # bits 14..10
    data = v % 1024
    out = dict(short_address=None, instance_number=None, device_group=None, instance_group=None,
               instance_type=None, data=data)
    if b23 == 0 and b15 == 0:
        out.update(scheme="device", short_address=f_hi6, instance_type=f_lo5)
    elif b23 == 0 and b15 == 1:
        out.update(scheme="device_instance", short_address=f_hi6, instance_number=f_lo5)
    elif b23 == 1 and b22 == 0 and b15 == 0:
        out.update(scheme="device_group", device_group=f_hi5, instance_type=f_lo5)
    elif b23 == 1 and b22 == 0 and b15 == 1:
        out.update(scheme="instance", instance_type=f_hi5, instance_number=f_lo5)
    elif b23 == 1 and b22 == 1 and b15 == 0:
        out.update(scheme="instance_group", instance_group=f_hi5, instance_type=f_lo5)
    else:
        return None
    return out


def event_class(instance_type, data):
    """Name of the event class the standard's tables give for (instance type, event info):
    a push-button event name, 'OccupancyEvent', 'LightEvent' or 'UnknownEvent'."""
    if instance_type == 1:
        return PUSHBUTTON_EVENTS.get(data, "UnknownEvent")
    if instance_type == 3:
        # part 303 Table 2: only bits 3..0 carry information, bits 9..4 are zero
        return "OccupancyEvent" if data < 16 else "UnknownEvent"
    if instance_type == 4:
        return "LightEvent"
    return "UnknownEvent"


def occupancy_flags(data):
    return dict(movement=bool(data % 2), occupied=bool((data // 2) % 2), repeat=bool((data // 4) % 2),
                sensor_type="movement" if (data // 8) % 2 else "presence")


def encode_event(scheme, instance_type, data, short_address=None, instance_number=None,
                 device_group=None, instance_group=None):
    if scheme == "device":
        return short_address * 131072 + instance_type * 1024 + data
    if scheme == "device_instance":
        return short_address * 131072 + 32768 + instance_number * 1024 + data
    if scheme == "device_group":
        return 8388608 + device_group * 131072 + instance_type * 1024 + data
    if scheme == "instance":
        return 8388608 + instance_type * 131072 + 32768 + instance_number * 1024 + data
    if scheme == "instance_group":
        return 8388608 + 4194304 + instance_group * 131072 + instance_type * 1024 + data
    raise KeyError(scheme)
