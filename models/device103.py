"""Specification model of an IEC 62386-103:2014 control device (the subset the library's sequences touch).

Driven only by 24-bit frame integers decoded with models/cmd_ref.classify24.
    9.7.2   inputValue is transferred MSB first in ceil(resolution/8) bytes, left aligned, the unused
            low bits filled by repeating the value's most significant bits; QUERY INPUT VALUE answers
            the first byte and latches the value, QUERY INPUT VALUE LATCH answers the following bytes.
    9.8     eventFilter is a 24-bit variable; SET EVENT FILTER loads DTR2:DTR1:DTR0, bits the instance
            type does not implement stay 0.  SET EVENT SCHEME loads DTR0 when it is 0..4.
    9.9     send-twice for configuration commands; quiescent mode; device status bits (Table 15).
    9.10    memory banks as in part 102 (models/membank.py).
"""
from models import cmd_ref


class Instance:
    def __init__(self, itype=1, enabled=True, resolution=8, value=0, scheme=0, filt=0, filter_bits=8):
        self.itype, self.enabled, self.resolution, self.value = itype, enabled, resolution, value
        self.scheme, self.filter, self.filter_bits = scheme, filt, filter_bits
        self.set_filter_count = 0
        self.set_scheme_count = 0

    def input_bytes(self):
        """MSB-aligned bytes with repetition padding (103 9.7.2)."""
        r = self.resolution
        nbytes = max(1, (r + 7) // 8)
        total = nbytes * 8
        bits = [(self.value >> (r - 1 - k)) & 1 for k in range(r)] if r else [0]
        out_bits = [bits[k % len(bits)] for k in range(total)]
        out = []
        for b in range(nbytes):
            byte = 0
            for k in range(8):
                byte = byte * 2 + out_bits[b * 8 + k]
            out.append(byte)
        return out


class Device:
    def __init__(self, short=None, groups=(), status=0, instances=(), banks=None, name=None):
        self.name = name
        self.short = short
        self.groups = set(groups)
        self.status = status          # bits 0,2..6 as given; bit 1 follows quiescent mode
        self.instances = list(instances)
        self.dtr0 = self.dtr1 = self.dtr2 = 0
        self.quiescent = False
        self.pending = None
        self.latched = {}             # instance index -> remaining bytes
        self.banks = banks or {}
        self.write_enabled = False
        self.log = []

    def addressed(self, addr):
        kind, num = addr
        if kind == "DeviceShort":
            return self.short == num
        if kind == "DeviceGroup":
            return num in self.groups
        if kind == "DeviceBroadcast":
            return True
        if kind == "DeviceBroadcastUnaddressed":
            return self.short is None
        return False

    def select(self, inst):
        kind, num = inst
        if kind == "InstanceNumber":
            return [i for i in range(len(self.instances)) if i == num]
        if kind == "InstanceBroadcast":
            return list(range(len(self.instances)))
        if kind == "InstanceType":
            return [i for i, x in enumerate(self.instances) if x.itype == num]
        return []

    _KEEP_WRITE_ENABLE = {"DTR0", "DTR1", "DTR2", "DTR1:DTR0", "DTR2:DTR1", "QUERY CONTENT DTR0", "QUERY CONTENT DTR1",
                          "QUERY CONTENT DTR2", "WRITE MEMORY LOCATION", "WRITE MEMORY LOCATION - NO REPLY",
                          "DIRECT WRITE MEMORY", "ENABLE WRITE MEMORY"}

    def receive(self, width, value):
        if width != 24 or (value // 65536) % 2 == 0:
            self.pending = None
            return None
        c = cmd_ref.classify24(value)
        if c[0] != "known":
            self.pending = None
            self.write_enabled = False
            return None
        row, a = c[1], c[2]
        name = row.name
        if "addr" in a and not self.addressed(a["addr"]):
            self.pending = None
            return None
        if row.twice:
            if self.pending != (width, value):
                self.pending = (width, value)
                if name not in self._KEEP_WRITE_ENABLE:
                    self.write_enabled = False
                return None
        self.pending = None
        if name not in self._KEEP_WRITE_ENABLE:
            self.write_enabled = False
        self.log.append(name)
        return self.execute(name, row, a)

    def execute(self, name, row, a):
        if name == "DTR0":
            self.dtr0 = a["param"]
        elif name == "DTR1":
            self.dtr1 = a["param"]
        elif name == "DTR2":
            self.dtr2 = a["param"]
        elif name == "DTR1:DTR0":
            self.dtr1, self.dtr0 = a["param_1"], a["param_2"]
        elif name == "DTR2:DTR1":
            self.dtr2, self.dtr1 = a["param_1"], a["param_2"]
        elif name == "QUERY CONTENT DTR0":
            return self.dtr0
        elif name == "QUERY CONTENT DTR1":
            return self.dtr1
        elif name == "QUERY CONTENT DTR2":
            return self.dtr2
        elif name == "START QUIESCENT MODE":
            self.quiescent = True
        elif name == "STOP QUIESCENT MODE":
            self.quiescent = False
        elif name == "QUERY QUIESCENT MODE":
            return 0xFF if self.quiescent else None
        elif name == "QUERY DEVICE STATUS":
            return (self.status & ~0x02) | (0x02 if self.quiescent else 0)
        elif name == "QUERY NUMBER OF INSTANCES":
            return len(self.instances)
        elif name == "ENABLE WRITE MEMORY":
            self.write_enabled = True
        elif name == "READ MEMORY LOCATION":
            return self._mem_read()
        elif name == "WRITE MEMORY LOCATION":
            return self._mem_write(a["param"], True)
        elif name == "WRITE MEMORY LOCATION - NO REPLY":
            self._mem_write(a["param"], False)
        elif row.kind == "inst":
            sel = self.select(a["inst"])
            if not sel:
                return None
            return self.exec_instance(name, sel)
        return None

    def exec_instance(self, name, sel):
        i = sel[0]
        x = self.instances[i]
        if name == "QUERY INSTANCE ENABLED":
            return 0xFF if x.enabled else None
        if name == "QUERY INSTANCE TYPE":
            return x.itype
        if name == "QUERY RESOLUTION":
            return x.resolution
        if name == "QUERY INPUT VALUE":
            b = x.input_bytes()
            self.latched[i] = b[1:]
            return b[0]
        if name == "QUERY INPUT VALUE LATCH":
            rest = self.latched.get(i)
            if not rest:
                return None
            self.latched[i] = rest[1:]
            return rest[0]
        if name == "SET EVENT SCHEME":
            for k in sel:
                if self.dtr0 <= 4:
                    self.instances[k].scheme = self.dtr0
                    self.instances[k].set_scheme_count += 1
            return None
        if name == "QUERY EVENT SCHEME":
            return x.scheme
        if name == "SET EVENT FILTER":
            for k in sel:
                y = self.instances[k]
                full = self.dtr2 * 65536 + self.dtr1 * 256 + self.dtr0
                y.filter = full % (1 << y.filter_bits)
                y.set_filter_count += 1
            return None
        if name == "QUERY EVENT FILTER 0-7":
            return x.filter % 256
        if name == "QUERY EVENT FILTER 8-15":
            return (x.filter // 256) % 256
        if name == "QUERY EVENT FILTER 16-23":
            return (x.filter // 65536) % 256
        if name == "ENABLE INSTANCE":
            x.enabled = True
        if name == "DISABLE INSTANCE":
            x.enabled = False
        return None

    def _advance(self, bank, writing=False):
        if self.dtr0 < 0xFF and (bank is None or bank.should_advance(writing)):
            self.dtr0 += 1

    def _mem_read(self):
        bank = self.banks.get(self.dtr1)
        if bank is None:
            return None
        v = bank.read(self.dtr0)
        self._advance(bank)
        return v

    def _mem_write(self, value, reply):
        bank = self.banks.get(self.dtr1)
        if bank is None or not self.write_enabled:
            return None
        v = bank.write(self.dtr0, value)
        self._advance(bank, True)
        return v if reply else None
