"""Independent bit-level encoder / classifier for IEC 62386 command frames.

Builds integers from the rows of spec/iec62386_tables.py with its own arithmetic (no library code).
Arguments are plain tuples:
    addr = (kind, number)  as in models.addr_ref  (GearShort/GearGroup/... , DeviceShort/...)
    inst = (kind, number)  instance byte description
"""
from models import addr_ref as A
from spec import iec62386_tables as T

_rows = None


def rows():
    global _rows
    if _rows is None:
        _rows = T.all_rows()
    return _rows


def _index():
    idx = {"std": {}, "spc": {}, "dev": {}, "inst": {}, "dsp": {}, "dsp2": {}}
    for r in rows():
        if r.kind == "std":
            idx["std"][(r.dt, r.opcode)] = (r, None)
        elif r.kind == "stdn":
            for n in range(16):
                idx["std"][(r.dt, r.opcode + n)] = (r, n)
        elif r.kind in ("spc0", "spc1", "spca", "init"):
            idx["spc"][r.opcode] = r
        elif r.kind == "dev":
            idx["dev"][r.opcode] = r
        elif r.kind == "inst":
            idx["inst"][r.opcode] = r
        elif r.kind in ("dsp0", "dsp1"):
            idx["dsp"][r.opcode] = r
        elif r.kind == "dsp2":
            idx["dsp2"][r.opcode] = r
    return idx


_idx = None


def index():
    global _idx
    if _idx is None:
        _idx = _index()
    return _idx


# ------------------------------------------------------------------ encoding

def gear_addr_byte(addr, selector):
    kind, num = addr
    return A.gear_field(kind, num) * 2 + selector


def device_addr_byte(addr):
    kind, num = addr
    return A.device_field(kind, num) * 2 + 1


def encode(row, **a):
    k = row.kind
    if k == "dapc":
        return gear_addr_byte(a["addr"], 0) * 256 + a["power"]
    if k == "std":
        return gear_addr_byte(a["addr"], 1) * 256 + row.opcode
    if k == "stdn":
        return gear_addr_byte(a["addr"], 1) * 256 + row.opcode + a["param"]
    if k == "spc0":
        return row.opcode * 256
    if k == "spc1":
        return row.opcode * 256 + a["param"]
    if k == "spca":
        d = 0xFF if a["address"] == "MASK" else a["address"] * 2 + 1
        return row.opcode * 256 + d
    if k == "init":
        if a.get("broadcast"):
            d = 0
        elif a.get("address") is None:
            d = 0xFF
        else:
            d = a["address"] * 2 + 1
        return row.opcode * 256 + d
    if k == "dev":
        return device_addr_byte(a["addr"]) * 65536 + 0xFE * 256 + row.opcode
    if k == "inst":
        return device_addr_byte(a["addr"]) * 65536 + A.instance_byte(*a["inst"]) * 256 + row.opcode
    if k == "dsp0":
        return 0xC1 * 65536 + row.opcode * 256
    if k == "dsp1":
        return 0xC1 * 65536 + row.opcode * 256 + a["param"]
    if k == "dsp2":
        return row.opcode * 65536 + a["param_1"] * 256 + a["param_2"]
    raise KeyError(k)


# ------------------------------------------------------------------ classification

UNKNOWN = ("unknown",)
EITHER = ("either",)


import functools


@functools.lru_cache(maxsize=1 << 16)
def classify16(v, dt):
    """('known', row, args) | ('unknown',) | ('either',) for a 16-bit forward frame under device type dt."""
    hi, lo = v // 256, v % 256
    addr = A.gear_address(v)
    idx = index()
    if addr is not None:
        if hi % 2 == 0:
            return ("known", idx_dapc(), {"addr": addr, "power": lo})
        hit = idx["std"].get((dt, lo))
        if hit is None:
            if dt != 0 and lo < 224:
                # a standard command after ENABLE DEVICE TYPE: the standard still defines it, the
                # library's table is keyed by device type - not judged either way
                return EITHER
            return UNKNOWN
        row, n = hit
        args = {"addr": addr}
        if n is not None:
            args["param"] = n
        return ("known", row, args)
    row = idx["spc"].get(hi)
    if row is None:
        return UNKNOWN
    if row.kind == "spc0":
        return ("known", row, {}) if lo == 0 else UNKNOWN
    if row.kind == "spc1":
        return ("known", row, {"param": lo})
    if row.kind == "spca":
        if lo == 0xFF:
            return ("known", row, {"address": "MASK"})
        if lo < 128 and lo % 2 == 1:
            return ("known", row, {"address": lo // 2})
        return UNKNOWN
    if row.kind == "init":
        if lo == 0:
            return ("known", row, {"broadcast": True, "address": None})
        if lo == 0xFF:
            return ("known", row, {"broadcast": False, "address": None})
        if lo < 128 and lo % 2 == 1:
            return ("known", row, {"broadcast": False, "address": lo // 2})
        return UNKNOWN
    return UNKNOWN


_dapc = None


def idx_dapc():
    global _dapc
    if _dapc is None:
        _dapc = [r for r in rows() if r.kind == "dapc"][0]
    return _dapc


@functools.lru_cache(maxsize=1 << 16)
def classify24(v):
    """Command frames only (bit 16 set); event frames are handled by models.events_ref."""
    b2, b1, b0 = v // 65536, (v // 256) % 256, v % 256
    assert b2 % 2 == 1
    idx = index()
    addr = A.device_address(v)
    if addr is not None:
        if b1 == 0xFE:
            row = idx["dev"].get(b0)
            return ("known", row, {"addr": addr}) if row else UNKNOWN
        row = idx["inst"].get(b0)
        if row is None:
            return UNKNOWN
        inst = A.instance(b1)
        if inst[0] == "ReservedInstance":
            return EITHER
        return ("known", row, {"addr": addr, "inst": inst})
    if b2 == 0xC1:
        row = idx["dsp"].get(b1)
        if row is None:
            return UNKNOWN
        if row.kind == "dsp0":
            return ("known", row, {}) if b0 == 0 else UNKNOWN
        return ("known", row, {"param": b0})
    row = idx["dsp2"].get(b2)
    if row is not None:
        return ("known", row, {"param_1": b1, "param_2": b0})
    return UNKNOWN
