"""Reference partition of DALI address and instance bytes, written from the standard.

IEC 62386-102 7.2.2 (16-bit forward frame, address byte = bits 15..8, bit 8 = selector):
    0AAAAAAS short address, 100AAAAS group, 1111110S broadcast unaddressed, 1111111S broadcast,
    101xxxxx / 110xxxxx special commands, 11100000..11111011 reserved -> no destination address.
IEC 62386-103 7.2.1 (24-bit forward frame, bit 16 = 1 for command frames, 0 for event messages):
    0AAAAAA1 short, 10GGGGG1 device group, 11111101 broadcast unaddressed, 11111111 broadcast,
    110xxxx1 special / 1110..11110 reserved -> none; event frames have no destination address.
IEC 62386-103 7.2.1.3 instance byte (bits 15..8):
    000nnnnn instance number, 100 instance group, 110 instance type, 001 feature on instance number,
    101 feature on instance group, 011 feature on instance type, 0xFC feature on device level,
    0xFD feature broadcast, 0xFE device, 0xFF instance broadcast, everything else reserved.
"""

GEAR_KINDS = ("GearShort", "GearGroup", "GearBroadcastUnaddressed", "GearBroadcast")
DEVICE_KINDS = ("DeviceShort", "DeviceGroup", "DeviceBroadcastUnaddressed", "DeviceBroadcast")


def gear_address(v16):
    """(kind, number) of a 16-bit frame value, or None."""
    top7 = (v16 // 512) % 128          # bits 15..9
    if top7 < 64:
        return ("GearShort", top7)
    if 64 <= top7 < 80:
        return ("GearGroup", top7 - 64)
    if top7 == 126:
        return ("GearBroadcastUnaddressed", None)
    if top7 == 127:
        return ("GearBroadcast", None)
    return None


def device_address(v24):
    if (v24 // 65536) % 2 == 0:        # bit 16 clear: event message
        return None
    top7 = (v24 // 131072) % 128       # bits 23..17
    if top7 < 64:
        return ("DeviceShort", top7)
    if 64 <= top7 < 96:
        return ("DeviceGroup", top7 - 64)
    if top7 == 126:
        return ("DeviceBroadcastUnaddressed", None)
    if top7 == 127:
        return ("DeviceBroadcast", None)
    return None


def gear_field(kind, number):
    """Value of bits 15..9 for an address."""
    return {"GearShort": lambda n: n, "GearGroup": lambda n: 64 + n,
            "GearBroadcastUnaddressed": lambda n: 126, "GearBroadcast": lambda n: 127}[kind](number)


def device_field(kind, number):
    return {"DeviceShort": lambda n: n, "DeviceGroup": lambda n: 64 + n,
            "DeviceBroadcastUnaddressed": lambda n: 126, "DeviceBroadcast": lambda n: 127}[kind](number)


_INST_FLAGS = {0: "InstanceNumber", 4: "InstanceGroup", 6: "InstanceType", 1: "FeatureInstanceNumber",
               5: "FeatureInstanceGroup", 3: "FeatureInstanceType"}
_INST_SPECIAL = {0xFC: "FeatureDevice", 0xFD: "FeatureInstanceBroadcast", 0xFE: "Device", 0xFF: "InstanceBroadcast"}


def instance(byte):
    """(kind, number) for every instance byte 0..255."""
    if byte in _INST_SPECIAL:
        return (_INST_SPECIAL[byte], None)
    flags = byte // 32
    if flags in _INST_FLAGS:
        return (_INST_FLAGS[flags], byte % 32)
    return ("ReservedInstance", byte)


def instance_byte(kind, number):
    for b, k in _INST_SPECIAL.items():
        if k == kind:
            return b
    for fl, k in _INST_FLAGS.items():
        if k == kind:
            return fl * 32 + number
    if kind == "ReservedInstance":
        return number
    raise KeyError(kind)


def describe(obj):
    """(kind, number) of a library address / instance object, by its public attributes."""
    k = type(obj).__name__
    if hasattr(obj, "address"):
        return (k, obj.address)
    if hasattr(obj, "group"):
        return (k, obj.group)
    if k in ("InstanceNumber", "InstanceGroup", "InstanceType", "FeatureInstanceNumber",
             "FeatureInstanceGroup", "FeatureInstanceType", "ReservedInstance"):
        return (k, obj.value)
    return (k, None)


def all_gear(address):
    out = [address.GearShort(a) for a in range(64)] + [address.GearGroup(g) for g in range(16)]
    out += [address.GearBroadcastUnaddressed(), address.GearBroadcast()]
    return out


def all_device(address):
    out = [address.DeviceShort(a) for a in range(64)] + [address.DeviceGroup(g) for g in range(32)]
    out += [address.DeviceBroadcastUnaddressed(), address.DeviceBroadcast()]
    return out


def all_instances(address, reserved=True):
    out = []
    for cls in ("InstanceNumber", "InstanceGroup", "InstanceType", "FeatureInstanceNumber",
                "FeatureInstanceGroup", "FeatureInstanceType"):
        out += [getattr(address, cls)(n) for n in range(32)]
    out += [address.FeatureDevice(), address.FeatureInstanceBroadcast(), address.Device(),
            address.InstanceBroadcast()]
    if reserved:
        out += [address.ReservedInstance(b) for b in range(256) if instance(b)[0] == "ReservedInstance"]
    return out
