"""One shard in one fresh process: python -m vlib.worker <PROP> <in.json> <out.json>."""
import faulthandler
import importlib
import json
import os
import sys
import time
import traceback


def main():
    prop, infile, outfile = sys.argv[1:4]
    from vlib import common
    common.setup_paths()
    with open(infile) as fh:
        job = json.load(fh)
    watchdog = job.get("watchdog", 600)
    # A hang is reported as inconclusive by the parent (timeout); the dump helps debugging.
    faulthandler.dump_traceback_later(max(watchdog - 5, 5), exit=False)
    t0 = time.time()
    out = {"ok": False}
    try:
        common.import_repo()
        # Which of the library's packages an application imports first is its own business: shards alternate between the four
        # orders, so that registries filled at import time (command tables, bit-name tables, event classes) are exercised in
        # each.  "lazy" leaves the order to whatever the check imports first.
        order = ("gear-first", "device-first", "lazy", "memory-first")[(job.get("index", 0) + job["seed"]) % 4]
        try:
            if order == "gear-first":
                importlib.import_module("dali.gear"), importlib.import_module("dali.device")
            elif order == "device-first":
                importlib.import_module("dali.device"), importlib.import_module("dali.gear")
            elif order == "memory-first":
                importlib.import_module("dali.memory"), importlib.import_module("dali.sequences"), importlib.import_module("dali.gear.general")
        except Exception:
            order = "lazy (package import failed)"
        mod = importlib.import_module("props." + prop.lower())
        from vlib import contracts
        if job.get("contracts", getattr(mod, "CONTRACTS", "icontract")) != "none":
            contracts.install(job.get("contracts", getattr(mod, "CONTRACTS", "icontract")))
        from vlib import cover
        covering = os.environ.get("VERIF_COVER", "1") != "0" and cover.start(prop.upper())
        res = mod.run_shard(job["desc"], job["tier"], job["seed"])
        reached = cover.stop() if covering else None
        from vlib import contracts as c2
        res.contracts.update(c2.counts())
        for v in c2.violations():
            res.violation(v["key"], v["what"], v["witness"])
        out = res.to_json()
        out["import_order"] = order
        out["cover"] = reached
        out["ok"] = True
    except BaseException as e:  # harness failure, not a verdict
        out = {"ok": False, "error": "".join(traceback.format_exception(type(e), e, e.__traceback__))[-4000:]}
    out["wall_s"] = time.time() - t0
    tmp = outfile + ".tmp"
    with open(tmp, "w") as fh:
        json.dump(out, fh)
    os.replace(tmp, outfile)


if __name__ == "__main__":
    main()
