"""Parent process of a check: plans shards, runs them in fresh subprocesses, merges, decides.

Exit codes: 0 held on everything explored (known findings are printed as KNOWN-FINDING lines),
            1 violation (a line `VIOLATION property=<id> replay=<path>` per distinct mechanism),
            2 inconclusive (watchdog, harness failure, deciding monitor never reached).
"""
import argparse
import concurrent.futures
import importlib
import json
import os
import shutil
import subprocess
import sys
import time

from vlib import common

ROOT = common.VERIF_ROOT
PY = "/venv/bin/python"


def load_known(prop):
    path = os.path.join(ROOT, "known_findings.json")
    if not os.path.exists(path):
        return {}
    with open(path) as fh:
        data = json.load(fh)
    return {e["key"]: e for e in data.get("findings", [])
            if e.get("property") == prop and e.get("status") == "known"}


def run_one(prop, idx, desc, tier, seed, workdir, timeout, mod):
    infile = os.path.join(workdir, f"in{idx}.json")
    outfile = os.path.join(workdir, f"out{idx}.json")
    with open(infile, "w") as fh:
        json.dump({"desc": desc, "tier": tier, "seed": seed, "watchdog": timeout, "index": idx}, fh)
    cmd = [PY, "-B"]
    if getattr(mod, "DEVMODE", False):
        cmd += ["-X", "dev", "-W", "error::RuntimeWarning"]
    cmd += ["-m", "vlib.worker", prop, infile, outfile]
    env = dict(os.environ)
    env["PYTHONHASHSEED"] = "0"
    env["PYTHONDONTWRITEBYTECODE"] = "1"
    env["PYTHONPATH"] = ROOT
    if getattr(mod, "DEVMODE", False):
        env["PYTHONASYNCIODEBUG"] = "1"
    t0 = time.time()
    try:
        p = subprocess.run(cmd, cwd=ROOT, env=env, timeout=timeout,
                           stdout=subprocess.PIPE, stderr=subprocess.PIPE)
        err = p.stderr.decode(errors="replace")[-3000:]
        rc = p.returncode
    except subprocess.TimeoutExpired as e:
        return {"ok": False, "error": f"watchdog: shard {idx} exceeded {timeout}s (inconclusive)",
                "stderr": (e.stderr or b"").decode(errors="replace")[-3000:], "wall_s": time.time() - t0}
    if not os.path.exists(outfile):
        return {"ok": False, "error": f"shard {idx} wrote no result (rc={rc})", "stderr": err,
                "wall_s": time.time() - t0}
    with open(outfile) as fh:
        out = json.load(fh)
    out["stderr"] = err
    return out


def main(argv=None):
    ap = argparse.ArgumentParser()
    ap.add_argument("prop")
    ap.add_argument("--tier", default=os.environ.get("VERIF_TIER", "quick"), choices=["quick", "thorough"])
    ap.add_argument("--replay")
    ap.add_argument("--jobs", type=int, default=int(os.environ.get("VERIF_JOBS", "16")))
    args = ap.parse_args(argv)
    prop = args.prop.upper()
    try:
        seed = int(os.environ.get("VERIF_SEED", "0"))
    except ValueError:
        seed = 0
    common.setup_paths()
    mod = importlib.import_module("props." + prop.lower())
    t0 = time.time()

    if args.replay:
        with open(args.replay) as fh:
            rep = json.load(fh)
        shards = [{"replay": rep}]
        tier = rep.get("tier", args.tier)
    else:
        tier = args.tier
        shards = mod.plan(tier, seed)

    workdir = os.path.join(ROOT, ".work", f"{prop}-{os.getpid()}")
    os.makedirs(workdir, exist_ok=True)
    timeout = getattr(mod, "SHARD_TIMEOUT", {}).get(tier, 900)
    results = []
    try:
        with concurrent.futures.ThreadPoolExecutor(max_workers=args.jobs) as ex:
            futs = [ex.submit(run_one, prop, i, d, tier, seed, workdir, timeout, mod)
                    for i, d in enumerate(shards)]
            for f in futs:
                results.append(f.result())
    finally:
        shutil.rmtree(workdir, ignore_errors=True)

    return decide(prop, mod, tier, seed, shards, results, time.time() - t0, replaying=bool(args.replay))


def decide(prop, mod, tier, seed, shards, results, wall, replaying=False):
    inconclusive = []
    evaluations = 0
    digests = set()
    distinct_add = 0
    anchors = {}
    contracts = {}
    samples = []
    observations = {}
    extra = {}
    vio = {}
    vio_counts = {}
    reached = {}
    covered = False
    for i, r in enumerate(results):
        if not r.get("ok"):
            inconclusive.append(f"shard {i}: {r.get('error', 'failed')}\n{r.get('stderr', '')}")
            continue
        evaluations += r["evaluations"]
        digests.update(r["digests"])
        distinct_add += r["distinct"]
        for k, v in r["anchors"].items():
            anchors[k] = anchors.get(k, 0) + v
        for k, v in r["contracts"].items():
            contracts[k] = contracts.get(k, 0) + v
        for s in r["samples"]:
            if len(samples) < 8:
                samples.append(s)
        for k, o in r["observations"].items():
            t = observations.setdefault(k, {"count": 0, "example": o.get("example")})
            t["count"] += o["count"]
        for k, v in r["extra"].items():
            if isinstance(v, (int, float)):
                extra[k] = extra.get(k, 0) + v
            elif isinstance(v, list):
                extra.setdefault(k, [])
                for x in v:
                    if x not in extra[k] and len(extra[k]) < 200:
                        extra[k].append(x)
            else:
                extra[k] = v
        if r.get("import_order"):
            extra["import_orders"] = extra.get("import_orders") or {}
            extra["import_orders"][r["import_order"]] = extra["import_orders"].get(r["import_order"], 0) + 1
        if r.get("cover") is not None:
            covered = True
            for f, lines in r["cover"].items():
                reached.setdefault(f, set()).update(lines)
        for v in r["violations"]:
            vio.setdefault(v["key"], []).append(v)
        for k, n in r.get("violation_counts", {}).items():
            vio_counts[k] = vio_counts.get(k, 0) + n
        inconclusive.extend(r.get("inconclusive", []))
        if r.get("stderr") and getattr(mod, "STDERR_IS_SIGNAL", False):
            inconclusive.append(f"shard {i} wrote to stderr: {r['stderr'][-500:]}")

    distinct = len(digests) + distinct_add

    # reach accounting: deciding anchors and contracts must have been exercised
    if not replaying:
        for a in getattr(mod, "REQUIRED_ANCHORS", {}).get(tier, getattr(mod, "REQUIRED_ANCHORS", {}).get("all", [])):
            if anchors.get(a, 0) + contracts.get(a, 0) + (extra.get(a, 0) if isinstance(extra.get(a, 0), int) else 0) <= 0:
                inconclusive.append(f"deciding monitor/anchor '{a}' was never reached")
        if evaluations == 0:
            inconclusive.append("no case was evaluated")

    # optional cross-shard oracle (e.g. the same block decoded in different contexts by different processes)
    if hasattr(mod, "cross_check") and not replaying:
        try:
            for v in mod.cross_check(extra):
                vio.setdefault(v["key"], []).append(v)
                vio_counts[v["key"]] = vio_counts.get(v["key"], 0) + 1
        except Exception as e:      # noqa
            inconclusive.append(f"cross_check failed: {e!r}")

    known = load_known(prop)
    new_keys = [k for k in vio if k not in known]
    known_keys = [k for k in vio if k in known]

    evdir = os.environ.get("VERIF_EVIDENCE_DIR") or os.path.join(ROOT, "evidence")
    repdir = os.environ.get("VERIF_REPLAY_DIR") or os.path.join(ROOT, "replays")
    os.makedirs(evdir, exist_ok=True)
    os.makedirs(repdir, exist_ok=True)
    replay_paths = {}
    if not replaying:
        # witnesses of earlier runs of this property are stale
        for fn in os.listdir(repdir):
            if fn.startswith(prop + "-") and fn.endswith(".json"):
                try:
                    os.remove(os.path.join(repdir, fn))
                except OSError:
                    pass
    for k in new_keys:
        safe = "".join(ch if ch.isalnum() or ch in "-_." else "_" for ch in k)[:80]
        path = os.path.join(repdir, f"{prop}-{safe}.json")
        with open(path, "w") as fh:
            json.dump({"property": prop, "key": k, "tier": tier, "seed": seed,
                       "count": vio_counts.get(k, len(vio[k])),
                       "what": vio[k][0]["what"], "witnesses": vio[k]}, fh, indent=1, default=repr)
        replay_paths[k] = path

    cov = {
        "evaluations": evaluations,
        "distinct_nontrivial": distinct,
        "rule": getattr(mod, "RULE", ""),
        "samples": samples or ["(no sample recorded)"],
        "exhaustive": bool(getattr(mod, "EXHAUSTIVE", {}).get(tier, False)) and not inconclusive,
        "shards": len(shards),
        "anchors_hit": anchors,
        "contract_evaluations": contracts,
        "observations_not_judged": observations,
        "known_findings_seen": {k: vio_counts.get(k, 0) for k in known_keys},
        "new_violation_keys": {k: vio_counts.get(k, 0) for k in new_keys},
        "inconclusive": inconclusive[:10],
    }
    cov.update(extra)
    if covered:
        try:
            from vlib import cover
            cov["anchor_reach"] = cover.report(prop, reached)
        except Exception as e:      # noqa - reach accounting is informative only
            cov["anchor_reach"] = [f"not available: {e!r}"]
    ev = {
        "property_id": prop,
        "tier": tier,
        "seed": seed,
        "level": getattr(mod, "LEVEL", "exploration"),
        "coverage": cov,
        "assumptions": list(getattr(mod, "ASSUMPTIONS", [])),
        "wall_s": round(wall, 2),
        "violations": sum(vio_counts.get(k, 0) for k in new_keys),
    }
    if not replaying:
        with open(os.path.join(evdir, f"{prop}.json"), "w") as fh:
            json.dump(ev, fh, indent=1, default=repr)

    print(f"[{prop}] tier={tier} seed={seed} shards={len(shards)} evaluations={evaluations} "
          f"distinct={distinct} wall={wall:.1f}s")
    if anchors:
        print(f"[{prop}] anchors: " + ", ".join(f"{k}={v}" for k, v in sorted(anchors.items())))
    if isinstance(cov.get("anchor_reach"), list) and cov["anchor_reach"] and isinstance(cov["anchor_reach"][0], dict):
        tot = sum(a["statement_lines"] for a in cov["anchor_reach"] if a["name"] != "(whole file)")
        got = sum(a["reached"] for a in cov["anchor_reach"] if a["name"] != "(whole file)")
        print(f"[{prop}] anchored statement lines reached by the workload: {got}/{tot}")
    if contracts:
        print(f"[{prop}] contract evaluations: " + ", ".join(f"{k}={v}" for k, v in sorted(contracts.items())))
    for k, o in sorted(observations.items()):
        print(f"[{prop}] observation (not judged) {k}: {o['count']}x e.g. {o.get('example')}")
    # every listed finding of this property is printed, whether or not this run's workload met it ("seen 0x": listed, not
    # reproduced by this tier / seed)
    for k in sorted(known):
        print(f"KNOWN-FINDING: property={prop} {known[k]['what']} [{k}; seen {vio_counts.get(k, 0)}x]")
    for k in new_keys:
        print(f"[{prop}] violated: {k}: {vio[k][0]['what']} ({vio_counts.get(k, 0)}x)")
        print(f"VIOLATION property={prop} replay={replay_paths[k]}")
    if new_keys:
        return 1
    if inconclusive:
        for m in inconclusive[:10]:
            print(f"[{prop}] INCONCLUSIVE: {m}")
        return 2
    print(f"[{prop}] held on everything explored")
    return 0


if __name__ == "__main__":
    sys.exit(main())
