"""Virtual-time asyncio event loop.

VLoop is a SelectorEventLoop whose clock is a `World` object and whose selector never sleeps: when
nothing is ready it advances the world's clock to the earlier of the loop's next timer and the
world's next scheduled event.  If there is neither, every task is blocked for ever: select() raises
Stalled, which is how hangs are decided (in virtual time, never by wall clock).
"""
import asyncio
import heapq
import selectors


class Stalled(Exception):
    """Nothing can ever happen again: all tasks are blocked with no timer and no device event pending."""


class World:
    def __init__(self):
        self.now = 0.0
        self._events = []
        self._n = 0
        self.devices = []          # objects with .readable(fd) -> bool and .fds
        self.horizon = 3600.0      # virtual seconds; beyond this the run is cut off (inconclusive, not a verdict)

    def at(self, t, fn):
        self._n += 1
        heapq.heappush(self._events, (max(t, self.now), self._n, fn))

    def after(self, dt, fn):
        self.at(self.now + dt, fn)

    def next_time(self):
        return self._events[0][0] if self._events else None

    def run_due(self):
        ran = False
        while self._events and self._events[0][0] <= self.now + 1e-12:
            t, n, fn = heapq.heappop(self._events)
            fn()
            ran = True
        return ran

    def readable(self, fd):
        return any(d.readable(fd) for d in self.devices)


class FakeSelector(selectors.BaseSelector):
    def __init__(self, world):
        self.world = world
        self._keys = {}

    def register(self, fileobj, events, data=None):
        fd = fileobj if isinstance(fileobj, int) else fileobj.fileno()
        key = selectors.SelectorKey(fileobj, fd, events, data)
        self._keys[fd] = key
        return key

    def unregister(self, fileobj):
        fd = fileobj if isinstance(fileobj, int) else fileobj.fileno()
        return self._keys.pop(fd)

    def modify(self, fileobj, events, data=None):
        self.unregister(fileobj)
        return self.register(fileobj, events, data)

    def get_map(self):
        return self._keys

    def get_key(self, fileobj):
        fd = fileobj if isinstance(fileobj, int) else fileobj.fileno()
        return self._keys[fd]

    def close(self):
        self._keys.clear()

    def _ready(self):
        out = []
        for fd, key in list(self._keys.items()):
            if key.events & selectors.EVENT_READ and self.world.readable(fd):
                out.append((key, selectors.EVENT_READ))
        return out

    def select(self, timeout=None):
        w = self.world
        w.run_due()
        ready = self._ready()
        if ready:
            return ready
        nxt = w.next_time()
        if timeout is None:
            if nxt is None:
                raise Stalled()
            w.now = max(w.now, nxt)
        elif timeout <= 0:
            return []
        else:
            target = w.now + timeout
            if nxt is not None and nxt < target:
                w.now = max(w.now, nxt)
            else:
                w.now = target
        if w.now > w.horizon:
            raise Stalled()
        w.run_due()
        return self._ready()


class ListenerError(Exception):
    """Raised on purpose by the harness' misbehaving listeners; not an error of the driver when it surfaces in the loop's
    exception handler (that is where `call_soon` callbacks that raise end up)."""


class VLoop(asyncio.SelectorEventLoop):
    def __init__(self, world):
        self.world = world
        super().__init__(FakeSelector(world))
        self.errors = []
        self.set_exception_handler(self._on_error)

    def time(self):
        return self.world.now

    def _on_error(self, loop, context):
        exc = context.get("exception")
        if isinstance(exc, ListenerError):
            self.listener_errors = getattr(self, "listener_errors", 0) + 1
            return
        self.errors.append({"message": context.get("message"), "exception": repr(exc)})


class CountingTask(asyncio.tasks._PyTask):
    """Pure-Python task that counts its steps and can be cancelled at its k-th step."""

    def __init__(self, coro, *, loop=None, name=None, context=None, cancel_at=None, **kw):
        self.steps = 0
        self.cancel_at = cancel_at
        self.cancelled_at = None           # loop time of the first cancel() request
        super().__init__(coro, loop=loop, name=name, context=context)

    def external_cancel(self):
        """Cancellation requested by the harness (not the task's own timeouts, which also go through cancel())."""
        if self.cancelled_at is None and not self.done():
            self.cancelled_at = self._loop.time()
        return self.cancel()

    def _Task__step(self, exc=None):
        self.steps += 1
        if self.cancel_at is not None and self.steps == self.cancel_at and exc is None and not self.done():
            self.cancel_at = None
            self.external_cancel()
            # the cancellation is delivered by the step scheduled by cancel() (or by this one if nothing is awaited)
        return super()._Task__step(exc)


def run(world, main_factory, on_stall=None):
    """Run `main_factory(loop)` (a coroutine) to completion in a fresh VLoop.

    Returns (result, loop, stalled) - result is the coroutine's result or the exception it raised."""
    loop = VLoop(world)
    asyncio.set_event_loop(loop)
    stalled = False
    result = None
    main = loop.create_task(main_factory(loop))
    try:
        loop.run_until_complete(main)
        result = main.result() if not main.cancelled() else asyncio.CancelledError()
    except Stalled:
        stalled = True
    except BaseException as e:      # noqa - returned to the caller
        result = e
    return result, loop, stalled


def finish(loop):
    """Cancel what is left and close the loop (keeps -X dev quiet about pending tasks)."""
    try:
        pending = [t for t in asyncio.all_tasks(loop) if not t.done()]
        for t in pending:
            t.cancel()
        if pending:
            try:
                loop.run_until_complete(asyncio.gather(*pending, return_exceptions=True))
            except BaseException:
                pass
    finally:
        try:
            loop.close()
        except Exception:
            pass
        asyncio.set_event_loop(None)
