"""Runtime contracts bound onto the real library functions.

Two installation modes evaluate the *same* predicate functions:
  "icontract": icontract.ensure / icontract.snapshot decorators re-bound on the class attributes
  "light":     thin counting wrappers (for shards that perform tens of millions of calls)
A failing predicate is recorded (never raised) so that it cannot change the behaviour it observes.
Every predicate counts its evaluations; zero evaluations is reported by the runner as inconclusive.
"""
import functools

_counts = {}
_violations = []
_installed = None


def counts():
    return dict(_counts)


def violations():
    return list(_violations)


def _count(name):
    _counts[name] = _counts.get(name, 0) + 1


def _fail(name, what, witness):
    if sum(1 for v in _violations if v["key"] == "contract/" + name) < 3:
        _violations.append({"key": "contract/" + name, "what": what, "witness": witness})


# ---------------------------------------------------------------- predicates

def _w(fr):
    """(width, value) through the public API only (len() and as_integer): the contracts must not depend on how a frame stores
    its bits."""
    return len(fr), fr.as_integer


def _frame_ok(fr):
    b, d = _w(fr)
    return isinstance(d, int) and isinstance(b, int) and b >= 1 and 0 <= d < (1 << b)


def frame_init_post(self):
    _count("Frame.__init__")
    if not _frame_ok(self):
        _fail("Frame.__init__", "frame constructed outside 0 <= value < 2**width",
              {"bits": repr(len(self)), "data": repr(self.as_integer)})
    return True


def _bits_of(self):
    return len(self)


def frame_setitem_post(self, key, value, OLD):
    _count("Frame.__setitem__")
    if len(self) != OLD.bits or not _frame_ok(self):
        _fail("Frame.__setitem__", "write left the frame outside its width or changed its width",
              {"bits_before": OLD.bits, "bits": repr(len(self)), "data": repr(self.as_integer),
               "key": repr(key), "value": repr(value)})
    return True


def _lens_of(self, other):
    try:
        return _w(self) + _w(other)
    except Exception:
        return None


def frame_add_post(self, other, result, OLD):
    _count("Frame.__add__")
    ok = _frame_ok(result)
    if OLD.pre is not None:
        sb, sd, ob, od = OLD.pre
        ok = ok and len(result) == sb + ob and _w(self) == (sb, sd) and _w(other) == (ob, od)
    if not ok:
        _fail("Frame.__add__", "concatenation result has wrong width / operands changed",
              {"pre": repr(OLD.pre), "result": repr(_w(result))})
    return True


def _frame_state(f):
    try:
        return _w(f)
    except Exception:
        return None


def response_init_post(self, val):
    _count("Response.__init__")
    if self.raw_value is not val:
        _fail("Response.__init__", "raw_value is not the object passed in",
              {"cls": type(self).__name__, "val": repr(val)})
    return True


# ------------------------------------------------- wrappers for raise paths

def _wrap_setitem_raise(orig):
    @functools.wraps(orig)
    def setitem(self, key, value):
        pre = _w(self)
        try:
            return orig(self, key, value)
        except BaseException:
            _count("Frame.__setitem__/raise")
            if _w(self) != pre:
                _fail("Frame.__setitem__/raise", "a rejected write modified the frame",
                      {"pre": repr(pre), "post": repr(_w(self)),
                       "key": repr(key), "value": repr(value)})
            raise
    return setitem


def _wrap_add_to_frame(orig, name):
    @functools.wraps(orig)
    def add_to_frame(self, f):
        pre = _frame_state(f)
        try:
            r = orig(self, f)
        except BaseException:
            _count(name + "/raise")
            if _frame_state(f) != pre:
                _fail(name + "/raise", "add_to_frame raised but modified the frame",
                      {"obj": repr(self), "pre": repr(pre), "post": repr(_frame_state(f))})
            raise
        _count(name)
        post = _frame_state(f)
        if pre is not None and post is not None and (post[0] != pre[0] or not _frame_ok(f)):
            _fail(name, "add_to_frame changed the frame width",
                  {"obj": repr(self), "pre": repr(pre), "post": repr(post)})
        return r
    return add_to_frame


def _light_post(orig, post, snap=None, with_result=False):
    """Evaluate an icontract-style postcondition with a plain wrapper."""
    class _Old:
        pass

    if snap is None and not with_result:
        @functools.wraps(orig)
        def w(self, *a, **k):
            r = orig(self, *a, **k)
            post(self, *a, **k)
            return r
        return w

    @functools.wraps(orig)
    def w2(self, *a, **k):
        old = _Old()
        for nm, fn, nargs in snap or ():
            setattr(old, nm, fn(self, *a[:nargs]))
        r = orig(self, *a, **k)
        if with_result:
            post(self, *a, r, old)
        else:
            post(self, *a, old)
        return r
    return w2


def install(mode="icontract"):
    """Bind the contracts on the library's classes. Idempotent per process."""
    global _installed
    if _installed or mode == "none":
        return
    from dali import frame, address, command
    F = frame.Frame

    class ContractBroken(Exception):
        pass

    # raise-path wrappers go innermost so that the icontract layer sees the same function contract
    F.__setitem__ = _wrap_setitem_raise(F.__setitem__)

    if mode == "icontract":
        import icontract
        F.__init__ = icontract.ensure(frame_init_post, error=ContractBroken)(F.__init__)
        F.__setitem__ = icontract.snapshot(_bits_of, name="bits")(
            icontract.ensure(frame_setitem_post, error=ContractBroken)(F.__setitem__))
        F.__add__ = icontract.snapshot(_lens_of, name="pre")(
            icontract.ensure(frame_add_post, error=ContractBroken)(F.__add__))
        command.Response.__init__ = icontract.ensure(response_init_post, error=ContractBroken)(
            command.Response.__init__)
    else:
        F.__init__ = _light_post(F.__init__, lambda self, *a, **k: frame_init_post(self))
        F.__setitem__ = _light_post(F.__setitem__, frame_setitem_post, snap=[("bits", _bits_of, 0)])
        F.__add__ = _light_post(F.__add__, frame_add_post, snap=[("pre", _lens_of, 1)], with_result=True)
        command.Response.__init__ = _light_post(command.Response.__init__, response_init_post)

    # add_to_frame of every address / instance kind (defined per subclass)
    seen = set()
    stack = [address.Address, address.Instance]
    while stack:
        c = stack.pop()
        stack.extend(c.__subclasses__())
        fn = c.__dict__.get("add_to_frame")
        if fn is not None and id(fn) not in seen:
            w = _wrap_add_to_frame(fn, "add_to_frame")
            seen.add(id(w))
            c.add_to_frame = w
    _installed = mode
