"""Line reach of the code a property is anchored in, measured while the workload runs.

sys.monitoring LINE events with DISABLE after the first hit of each location: every (code object, line) costs one
callback per process, so the monitor is always on.  The worker records which statement lines of the anchored
files were executed; the parent merges the shards and reports, per anchored range of properties.jsonl, how many
statement-start lines the workload reached and which it never did.  An unreached anchored line is not a verdict - it
tells the reader (and the author of the workload) what the monitors did not observe.
"""
import ast
import json
import os
import re
import sys

TOOL = 3          # a free tool id (0 debugger, 1 coverage, 2 profiler, 5 optimizer are reserved names)
_hits = {}
_targets = {}     # absolute filename -> repo-relative name


def repo_root():
    return os.environ.get("VERIF_REPO", "/repo")


def anchors_of(prop):
    """[(relative file, first line, last line, label)] from properties.jsonl (mechanism + state entries with ranges)."""
    here = os.path.dirname(os.path.dirname(os.path.abspath(__file__)))
    out = []
    files = []
    with open(os.path.join(here, "properties.jsonl")) as fh:
        for ln in fh:
            d = json.loads(ln)
            if d["id"] != prop:
                continue
            a = d.get("anchors", {})
            files = list(a.get("files", []))
            for ent in list(a.get("mechanism", [])) + list(a.get("state", [])):
                where = ent.get("where", "")
                m = re.match(r"([\w/.]+\.py):([\d,\-\s]+)", where)
                if not m:
                    continue
                for part in m.group(2).split(","):
                    part = part.strip()
                    if not part:
                        continue
                    lo, _, hi = part.partition("-")
                    try:
                        out.append((m.group(1), int(lo), int(hi or lo), ent.get("name", "")))
                    except ValueError:
                        pass
    for f in files:
        if not any(o[0] == f for o in out):
            out.append((f, 1, 10 ** 9, "(whole file)"))
    return out


def start(prop):
    if not hasattr(sys, "monitoring"):
        return False
    root = repo_root()
    for f in {a[0] for a in anchors_of(prop)}:
        _targets[os.path.realpath(os.path.join(root, f))] = f
    if not _targets:
        return False
    mon = sys.monitoring
    try:
        mon.use_tool_id(TOOL, "verif-cover")
    except ValueError:
        return False

    def on_line(code, line):
        rel = _targets.get(code.co_filename)
        if rel is None:
            rp = os.path.realpath(code.co_filename)
            rel = _targets.get(rp)
            if rel is not None:
                _targets[code.co_filename] = rel
        if rel is not None:
            _hits.setdefault(rel, set()).add(line)
        return mon.DISABLE

    mon.register_callback(TOOL, mon.events.LINE, on_line)
    mon.set_events(TOOL, mon.events.LINE)
    return True


def stop():
    if hasattr(sys, "monitoring"):
        try:
            sys.monitoring.set_events(TOOL, 0)
            sys.monitoring.free_tool_id(TOOL)
        except Exception:
            pass
    return {f: sorted(v) for f, v in _hits.items()}


def statement_lines(path):
    """{statement-start line: (first, last) line of the statement's own text} for statements inside functions.  A
    multi-line statement fires its LINE event on whichever of its lines holds the first instruction (a parenthesised
    `if (` fires on the line of the condition), so a statement counts as reached when any line of its span was hit; for
    compound statements the span is the header only.  Docstrings, def/class headers, imports, pass, global excluded;
    module- and class-level statements ran at import time, before the monitor starts."""
    with open(path) as fh:
        tree = ast.parse(fh.read())
    spans = {}

    def visit_function(fn):
        for sub in ast.walk(fn):
            if sub is fn or not isinstance(sub, ast.stmt):
                continue
            if isinstance(sub, (ast.FunctionDef, ast.AsyncFunctionDef, ast.ClassDef, ast.Import, ast.ImportFrom, ast.Global,
                                ast.Nonlocal, ast.Pass)):
                continue
            if isinstance(sub, ast.Expr) and isinstance(sub.value, ast.Constant) and isinstance(sub.value.value, str):
                continue
            lo = sub.lineno
            hi = getattr(sub, "end_lineno", lo) or lo
            body = getattr(sub, "body", None)
            if isinstance(body, list) and body and isinstance(body[0], ast.stmt):
                hi = max(lo, body[0].lineno - 1)
            spans[lo] = (lo, hi)
    for node in ast.walk(tree):
        if isinstance(node, (ast.FunctionDef, ast.AsyncFunctionDef)):
            visit_function(node)
    return spans


def _line_map(root, f):
    """Anchors quote line numbers of the pinned snapshot; later `fix:` commits shift lines.  Returns a function mapping a
    snapshot range to the corresponding range of the current file (identity when git / the snapshot is unavailable)."""
    import difflib
    import subprocess
    try:
        base = subprocess.run(["git", "-C", root, "rev-list", "--max-parents=0", "HEAD"], capture_output=True, text=True,
                              timeout=30).stdout.split()[0]
        old = subprocess.run(["git", "-C", root, "show", f"{base}:{f}"], capture_output=True, text=True, timeout=30)
        if old.returncode:
            raise RuntimeError
        old_lines = old.stdout.splitlines()
        with open(os.path.join(root, f)) as fh:
            new_lines = fh.read().splitlines()
    except Exception:
        return lambda lo, hi: (lo, hi)
    if old_lines == new_lines:
        return lambda lo, hi: (lo, hi)
    fwd = {}
    for a, b, n in difflib.SequenceMatcher(None, old_lines, new_lines, autojunk=False).get_matching_blocks():
        for k in range(n):
            fwd[a + k + 1] = b + k + 1

    def rng(lo, hi):
        if hi >= 10 ** 9:
            return lo, hi
        los = [fwd[x] for x in range(lo, hi + 1) if x in fwd]
        if not los:
            return lo, hi
        return min(los), max(los)
    return rng


def report(prop, merged):
    """merged: {relative file: set(lines)} -> list of per-anchor records for the evidence file."""
    root = repo_root()
    out = []
    cache = {}
    maps = {}
    for f, lo, hi, label in anchors_of(prop):
        path = os.path.join(root, f)
        if f not in cache:
            try:
                cache[f] = statement_lines(path)
            except Exception:
                cache[f] = None
        st = cache[f]
        if st is None:
            continue
        if f not in maps:
            maps[f] = _line_map(root, f)
        lo0, hi0 = lo, hi
        lo, hi = maps[f](lo, hi)
        want = sorted(x for x in st if lo <= x <= hi)
        got = merged.get(f, set())
        missing = [x for x in want if not any(y in got for y in range(st[x][0], st[x][1] + 1))]
        out.append({"anchor": f"{f}:{lo0}-{hi0}" if hi < 10 ** 9 else f, "lines_now": [lo, hi] if hi < 10 ** 9 else None,
                    "name": label, "statement_lines": len(want),
                    "reached": len(want) - len(missing), "not_reached": missing[:60]})
    return out
