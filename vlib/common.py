"""Shared helpers for shard workers: repository import, digests, result records."""
import hashlib
import json
import os
import random
import sys
import traceback

VERIF_ROOT = os.path.dirname(os.path.dirname(os.path.abspath(__file__)))
REPO = os.path.realpath(os.environ.get("VERIF_REPO", "/repo"))


def setup_paths():
    """Put the repository under test first on sys.path, then /verif and its deps."""
    for p in (os.path.join(VERIF_ROOT, ".deps"), VERIF_ROOT, REPO):
        if p in sys.path:
            sys.path.remove(p)
        sys.path.insert(0, p)


def import_repo():
    setup_paths()
    import dali  # noqa
    f = os.path.realpath(dali.__file__)
    if not f.startswith(REPO + os.sep):
        raise RuntimeError(f"dali imported from {f}, expected under {REPO}")
    return dali


def digest(*parts):
    h = hashlib.blake2b(digest_size=8)
    for p in parts:
        h.update(repr(p).encode())
        h.update(b"\0")
    return h.hexdigest()


def rng(seed, *labels):
    return random.Random(":".join(str(x) for x in (seed,) + labels))


def short_tb(exc, limit=6):
    tb = traceback.format_exception(type(exc), exc, exc.__traceback__)
    return "".join(tb[-limit:])[-1500:]


def exc_name(e):
    return type(e).__name__


class Result:
    """Accumulates what one shard observed."""

    MAX_WITNESS_PER_KEY = 3
    MAX_SAMPLES = 6
    MAX_OBS = 40

    def __init__(self):
        self.evaluations = 0
        self.digests = set()
        self.distinct = 0
        self.violations = []
        self._vcount = {}
        self.anchors = {}
        self.contracts = {}
        self.samples = []
        self.observations = {}
        self.extra = {}
        self.inconclusive = []

    def violation(self, key, what, witness):
        n = self._vcount.get(key, 0) + 1
        self._vcount[key] = n
        if n <= self.MAX_WITNESS_PER_KEY:
            self.violations.append({"key": key, "what": what, "witness": witness})

    def observe(self, key, text=None):
        """Something worth reporting that the property does not judge."""
        o = self.observations.setdefault(key, {"count": 0, "example": text})
        o["count"] += 1

    def sample(self, s):
        if len(self.samples) < self.MAX_SAMPLES:
            self.samples.append(s)

    def hit(self, anchor, n=1):
        self.anchors[anchor] = self.anchors.get(anchor, 0) + n

    def add(self, name, n=1):
        self.extra[name] = self.extra.get(name, 0) + n

    def to_json(self):
        return {
            "evaluations": self.evaluations,
            "digests": sorted(self.digests),
            "distinct": self.distinct,
            "violations": self.violations,
            "violation_counts": self._vcount,
            "anchors": self.anchors,
            "contracts": self.contracts,
            "samples": self.samples,
            "observations": self.observations,
            "extra": self.extra,
            "inconclusive": self.inconclusive,
        }


def jsonable(x):
    try:
        json.dumps(x)
        return x
    except Exception:
        return repr(x)
