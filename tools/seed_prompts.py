#!/usr/bin/env python3
"""Write the task files for a round of seeding sub-agents: tools/seed_prompts.py <suffix> <round-number-word> [ID ...]
The text handed to an agent contains the property as given in properties.jsonl, its scratch worktree, the rules, and one line per
change earlier rounds produced (so that it looks elsewhere) - nothing else from /verif."""
import json
import os
import sys

ROOT = os.path.dirname(os.path.dirname(os.path.abspath(__file__)))
OUT = "/tmp/wt/prompts"

HEAD = """You are helping test a verification framework for the Python library python-dali (IEC 62386 DALI lighting control). You have your own scratch git worktree of the library at {wt} (a checkout of the library's current HEAD). Work ONLY inside {wt} and write your deliverables to {wt}-out/ . Never touch /repo or /verif and do not read anything under /verif.

How to run things: the interpreter is /venv/bin/python. Always run with the worktree first on the path, e.g.
  cd {wt} && PYTHONPATH={wt} /venv/bin/python -B -m pytest -q -p no:cacheprovider dali/tests
(the existing suite: 110 tests pass; dali/driver/tests/test_unipi.py is known not to import and is not part of the baseline).
Check `PYTHONPATH={wt} /venv/bin/python -c "import dali; print(dali.__file__)"` prints a path under {wt}.

Here is a semantic property that the library is supposed to satisfy:

ID: {id}
Title: {title}
Statement: {statement}
Quantified over: {quant}
Why the existing tests cannot settle it: {why}
Code the property is anchored in: {files}

YOUR TASK: invent realistic changes to the library source (the kind of bug a maintainer could plausibly introduce: a refactoring slip, a "harmless" optimisation or caching, an off-by-one at an edge, a wrong constant for one rarely used case, two cooperating sites that each look fine alone) that BREAK this property while
  (a) the package still imports and all 110 existing tests in dali/tests still pass, unmodified, and
  (b) the breakage needs something specific to manifest - a particular unusual input or argument value, a particular multi-step sequence / history of operations, a particular interleaving or fault point - NOT something ordinary use or any obvious smoke test would expose at once. Prefer subtle over blatant; avoid changes that break a large fraction of inputs.
Do not edit tests. Do not add new files to the library; change existing source lines only.

Produce 3 DIFFERENT, independent changes (different mechanisms / code sites). For each change k = 1..3:
  1. make the edit in {wt}, run the existing suite to confirm it still passes (110 passed),
  2. save `git -C {wt} diff` as {wt}-out/patch{{k}}.diff,
  3. write {wt}-out/demo{{k}}.py : a small standalone program (run as `PYTHONPATH=<tree> /venv/bin/python -B demo{{k}}.py`) that exercises the library's public API, exits 0 and prints PASS on the unmodified tree, and exits 1 and prints FAIL (with the offending input/outcome) on the tree with patch k applied. Verify both outcomes yourself (save the diff to the patch file first, then `git -C {wt} checkout -- .` to get back to the clean tree and `git -C {wt} apply <patch>` to re-apply; do NOT use git stash - the stash is shared with other worktrees),
  4. reset the worktree to clean (`git -C {wt} checkout -- .`) before starting the next change.
Finally write {wt}-out/meta.json: a list with one object per change: {{"patch": "patch{{k}}.diff", "demo": "demo{{k}}.py", "property": "{id}", "summary": "...what was changed...", "needs": "...what specific input / sequence / schedule is needed for the violation to manifest...", "ran": "...commands you ran and their results (suite result with the patch, demo result with and without)..."}}.
Leave the worktree clean at the end. In your final message, list the files you wrote and one line per change.

IMPORTANT - {nprev} previous rounds already produced the following changes for this property; yours must be DIFFERENT in mechanism and code site (do not redo these, find new weak spots - other functions, other classes/drivers named in the anchor list, other kinds of trigger):
{earlier}

{closing}
"""

CLOSING = {
    "sixth": """This is the sixth round. Earlier rounds used: every obvious site, registries / caches / shared buffers, derived classes, positional arguments, one-shot iterators, second instances, thread races, state left by error paths, int-like and non-integral numbers, `+=`, frames changed in place, listeners that raise or unsubscribe themselves, close() of a sequence part-way, counters that wrap, whole-message reads, reports during a connection handshake. Look for what is still left, for example: (1) the generator / coroutine protocol itself (throw() into a sequence, a sequence re-used after StopIteration, `yield from` of sub-sequences, awaiting the same coroutine result twice, gather / wait_for / shield / TaskGroup around the library's coroutines); (2) Python object protocol corners the property's observable depends on (copy / deepcopy / pickle of frames, commands, addresses and responses followed by use; hash / eq consistency when used as dict keys or set members and then re-read; bool(), len(), iteration, comparison and ordering; str / repr / format with width specifiers; int-like via __index__; keyword-only versus positional; default mutable arguments); (3) what depends on ORDER OF IMPORT or of class definition (a module imported earlier or later, a subclass defined between two calls, reload); (4) gateway behaviours the protocol allows but no test produces (reports arriving in one read or split at an odd byte, duplicated or re-ordered reports, answers at the very edge of a time window, two outcome reports in one loop iteration, a reconnect while a sequence sleeps); (5) numeric and boundary corners not yet used (the largest and smallest legal value of EVERY field, not only the first; zero-length and maximum-length strings; values equal to a sentinel such as MASK, 0xFE, 0x7F, None-vs-0; signed / unsigned mix; byte order on the rarely used 3- and 4-byte paths); (6) option combinations (every pair of keyword options of one call). Changes must still be plausible maintenance edits, keep all 110 tests passing, and need something specific to manifest.""",
    "seventh": """This is the seventh round. Earlier rounds used (do not repeat): registries / caches / shared buffers, derived classes, positional arguments, one-shot iterators, second instances, thread races, state left by error paths, int-like and non-integral numbers, `+=`, frames changed in place, misbehaving listeners, close() of a sequence part-way, wrapping counters, whole-message reads, handshake-time reports, copy / pickle hooks (`__reduce__`), identity-versus-equality of strings, instance attributes shadowing class flags, order of import, enum `_missing_` hooks and enum containment, attributes memoised through the MRO, falsy slice steps, `__radd__`, unguarded `__repr__`, `bytes(int)`, flag objects accepted as values, the caller's own list consumed, hidden sortedness preconditions, hex-constant slips, errors swallowed through a new exception subclass, `%d` applied to objects, `range()` off-by-one on a selector, status-only reports, sequence numbers of configuration packets, device-id nibbles, signed 64-bit fields, callable-keyed registries, stale local aliases across a reconnect, swapped finally order, timeouts borrowed from another class, waiting on an event before every pop, `is False`, pushed-back lines, stale status reports. Look for what is still left, for example: (1) arithmetic and encoding on the rarely used paths (3- and 4-byte values, scale factors and exponents, sign extension, byte order of the middle byte, rounding versus truncation, `//` versus `>>` on negative numbers); (2) defaults and optional parameters (None versus omitted, a default computed once at import, keyword-only arguments silently ignored, `**kwargs` passed on or not); (3) resource accounting that leaks one unit per RARE event so that only the N-th occurrence fails (semaphore slots, sequence numbers, queue entries, registered callbacks, open connections); (4) the textual forms the property compares (`__str__` of commands, addresses, events: separators, hex versus decimal, names of flags); (5) class attribute versus instance attribute, multiple inheritance / MRO order, a `super()` call that skips a level, `__init_subclass__` ordering; (6) asymmetric equality (`a == b` versus `b == a` with subclasses, NotImplemented, comparisons with None or plain ints), `__hash__` lost by defining `__eq__`; (7) iteration order (dict / set order, sorted versus insertion order, reversed) where the property's observable depends on it; (8) clocks and timeouts (`loop.time()` versus `time.monotonic()`, timeouts that accumulate or are not reset across retries, zero and None timeouts, `reconnect_interval=0`, `reconnect_limit` hit exactly); (9) operating-system edge behaviour the drivers rely on (os.write writing fewer bytes than asked, BlockingIOError / InterruptedError on write, a read returning fewer bytes than a whole report, glob returning several paths or an unsorted list, connect() or disconnect() called twice, close() of a closed file); (10) two features that meet only in one command class (send-twice AND answer expected AND device type; 24-bit AND send-twice AND instance addressing). Changes must still be plausible maintenance edits, keep all 110 tests passing, and need something specific to manifest.""",
    "eighth": """This is the eighth round. Earlier rounds used (do not repeat): everything listed for the earlier rounds plus - repeated losses under a reconnect limit, counters never reset because an overriding method skips super(), unconfirmed frames written twice, busy loops on BlockingIOError, in-flight slots leaked by a transient write error, handshake write errors handled synchronously, error reports missing from a lookup table, reports with a stale sequence number dropped, device-type memory not cleared by 24-bit frames, deadlines inherited by the next pending command, answer deadlines taken before the confirmation, command locks narrowed to the write, flushes skipped inside transactions. Look for what is still left, for example: (1) the FIRST and the LAST of something (first command after connect, first after reconnect, the command during which the limit is reached, the 256th sequence number, the last byte of a buffer); (2) two independent driver INSTANCES or two event loops in one process (class-level state, module-level state, loop captured at construction time); (3) ordering between a callback and the state it reports (status reported before the state is updated, `connected` set before the handshake finished, traffic reported before the response is returned); (4) cleanup on the success path that differs from the failure path (a `finally` that runs too early with `return` inside `try`, a `break` that skips a release, `else` on loops); (5) exceptions of a type nobody expected (a `KeyboardInterrupt`-like BaseException, `GeneratorExit`, `asyncio.CancelledError` swallowed by `except Exception` in 3.7-style code, `StopIteration` inside a generator turning into RuntimeError); (6) numeric parameters at the gateway level (priority values, repeat counts, inter-frame times, frame length fields for 24-bit versus 16-bit, byte order of multi-byte fields in reports); (7) what the gateway reports for commands of OTHER masters interleaved with own commands (quirks, echoes, collisions, bus power failure reports). Changes must still be plausible maintenance edits, keep all 110 tests passing, and need something specific to manifest.""",
}


def main():
    suffix, word = sys.argv[1], sys.argv[2]
    ids = sys.argv[3:] or [f"C{n:02d}" for n in range(1, 21)]
    props = {json.loads(l)["id"]: json.loads(l) for l in open(os.path.join(ROOT, "properties.jsonl"))}
    os.makedirs(OUT, exist_ok=True)
    for pid in ids:
        p = props[pid]
        earlier = []
        for name in sorted(os.listdir(os.path.join(ROOT, "seeded"))):
            mp = os.path.join(ROOT, "seeded", name, "meta.json")
            if not os.path.exists(mp):
                continue
            m = json.load(open(mp))
            if m.get("property") == pid:
                earlier.append("- " + " ".join(str(m.get("summary", "")).split())[:260])
        wt = f"/tmp/wt/{pid}{suffix}"
        nprev = {"sixth": "five", "seventh": "six", "eighth": "seven"}.get(word, "several")
        txt = HEAD.format(wt=wt, id=pid, title=p["title"], statement=p["statement"], quant=p["quantifier"]["text"],
                          why=p["why_tests_cant"], files=", ".join(p["anchors"]["files"]), nprev=nprev,
                          earlier="\n".join(earlier), closing=CLOSING[word])
        open(os.path.join(OUT, f"{pid}{suffix}.txt"), "w").write(txt)
        print(pid, len(earlier), "earlier changes listed")


if __name__ == "__main__":
    main()
