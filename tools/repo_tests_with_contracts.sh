#!/bin/sh
# Runs the repository's own suite with the harness' contracts bound on Frame / Response / add_to_frame.
# A contract that fires here is either too strict or a defect the tests do not assert (none fires on the pinned tree).
cd "$(dirname "$0")/.." && ./setup.sh >/dev/null 2>&1
d=$(mktemp -d)
cat > "$d/conftest_contracts.py" <<'PY'
import sys, os
sys.path.insert(0, os.environ["VERIF_ROOT"]); sys.path.insert(0, os.path.join(os.environ["VERIF_ROOT"], ".deps"))
from vlib import contracts
contracts.install("icontract")
def pytest_sessionfinish(session, exitstatus):
    print("\nCONTRACT COUNTS", contracts.counts())
    print("CONTRACT VIOLATIONS", contracts.violations()[:5])
PY
repo=${VERIF_REPO:-/repo}
cd "$repo" && VERIF_ROOT="$OLDPWD" PYTHONPATH="$d:$repo" /venv/bin/python -B -m pytest -q -p no:cacheprovider -p conftest_contracts dali/tests
rc=$?
rm -rf "$d"
exit $rc
