#!/usr/bin/env python3
"""Regenerates MANIFEST.json from the per-property table below (kept here so it stays valid)."""
import json
import os

ROOT = os.path.dirname(os.path.dirname(os.path.abspath(__file__)))

CHECKS = {
    "C05": dict(
        cat="exploration",
        text="The real Frame class is driven through every single operation on every frame of width 1..6 "
             "(thorough 1..8; indices -1..w, written values -1..2**w) and through seeded random operation "
             "histories up to 256 bits; after each operation it is compared with a list-of-bits reference model, "
             "illegal operations must raise the documented class and leave the frame unchanged, and an icontract "
             "invariant 0 <= value < 2**width runs on every mutator. Exhaustive for small widths, sampled above.",
        note="Trusts the reference model (models/frame_ref.py) and the exception classes documented by the "
             "docstrings/tests of dali.frame.",
        tech="runtime monitoring: reference-model oracle + icontract invariants on the real Frame methods",
        ref="DESIGN.md §4 C05"),
}

PENDING_REASON = "check not built yet in this round (planned: see DESIGN.md §4); not claimed until its monitor runs"


def main():
    props = [json.loads(l)["id"] for l in open(os.path.join(ROOT, "properties.jsonl"))]
    checks = []
    for pid in props:
        c = CHECKS.get(pid)
        if not c:
            continue
        checks.append({
            "property_id": pid,
            "quick_cmd": f"./check {pid} --tier quick",
            "thorough_cmd": f"./check {pid} --tier thorough",
            "evidence_file": f"/verif/evidence/{pid}.json",
            "replay_cmd_template": f"./check {pid} --replay {{path}}",
            "engine": "vlib",
            "level_claimed": {"category": c["cat"], "text": c["text"], "design_ref": c["ref"]},
            "level_note": c["note"],
            "technique": c["tech"],
        })
    man = {
        "version": 1,
        "setup_cmd": "./setup.sh",
        "hooks": {
            "guard": "PYTHON_DALI_VERIF",
            "enable": "no in-repository hooks: monitors are attached from the harness (contracts re-bound on "
                      "classes, module-attribute shims, own event loop); the guard name is reserved",
            "baseline_off_cmd": "cd /repo && /venv/bin/python -m pytest -q -p no:cacheprovider --timeout=900 dali/tests",
            "source_commits": [],
            "add_only": True,
        },
        "engines": [{
            "name": "vlib",
            "path": "/verif/vlib",
            "serves_properties": [c["property_id"] for c in checks],
            "kind_free_text": "runtime monitoring harness: sharded workloads in fresh subprocesses against the "
                              "working tree, reference-model oracles, icontract contracts on the real functions, "
                              "virtual-time asyncio loop with gateway models, offline checkers over wire logs",
        }],
        "checks": checks,
        "not_applicable": [{"property_id": p, "reason": PENDING_REASON} for p in props if p not in CHECKS],
        "notes": "Exit 0 held / 1 VIOLATION / 2 inconclusive. Known findings: /verif/known_findings.json.",
    }
    with open(os.path.join(ROOT, "MANIFEST.json"), "w") as fh:
        json.dump(man, fh, indent=1)
        fh.write("\n")


if __name__ == "__main__":
    main()
