#!/usr/bin/env python3
"""Regenerates MANIFEST.json from the per-property table below (kept here so it stays valid)."""
import json
import os

ROOT = os.path.dirname(os.path.dirname(os.path.abspath(__file__)))

CHECKS = {
    "C17": dict(
        cat="fault_enumeration",
        text="In the virtual-time simulation: (A) the HID device vanishes (read error / EOF / write error) at an I/O instant of "
             "a fault-free base run incl. the handshake, returns never / before / after the reconnect limit, optionally a "
             "second time, with reconnect_limit None/0/1/3, exceptions on/off and 0-3 callers; (B) a caller is cancelled at "
             "each of its first 16 (thorough 40) task steps and 300 further sends follow (60 on the serial drivers); (C) the "
             "serial gateway stops confirming, stops answering, drops the second confirmation or goes silent, then recovers. "
             "Oracle: every send returns its own correct answer or CommunicationError (never with exceptions off), status "
             "events 'disconnected' / attempts at exact multiples of the interval / 'failed' exactly when the limit is used "
             "up / 'connected' + repeated handshake after return, transaction lock, semaphore and in-flight table free, a "
             "fresh send correct, silence ends in an exception or 'no answer' within the documented timeouts in virtual time.",
        note="Loss is modelled as the kernel shows it (os.read raising/returning b'', os.write raising, os.open failing). One "
             "known finding per serial driver (LUBA, SCI: a command of the cancelled caller still in progress in the gateway) is "
             "listed in known_findings.json; the victim is a single send or a sequence, optionally behind another caller's "
             "command, and the sends that follow start at once or after a pause.",
        tech="runtime monitoring with fault enumeration: fault instants taken from the I/O log of a base run; virtual clock",
        ref="DESIGN.md §4 C17"),
    "C18": dict(
        cat="exploration",
        text="Every command class of the standard's tables (one argument set each; thorough: all 2^16 16-bit frames and 2000 "
             "24-bit frames per driver) is sent through the real Tridonic, hasseb, LUBA and SCI drivers in the simulation and "
             "through DaliServer / the ATX hat / legacy Tridonic / legacy hasseb / UniPi construct(); the bytes captured at "
             "os.write / transport.write / socket.send are compared with independent encoders (field positions, mode code, "
             "send-twice flag, checksum, padding, sequence numbers in range without immediate repetition over 700+ sends); 12 "
             "unsupported frame lengths per driver must be refused with nothing written; legacy extract() code tables.",
        note="Vendor documents are not available offline; two cells (SCI request alignment, LUBA priority policy) are pinned "
             "to the reviewed library behaviour. One known finding (legacy Tridonic send-twice bit) is listed. Also: the same command object sent twice, commands of application-derived classes, extreme draws of the random first sequence number, the legacy hasseb send() path against a stub HID device, the UniPi register map per bus, one damaged packet before traffic.",
        tech="runtime monitoring: I/O-boundary capture compared with independent wire-format encoders",
        ref="DESIGN.md §4 C18"),
    "C20": dict(
        cat="exploration",
        text="Histories of 1-8 foreign bus transactions of 22 kinds (plain, query answered / silent by report / silent by "
             "timeout / garbled / interrupted, send-twice complete / single / different / answered, enable-device-type + "
             "matching / other / interrupted / delayed extended command, 24-bit commands and events with and without map "
             "entry, unknown frames, stray backward frames) with every gap 50 ms or 500 ms around the watcher's 200 ms window, "
             "plus own sends, are injected as gateway reports into the real Tridonic _handle_read/_bus_watch path and into the "
             "LUBA/SCI receive path; 0-3 subscribers join/leave in quiet gaps. Oracle: an independent transaction parser "
             "(models/watch_ref.py): each forward frame once, in order, decoded under the device type of the immediately "
             "preceding frame only, paired with its answer / no answer, failed flag for broken repeats; per-subscriber logs "
             "equal the reports made while subscribed. 500 histories quick, 20k thorough.",
        note="Trusts models/watch_ref.py; gaps are never close to the 200 ms boundary. Also: a twin Tridonic instance whose reports coincide, reports during the connection handshake, gateway chatter in quiet gaps, one-shot subscribers, an instance map filled after the driver was constructed.",
        tech="runtime monitoring: virtual-time injection of report histories + reference transaction parser over the same log",
        ref="DESIGN.md §4 C20"),
    "C15": dict(
        cat="exploration",
        text="The real hid.tridonic, hid.hasseb, DriverLubaRs232 and DriverSCIRS232 objects run inside a virtual-time asyncio "
             "loop against gateway models; 2-4 concurrent callers (single sends, 2-5 command sequences with sleeps and "
             "progress items, sequences raising at every position, callers cancelled at their k-th task step, hand-made "
             "transactions) start at picked offsets while gateway queueing/report delays are picked per run (300 runs per "
             "driver quick, 5000 thorough). An offline checker over the gateway's wire log (frames tagged by caller through "
             "disjoint addresses and device types) requires every caller's frames to be its expected stream (a prefix when "
             "cancelled), every unit contiguous, every device-type command immediately preceded by its ENABLE DEVICE TYPE; "
             "end-state monitors require all callers finished (a virtual-time stall is a violation), transaction_lock free, "
             "generators closed, exceptions propagated, no error in any callback.",
        note="Explores the schedules the gateway models allow (reports in bus order, picked delays); real kernel/USB timing "
             "is not reached. A bare serial send() of a device-type command carries no prefix by design and is only recorded. Also: refused frames in keep-trying mode under a busy-loop monitor on _send_raw, line-noise runs on LUBA, progress callbacks, Tridonic power-supply switches inside hand-made transactions.",
        tech="runtime monitoring: virtual-time simulation of the real drivers + offline wire-log checker + end-state monitors",
        ref="DESIGN.md §4 C15"),
    "C16": dict(
        cat="exploration",
        text="send() of the four asyncio drivers runs in the simulation with 1-3 concurrent callers, unique frames per "
             "send, a bus outcome per frame (silent / value incl. 0 and 255 / framing error) and traffic of another master "
             "(queries with answers, collisions) at picked instants; DaliServer and the ATX hat driver run on stub socket/"
             "serial back-ends for every outcome their protocols express. Oracle: None iff the command expects no answer, "
             "otherwise exactly the command's response class whose raw value is what the bus model produced for that "
             "caller's own frame. 400 runs per driver quick, 6000 thorough, plus a bounded-exhaustive walk over the first 5 / 8 "
             "scheduling decisions (caller offsets, gateway delays, report coalescing) of 2 / 6 fixed scenarios per driver.",
        note="Gateway models (gateways/sim.py) define what reports a device may send; two known findings about traffic of "
             "another master during an own serial transaction are listed in known_findings.json and identified by a timing "
             "monitor (foreign report delivered between the command's write and its completion). Also: the library's own sequences run through each driver against the unit models and are compared with a direct run (integration shards); a caller abandoning a query; daliserver replies that arrive late, not at all, or split.",
        tech="runtime monitoring: virtual-time simulation with unique answer values per frame; per-caller answer matching",
        ref="DESIGN.md §4 C16"),
    "C19": dict(
        cat="exploration",
        text="data_received() of the real LubaProtocol / SCIRS232Protocol objects is fed grammar-guided and random byte "
             "streams (valid frames of every type, every value 0..255 in the length byte, corrupted checksums, truncated "
             "frames, noise with start bytes) under 4 (thorough 8) chunkings each; the contents of the raw-answer, "
             "confirmation, observed-command and info queues are compared with an independent functional deframer over the "
             "whole stream; no exception may escape, a probe frame after the stream must be delivered, and the result must "
             "not depend on chunking. 5k streams quick, 200k thorough.",
        note="Reference deframers in spec/wire_formats.py; streams with checksum-valid frames whose payload is malformed for "
             "their type are set aside and counted. Also: two receivers of the same kind fed in turns, observed frames of different lengths with equal value on one receiver, long streams nobody drains.",
        tech="runtime monitoring: reference deframer oracle, chunking-invariance check, probe-frame liveness check",
        ref="DESIGN.md §4 C19"),
    "C09": dict(
        cat="exploration",
        text="MemoryValue.read of all 97 declared values and MemoryBank.read_all of the 9 banks run against a specification "
             "model of 102 9.10 memory inside model gear / control devices (short, device and int addressing), over "
             "structured and random images, truncated banks (last accessible location around and inside each value), "
             "holes, latch on/off with the live image changing after every read, and silence / framing error injected at "
             "every command of the read. Oracle: reference decoding of the stored bytes, MemoryLocationNotImplemented "
             "exactly when a location is missing, ResponseError on garbled answers, whole-bank result == values decoded "
             "from the snapshot latched at the start, memory unchanged and bank not left latched afterwards. String fields are "
             "stored in every shape (filled without terminator, early NUL, non-ASCII before / at / after the terminator).",
        note="Trusts models/membank.py (incl. the writeEnableState rule), spec/membank_layout.py decoders. Post-state is "
             "judged after reads that return. Also: two sequences on two separate buses advanced in turns (generator instances of the same library function) must behave as when run alone.",
        tech="runtime monitoring: specification-model post-state oracle + fault injection at every command position",
        ref="DESIGN.md §4 C09"),
    "C10": dict(
        cat="fault_enumeration",
        text="write_raw / write of every declared value (27 writable, 70 refused) plus 258 user-declared values covering "
             "every access-class combination of width 1..3, against the memory model with the lock byte initially locked / "
             "unlocked / odd. Fault enumeration: silence, framing error and a substituted answer at every index of the "
             "command stream; unit variants that stay locked, do not advance DTR0, echo a wrong byte, have a shorter bank "
             "or refuse one location. Oracle: a normal return implies memory == pre-image with exactly the requested bytes "
             "and the bank re-locked; any fault on an answered command and every unit variant must raise one of the "
             "documented exceptions; read-only values are refused before a frame is sent; wrong lengths raise ValueError. "
             "Histories of writes with every option combination (short writes with interior NULs, force_unlock, "
             "ignore_feedback) on one live unit are judged byte-exactly including the lock byte, and first-use shards start "
             "a fresh process whose first write of every value uses given options.",
        note="Trusts models/membank.py; faults on commands without an answer need not raise. Also: two sequences on two separate buses advanced in turns (generator instances of the same library function) must behave as when run alone.",
        tech="runtime monitoring with fault enumeration: one fault per (kind, command index) + non-conforming unit models",
        ref="DESIGN.md §4 C10"),
    "C11": dict(
        cat="exploration",
        text="check_raw / raw_to_value / from_list of all 81 table values are compared with reference decoders from a "
             "hand-transcribed layout of IEC 62386-102 9.10.6/7 and DiiA 251/252/253 for every 1-byte string, strided "
             "(thorough: all) 2-byte strings and boundary/random wider strings (MASK, TMASK, min/max edges, scale bytes, "
             "non-ASCII, embedded NUL); value_to_raw round-trips for plain numbers and ASCII strings; every declared value "
             "must sit at the table's bank / location range / access class / MASK-TMASK support, no overlaps, lockable "
             "locations only with a lock byte, bank.locations consistent with bank.values.",
        note="The layout table is the author's transcription; cells listed in its PINNED set were pinned to the reviewed "
             "library value.",
        tech="runtime monitoring: reference decoder oracle over enumerated raw strings + declared-layout comparison",
        ref="DESIGN.md §4 C11"),
    "C13": dict(
        cat="exploration",
        text="query_input_value for every resolution 1..32 (all values up to 12 bits, boundary/random above), "
             "SetEventFilters/QueryEventFilters for shipped and user-defined 8/16/24-bit filter enums with stale DTR "
             "contents, SetEventSchemes for all schemes and invalid ones, and autodiscover over random populations of "
             "0..64 control devices (status bits, 0..32 instances, duplicates) in all four address-argument forms, each "
             "also with silence / framing error at a random or every step, against a 103 device model at varying "
             "addresses and instance numbers. Oracle: exact reassembled value, instance filter/scheme == request and "
             "returned read-back, mapping == enabled instances of healthy devices, quiescent bracket, faults lead to "
             "skip / None / DALISequenceError only.",
        note="Trusts models/device103.py. Also: two sequences on two separate buses advanced in turns (generator instances of the same library function) must behave as when run alone.",
        tech="runtime monitoring: specification-model post-state oracle, fault injection per command",
        ref="DESIGN.md §4 C13"),
    "C14": dict(
        cat="exploration",
        text="SetDT8ColourValueTc / SetDT8TcLimit for every 16th (thorough: every) mirek 0..65535 x short/int/group/"
             "broadcast destinations at varying addresses, QueryDT8ColourValue for all 73 selectors x stored values "
             "(MSB 255 => None) and silence/garble on each of its four commands, against a 209 Tc unit model behind the "
             "device-type-enable and send-twice rules; an order monitor over the wire log checks DTR0/DTR1(/DTR2) loads "
             "before the DT8 command and ACTIVATE after it; out-of-range / wrong-type mirek and non-selector query "
             "arguments must raise before the first command.",
        note="Trusts models/tc209.py and models/gear102.py. Also: two sequences on two separate buses advanced in turns (generator instances of the same library function) must behave as when run alone.",
        tech="runtime monitoring: specification-model state oracle + order monitor over yielded frames",
        ref="DESIGN.md §4 C14"),
    "C06": dict(
        cat="exploration",
        text="All 39 response classes reachable from command classes (plus the secondary byte classes of part 205 and "
             "the public base classes) are instantiated on all 513 bus outcomes (none, clean 0..255, framing error "
             "0..255) and compared with per-family reference semantics: raw frame passed through, yes/no, integer vs "
             "non-integer marker distinguishable from every clean reading, MASK at 255, bitmap names and named bits, "
             "generic/enum/bitmap .value MissingResponse/ResponseError/ValueError behaviour, str() never raising MissingResponse or "
             "ResponseError; 12 kinds of non-frame constructor argument must raise TypeError. The space is enumerated "
             "completely in both tiers.",
        note="Families are recognised by the public base classes of dali.command; derived convenience properties "
             "(mode, control_type, ...) are outside the property and only reported. Also: response classes an application declares from the public bases (strict, bitmap, enumerations with gaps, numeric, yes/no), bit names per answer byte from spec/response_bits.py, derived accessors, every accessor read twice and after str().",
        tech="runtime monitoring: exhaustive outcome enumeration against reference semantics; icontract postcondition "
             "on Response.__init__",
        ref="DESIGN.md §4 C06"),
    "C07": dict(
        cat="exploration",
        text="The real Commissioning generator runs against a specification model of IEC 62386-102 gear (0..70 units, "
             "pre-existing and duplicate addresses, permitted subsets, readdress / dry-run, units that do not store or "
             "verify) under seven adversarial random-address schedules (tiny spaces, extremes 0/0xFFFFFF, pair clashes "
             "for k rounds, re-use of earlier draws, withdrawn units re-drawing an enabled unit's value). Post-state "
             "predicates: terminated within an analytic command bound, all units out of initialisation, participants "
             "addressed from the permitted set while it lasts, all addresses distinct, non-participants and dry runs "
             "unchanged, ProgramShortAddressFailure for faulty units. 400 buses quick, 20k thorough.",
        note="Trusts models/gear102.py (reading of 102:2014 9.14/11.7) and models/bus.py (driver semantics: send-twice, "
             "collision => framing error). One known finding is listed in known_findings.json. Also: two sequences on two separate buses advanced in turns (generator instances of the same library function) must behave as when run alone.",
        tech="runtime monitoring: real generator driven against a specification model with an adversarial scheduler; "
             "post-state and command-bound oracles; mechanism monitor inside the model",
        ref="DESIGN.md §4 C07"),
    "C08": dict(
        cat="exploration",
        text="QueryDeviceTypes, QueryGroups and SetGroups run (a) against model gear for device-type lists of length 0..8 "
             "(always including lists with type 0), every 4th (thorough: every) of the 2^16 group sets, and (current, "
             "requested) pairs x short/int/group/broadcast/unaddressed destinations with bystander units; (b) fed every "
             "answer stream of length <= 4 (thorough 6) over {none, garbled, 0, 1, 6, 6, 254, 255}, the last answer "
             "repeating for ever. Oracle: exact list/set for conforming streams, DALISequenceError within 300 commands "
             "for silence / framing error / repeated / non-ascending / never-ending, final membership == request and "
             "exactly the necessary changes for short destinations.",
        note="Trusts the stream classifier (what a conforming unit may answer) and models/gear102.py. Also: two sequences on two separate buses advanced in turns (generator instances of the same library function) must behave as when run alone.",
        tech="runtime monitoring: exhaustive adversarial answer streams + specification-model post-state oracle",
        ref="DESIGN.md §4 C08"),
    "C12": dict(
        cat="exploration",
        text="Every event-space frame header (8192 scheme/field combinations) x 40 data values (thorough: all 2^23 "
             "frames) is decoded and compared with an independent 103-Table-3 slicer: class per parts 301/303/304, "
             "exactly the source fields of the scheme, instance type, the 10 data bits; all (address, instance) pairs x "
             "instance types 0..31 x data values are decoded under maps with and without the entry, compared with the "
             "device-scheme twin frame, and retried via retry_decode; maps built through ints, address objects, modules "
             "and an initial dict must be the same mapping.",
        note="Trusts models/events_ref.py. Also: a map reused after clear(), a kept ambiguous event retried after the map changed, decoding under a claimed device type, and event classes registered by the application.",
        tech="runtime monitoring: enumerated frames against an independent reference decoder; retry/direct equivalence",
        ref="DESIGN.md §4 C12"),
    "C01": dict(
        cat="exploration",
        text="dali.command.from_frame is executed on enumerated forward frames (quick: all 2^16 16-bit frames x 11 device "
             "types, 2^16 upper halves x 4 low bytes + random 24-bit frames, device/instance event frames under 9 instance "
             "maps, every other length 1..64; thorough: all 2^16 x 256 device types, all 2^24 24-bit frames, all 2^21 "
             "device/instance event frames x 9 maps). Each frame must decode without exception to a Command whose frame is "
             "bit-identical, with the input unmodified and str()/repr() total; frames the independent tables do not define "
             "must be the generic classes. Each block is decoded in three orders (ascending, shuffled, interleaved with "
             "other contexts) and per-frame digests compared; class-level registries are fingerprinted before/after.",
        note="Trusts spec/iec62386_tables.py for 'not a known command' (judged only in the direction unknown => generic "
             "class) and the instance-map objects built by the harness. Also: decoded objects are retained and re-read after later decodes; a context-setting frame is decoded immediately before each decode of the interleaved pass; 8 threads decode the same cases at once (1 us switch interval) and must agree with a single thread.",
        tech="runtime monitoring: exhaustive enumeration with per-frame oracle, order-independence digests and registry "
             "fingerprints; light contract wrappers on Frame/address methods",
        ref="DESIGN.md §4 C01"),
    "C02": dict(
        cat="exploration",
        text="Every command class named by the standard's tables and every event class is constructed with all legal "
             "destination / instance / parameter combinations (strided in quick, full in thorough), its frame decoded "
             "under its own device type (and an instance map for device/instance events) and compared: same class, equal "
             "fields by == and by (kind, number), same text; a frame table detects two commands sharing a frame. About "
             "4.5k illegal argument tuples (one outside each range end, wrong types, wrong address kind, conflicting "
             "event fields) must raise.",
        note="Constructor families are taken from the row kind of spec/iec62386_tables.py; categories of illegal "
             "arguments are the ones the property lists; other leniencies are reported as observations. Also: shards in which the application derived its own command and address classes (every other class must round-trip as before); push-button events given a data= argument.",
        tech="runtime monitoring: constructor->frame->decoder round-trip oracle over enumerated arguments, rejection oracle",
        ref="DESIGN.md §4 C02"),
    "C03": dict(
        cat="exploration",
        text="For each of the 314 rows of a hand-transcribed table of IEC 62386 parts 102/103/202/205/206/207/209/301/"
             "303/304 and every legal argument, the integer the library emits is compared with an independent bit-level "
             "encoder, the table's frame must decode to the row's class with the same arguments, and sendtwice / answer "
             "kind / device type / is_query must equal the table's columns; every registered command class must be "
             "claimed by exactly one row; event frames are compared with an independent Table-3 encoder for all schemes; all "
             "commands built for a row stay alive and their frames are re-read afterwards (no sharing between commands).",
        note="The standard is not available offline: the table is the author's transcription (four send-twice cells are "
             "pinned to the reviewed library value and marked as such). Also: the packed bytes of every frame, the module's short alias names, and an import-surface probe (a fresh interpreter importing only dali.gear and dali.device must decode every table row).",
        tech="runtime monitoring: table-driven independent encoder as oracle, both directions, enumerated arguments",
        ref="DESIGN.md §4 C03"),
    "C04": dict(
        cat="exploration",
        text="Every address and instance object is written into sampled (quick: 4096 per object) or all (thorough) frames "
             "of the right size and the result compared bit-for-bit with the standard's layout (other bits untouched), "
             "then read back and compared; every 16-bit frame and 2^16 upper halves of 24-bit frames are decoded and "
             "compared with the standard's partition, calling each per-kind decoder to show at most one matches; all "
             "wrong sizes 1..64 must raise IncompatibleFrame leaving the frame intact; all 436x436 object pairs are "
             "compared for equality.",
        note="Trusts models/addr_ref.py (partition of address/instance bytes). Also: constructor rejections, frames re-read after single-bit writes, classes derived by the application, and an 8-thread decode stress.",
        tech="runtime monitoring: reference partition oracle, bit-locality check, contract wrappers on add_to_frame",
        ref="DESIGN.md §4 C04"),
    "C05": dict(
        cat="exploration",
        text="The real Frame class is driven through every single operation on every frame of width 1..6 "
             "(thorough 1..8; indices -1..w, written values -1..2**w) and through seeded random operation "
             "histories up to 256 bits; after each operation it is compared with a list-of-bits reference model, "
             "illegal operations must raise the documented class and leave the frame unchanged, and an icontract "
             "invariant 0 <= value < 2**width runs on every mutator. Exhaustive for small widths, sampled above.",
        note="Trusts the reference model (models/frame_ref.py) and the exception classes documented by the "
             "docstrings/tests of dali.frame. Also: equality across the four frame classes and independence of frames built from the same arguments.",
        tech="runtime monitoring: reference-model oracle + icontract invariants on the real Frame methods",
        ref="DESIGN.md §4 C05"),
}

PENDING_REASON = "check not built yet in this round (planned: see DESIGN.md §4); not claimed until its monitor runs"


# workloads added in the later seeding rounds (DESIGN.md section 11, rounds 5-8)
LATER = {
    "C01": " Later additions: frame objects re-decoded after in-place changes; shards alternate the order in which the library's packages are imported.",
    "C02": " Later additions: copies (copy / deepcopy / pickle) of every 16th object are the same command; equal-but-not-identical 'MASK' / 'OFF' strings.",
    "C03": " Later additions: flags read from every constructed object and its copies; unassigned neighbours of no-parameter special commands; decoding under a foreign device type is recorded, not judged.",
    "C04": " Later additions: int-like and reassigned numbers, objects read from a frame changed by their reader, copies, target frames assembled from pieces.",
    "C05": " Later additions: `+=`, copies inside the histories, falsy slice steps, zero operands.",
    "C06": " Later additions: every text route (repr, %-formatting, format, f-strings), copies carry the same bus outcome, accessors re-read after the wrapped frame was rewritten.",
    "C07": " Later additions: the sequence closed at a random point of its run; the application's own argument object passed to several runs.",
    "C08": " Later additions: sequences closed part-way, set-like argument shapes, lists of up to 254 device types, every kind of destination for the adversarial streams.",
    "C09": " Later additions: edge-pattern reads of every value (all 256 bytes / all pairs of edge bytes), reads of latch-less banks write nothing, sequences closed part-way.",
    "C10": " Later additions: numbers and values of the wrong kind, raw arguments that are no byte strings, histories through write() with a strict re-lock.",
    "C11": " Later additions: enclosing / lock-byte / scattered overlaps in declarations.",
    "C12": " Later additions: sparse and contradicting maps for the schemes that carry the type, import-surface probe for the event classes.",
    "C13": " Later additions: rescans with preloaded mappers, sequences closed part-way, every non-scheme number, width asked of the base class first.",
    "C14": " Later additions: sequences closed part-way.",
    "C15": " Later additions: misbehaving listeners, callers refused before connect(), repeated losses under a reconnect limit, write-would-block windows with a busy-loop monitor, slow SCI confirmations, the application's own disconnect() in the pass of a report (judged only for completion and locks), ignored cancellations.",
    "C16": " Later additions: hat sessions with relayed foreign lines, stale SCI status reports, bursts inside a transaction, twin gateways, late answers.",
    "C17": " Later additions: transient write errors (BlockingIOError) followed by 300 sends, handshake write errors, re-opens failing with varying errno, a second reconnection round after 'failed', connect() retried against a serial gateway that was silent at first, sequences with a failing clean-up across a loss.",
    "C18": " Later additions: UniPi register model (wrapping reception counter), daliserver sessions, hasseb report shapes, legacy hasseb mixed packet kinds, SCI error reports, a connect() that times out against a model that answered everything is a violation.",
    "C19": " Later additions: message-aligned reads, every field of the LUBA device information at its extremes.",
    "C20": " Later additions: every query class of parts 102 / 103 with any answer byte, pending commands reported during the handshake, chained transactions, one callable subscribed twice, the instance map assigned after connect() or learning mid-traffic.",
}


def main():
    props = [json.loads(l)["id"] for l in open(os.path.join(ROOT, "properties.jsonl"))]
    checks = []
    for pid in props:
        c = CHECKS.get(pid)
        if not c:
            continue
        checks.append({
            "property_id": pid,
            "quick_cmd": f"./check {pid} --tier quick",
            "thorough_cmd": f"./check {pid} --tier thorough",
            "evidence_file": f"/verif/evidence/{pid}.json",
            "replay_cmd_template": f"./check {pid} --replay {{path}}",
            "engine": "vlib",
            "level_claimed": {"category": c["cat"], "text": c["text"], "design_ref": c["ref"]},
            "level_note": c["note"] + LATER.get(pid, ""),
            "technique": c["tech"],
        })
    man = {
        "version": 1,
        "setup_cmd": "./setup.sh",
        "hooks": {
            "guard": "PYTHON_DALI_VERIF",
            "enable": "no in-repository hooks: monitors are attached from the harness (contracts re-bound on "
                      "classes, module-attribute shims, own event loop); the guard name is reserved",
            "baseline_off_cmd": "cd /repo && /venv/bin/python -m pytest -q -p no:cacheprovider --timeout=900 dali/tests",
            "source_commits": [],
            "add_only": True,
        },
        "engines": [{
            "name": "vlib",
            "path": "/verif/vlib",
            "serves_properties": [c["property_id"] for c in checks],
            "kind_free_text": "runtime monitoring harness: sharded workloads in fresh subprocesses against the "
                              "working tree, reference-model oracles, icontract contracts on the real functions, "
                              "virtual-time asyncio loop with gateway models, offline checkers over wire logs",
        }],
        "checks": checks,
        "not_applicable": [{"property_id": p, "reason": PENDING_REASON} for p in props if p not in CHECKS],
        "notes": "Exit 0 held / 1 VIOLATION / 2 inconclusive. Known findings: /verif/known_findings.json.",
    }
    with open(os.path.join(ROOT, "MANIFEST.json"), "w") as fh:
        json.dump(man, fh, indent=1)
        fh.write("\n")


if __name__ == "__main__":
    main()
