#!/usr/bin/env python3
"""Prints, from the evidence files, which anchored statement lines each property's workload reached / never reached."""
import json, os, sys
root = os.path.dirname(os.path.dirname(os.path.abspath(__file__)))
evdir = os.environ.get("VERIF_EVIDENCE_DIR") or os.path.join(root, "evidence")
for n in range(1, 21):
    pid = f"C{n:02d}"
    if len(sys.argv) > 1 and pid not in sys.argv[1:]:
        continue
    try:
        e = json.load(open(os.path.join(evdir, pid + ".json")))
    except Exception:
        continue
    ar = e["coverage"].get("anchor_reach")
    if not ar:
        print(pid, "no reach data")
        continue
    print(f"{pid} tier={e['tier']}")
    for a in ar:
        if isinstance(a, dict):
            print(f"   {a['anchor']:45s} {a['reached']:4d}/{a['statement_lines']:<4d} {a['name'][:50]:50s} missing {a['not_reached'][:25]}")
