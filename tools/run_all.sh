#!/bin/sh
# usage: tools/run_all.sh <tier> [ids...]  - runs the checks one after the other, prints rc and wall time
cd "$(dirname "$0")/.."
tier=${1:-quick}; shift
ids=${@:-C01 C02 C03 C04 C05 C06 C07 C08 C09 C10 C11 C12 C13 C14 C15 C16 C17 C18 C19 C20}
for i in $ids; do
  s=$(date +%s)
  ./check $i --tier $tier > .work_$i.log 2>&1
  rc=$?
  e=$(date +%s)
  echo "$i tier=$tier rc=$rc wall=$((e-s))s $(grep -cE '^VIOLATION' .work_$i.log) violations; $(grep -E 'evaluations=' .work_$i.log | head -1 | cut -c1-120)"
  grep -E "violated|INCONCLUSIVE|KNOWN-FINDING" .work_$i.log | cut -c1-220
done
