#!/bin/sh
# Idempotent, offline: put icontract beside the repository's interpreter.
set -e
cd "$(dirname "$0")"
if [ ! -d .deps/icontract ]; then
    /venv/bin/pip install --quiet --no-index --find-links /opt/veriftools/wheels \
        --target .deps icontract >/dev/null 2>&1 || {
        echo "setup: icontract could not be installed from the wheelhouse" >&2
        exit 3
    }
fi
mkdir -p evidence replays .work
exit 0
