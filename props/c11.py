"""C11 - memory values decode any raw bytes totally and per the DiiA/IEC layout.

Oracle: spec/membank_layout.py (hand-transcribed layout + reference decoders).
"""
import importlib

from vlib.common import Result, rng, short_tb
from spec import membank_layout as L

PROP = "C11"
LEVEL = "exploration"
CONTRACTS = "light"
RULE = ("decode: one case = (declared value, raw byte string), all 256 / 65536 strings for 1- and 2-byte values "
        "(2-byte strided in quick), boundary + random strings for wider ones; inverse: (value, number/string); "
        "layout: one case per declared value / location; distinct = distinct (value, raw) pairs")
ASSUMPTIONS = ["spec/membank_layout.py transcribes IEC 62386-102 9.10.6/9.10.7 and DiiA 251/252/253 (see PINNED there)",
               "scaled numbers and temperatures are not 'plain numbers': their inverse is only recorded"]
EXHAUSTIVE = {"quick": False, "thorough": False}
REQUIRED_ANCHORS = {"all": ["decoded", "layout_rows_checked", "inverse_checked", "mask_patterns", "tmask_patterns",
                            "invalid_patterns", "values_claimed", "declared_mask_patterns", "declared_decodes",
                            "declared_overlaps", "declared_lockability"]}
SHARD_TIMEOUT = {"quick": 600, "thorough": 3000}


def plan(tier, seed):
    n = 8 if tier == "quick" else 32
    sh = [{"kind": "decode", "part": p, "of": n} for p in range(n)]
    sh.append({"kind": "layout"})
    sh.append({"kind": "inverse"})
    sh.append({"kind": "declarations"})
    return sh


def _mods():
    for m in ("info", "oem", "energy", "diagnostics", "maintenance", "location"):
        importlib.import_module("dali.memory." + m)


def raw_cases(row, tier, r):
    w = row.width
    if w == 1:
        return [bytes([b]) for b in range(256)]
    if w == 2:
        if tier == "thorough":
            return [bytes([a, b]) for a in range(256) for b in range(256)]
        vals = set(range(0, 65536, 5)) | {0, 1, 0xFF, 0x100, 0xFFFD, 0xFFFE, 0xFFFF, 0x7FFF, 0x8000, 0x7FFE}
        for b in (row.min, row.max):
            if b is not None:
                vals |= {max(b - 1, 0), b, min(b + 1, 65535)}
        return [v.to_bytes(2, "big") for v in sorted(vals)]
    out = set()
    body_w = w - 1 if row.kind == "scaled" else w
    ones = 256 ** body_w - 1
    specials = {0, 1, ones, ones - 1, ones - 2, ones - 3, ones // 2, ones // 2 + 1, 255, 256}
    if row.max is not None:
        specials |= {row.max, row.max - 1, min(row.max + 1, ones)}
    if row.min is not None:
        specials |= {row.min, max(row.min - 1, 0), row.min + 1}
    n_rand = 200 if tier == "quick" else 4000
    for _ in range(n_rand):
        specials.add(r.getrandbits(8 * body_w))
    prefixes = [b""]
    if row.kind == "scaled":
        prefixes = [bytes([s]) for s in (0, 1, 5, 6, 7, 0x7F, 0x80, 0xF9, 0xFA, 0xFB, 0xFF, 0xFE)]
    for s in sorted(specials):
        body = s.to_bytes(body_w, "big")
        for p in (prefixes if row.kind == "scaled" else [b""]):
            out.add(p + body)
    if row.kind == "str":
        for text in (b"", b"A", b"abc\x00def", b"\x00abc", b"\x7f" * w, b"\x80", b"caf\xc3\xa9", b"\xff" * w,
                     b"ok\x00\xff\xfe", b"x" * w, b"x" * (w - 1) + b"\x00", b"\x01\x02", b" \t\n"):
            out.add((text + b"\x00" * w)[:w])
        for _ in range(n_rand // 2):
            k = r.randint(0, w)
            out.add((bytes(r.choice(range(1, 0x80)) for _ in range(k)) + b"\x00" + bytes(r.getrandbits(8) for _ in range(w)))[:w])
    return sorted(out)


def run_decode(desc, tier, seed, res):
    _mods()
    from dali.exceptions import MemoryLocationNotImplemented
    rows = [row for i, row in enumerate(L.rows()) if i % desc["of"] == desc["part"]]
    r = rng(seed, "C11", "decode", desc["part"])
    for row in rows:
        try:
            cls = L.resolve(row.lib)
        except Exception:
            res.violation("C11/layout/value-missing", f"the specification's value {row.lib} is not declared by the library", {"row": row.lib})
            continue
        cases = raw_cases(row, tier, r)
        for raw in cases:
            res.evaluations += 1
            res.hit("decoded")
            want = L.decode(row, raw)
            wit = {"value": row.lib, "raw": raw.hex()}
            if want == "MASK":
                res.hit("mask_patterns")
            elif want == "TMASK":
                res.hit("tmask_patterns")
            elif want == "Invalid":
                res.hit("invalid_patterns")
            try:
                flag = cls.check_raw(raw)
                got = flag or cls.raw_to_value(raw)
            except Exception as e:
                res.violation(f"C11/decode-raised/{row.lib}/{type(e).__name__}", f"interpreting {raw.hex()} raised {type(e).__name__}: {e}", wit)
                continue
            if not L.same(got, want):
                cat = want if want in ("MASK", "TMASK", "Invalid") else (
                    getattr(got, "name", None) if type(got).__name__ == "FlagValue" else "value")
                res.violation(f"C11/decode/{row.lib}/{cat}",
                              f"{row.lib} raw {raw.hex()}: library gives {got!r}, the specification's encoding gives {want!r}", wit)
                continue
            # from_list: the same bytes placed at the declared locations of a whole-bank list
            lst = [0xA5] * 255
            for k, b in enumerate(raw):
                lst[row.first + k] = b
            try:
                got2 = cls.from_list(lst)
            except Exception as e:
                res.violation(f"C11/from_list-raised/{row.lib}", f"from_list raised {type(e).__name__}: {e}", wit)
                continue
            if not L.same(got2, want):
                res.violation(f"C11/from_list/{row.lib}", f"from_list gives {got2!r} for bytes {raw.hex()} at {row.first:#x}.., expected {want!r}", wit)
        # from_list with a hole / a short list
        lst = [0] * 255
        lst[row.last] = None
        for bad in (lst, [0] * row.last):
            try:
                cls.from_list(bad)
                res.violation(f"C11/from_list/missing-location-accepted/{row.lib}", "from_list returned a value although a location is missing", {"value": row.lib})
            except MemoryLocationNotImplemented:
                pass
            except Exception as e:
                res.violation(f"C11/from_list-raised/{row.lib}", f"from_list with a missing location raised {type(e).__name__}", {"value": row.lib})
        res.distinct += len(cases)
    if rows:
        res.sample({"value": rows[0].lib, "bank": rows[0].bank, "locations": [hex(rows[0].first), hex(rows[0].last)],
                    "kind": rows[0].kind})


ACCESS = {"rom": "ROM", "ram_ro": "RAM_RO", "ram_rw": "RAM_RW", "nvm_ro": "NVM_RO", "nvm_rw": "NVM_RW", "nvm_rw_l": "NVM_RW_L"}


def run_layout(res):
    _mods()
    import dali.memory.location as loc
    rows = L.rows()
    claimed = {}
    banks = {}
    for key, path in L.BANK_OBJECTS.items():
        try:
            banks[key] = L.resolve(path)
        except Exception:
            res.violation("C11/layout/bank-missing", f"memory bank object {path} is missing", {"bank": key})
    for key, b in banks.items():
        last, has_lock, latch = L.BANKS[key]
        res.evaluations += 1
        if b.address != int(key.rstrip("L")) or bool(b.has_lock) != has_lock or bool(b.has_latch) != latch:
            res.violation(f"C11/layout/bank/{key}", f"bank {key}: address {b.address}, lock {b.has_lock}, latch {b.has_latch}; "
                          f"specification: lock {has_lock}, latch {latch}", {"bank": key})
        try:
            dflt = b.LastAddress.locations[0].default
            if dflt != last:
                res.violation(f"C11/layout/bank-last-location/{key}", f"bank {key}: last accessible location {dflt:#x}, specification {last:#x}", {"bank": key})
        except Exception as e:
            res.observe("bank-last-address-unreadable", f"{key}: {type(e).__name__}")
    for row in rows:
        res.evaluations += 1
        res.distinct += 1
        res.hit("layout_rows_checked")
        try:
            cls = L.resolve(row.lib)
        except Exception:
            res.violation("C11/layout/value-missing", f"{row.lib} is not declared by the library", {"row": row.lib})
            continue
        claimed[cls] = row
        wit = {"value": row.lib}
        locs = [l.address for l in cls.locations]
        if locs != list(range(row.first, row.last + 1)):
            res.violation(f"C11/layout/locations/{row.lib}", f"{row.lib} declared at {[hex(x) for x in locs]}, the specification puts it at "
                          f"{row.first:#x}..{row.last:#x}", wit)
        if cls.bank is not banks.get(row.bank):
            res.violation(f"C11/layout/bank-of-value/{row.lib}", f"{row.lib} is attached to {cls.bank!r}, specification: bank {row.bank}", wit)
        for k, l in enumerate(cls.locations):
            want = ACCESS[row.access_at(k)]
            if l.type_ is None or l.type_.name != want:
                res.violation(f"C11/layout/access/{row.lib}", f"{row.lib} location {l.address:#x} is {l.type_}, the specification says {want}", wit)
                break
        if bool(cls.mask_supported) != row.mask or bool(cls.tmask_supported) != row.tmask:
            res.violation(f"C11/layout/mask-support/{row.lib}", f"{row.lib}: MASK {cls.mask_supported} TMASK {cls.tmask_supported}; "
                          f"specification MASK {row.mask} TMASK {row.tmask}", wit)
    # every value the library declares in these banks is claimed by the specification table; no overlaps;
    # lockable locations only in banks with a lock byte; bank.locations and bank.values agree
    for key, b in banks.items():
        seen = {}
        for v in b.values:
            res.hit("values_claimed")
            internal = v in (b.LastAddress, b.LockByte)
            if v not in claimed and not internal:
                res.violation("C11/layout/undocumented-value", f"{v.__module__}.{v.__name__} in bank {key} matches no row of the specification table", {"value": v.__name__})
            for l in v.locations:
                if l.address in seen:
                    res.violation("C11/layout/overlap", f"bank {key} location {l.address:#x} belongs to {seen[l.address].__name__} and {v.__name__}", {"bank": key})
                seen[l.address] = v
                if l.type_ is not None and l.type_.name == "NVM_RW_L" and not b.has_lock:
                    res.violation("C11/layout/lockable-without-lock-byte", f"{v.__name__} is lockable but bank {key} has no lock byte", {"bank": key})
                ent = b.locations.get(l.address)
                if ent is None or ent.memory_value is not v or ent.memory_location is not l:
                    res.violation("C11/layout/locations-values-disagree", f"bank {key}: bank.locations[{l.address:#x}] does not point at {v.__name__}", {"bank": key})
        for a, ent in b.locations.items():
            if ent is not None and ent.memory_value not in b.values:
                res.violation("C11/layout/locations-values-disagree", f"bank {key}: location {a:#x} names a value missing from bank.values", {"bank": key})
    # declaring an overlapping or wrongly lockable value must be refused
    try:
        class _Overlap(loc.NumericValue):
            bank = banks["207"]
            locations = (loc.MemoryLocation(address=0x04, type_=loc.MemoryType.ROM),)
        res.violation("C11/layout/overlap-not-refused", "declaring a value on an occupied location was accepted", {})
        banks["207"].values.remove(_Overlap)
    except loc.MemoryLocationOverlap:
        pass
    except Exception as e:
        res.observe("overlap-declaration-other-exception", type(e).__name__)
    res.sample({"layout_rows": len(rows), "banks": sorted(banks)})


def run_inverse(seed, res):
    _mods()
    import dali.memory.location as loc
    r = rng(seed, "C11", "inverse")
    for row in L.rows():
        try:
            cls = L.resolve(row.lib)
        except Exception:
            continue
        w = row.width
        if row.kind == "u":
            vals = {0, 1, 256 ** w - 1, 256 ** w - 2, 255, 256} | {r.getrandbits(8 * w) for _ in range(60)}
            if w == 1:
                vals = set(range(256))
            for v in sorted(x for x in vals if x < 256 ** w):
                res.evaluations += 1
                res.distinct += 1
                res.hit("inverse_checked")
                try:
                    raw = cls.value_to_raw(v)
                except Exception as e:
                    res.violation(f"C11/inverse-raised/{row.lib}", f"value_to_raw({v}) raised {type(e).__name__}: {e}", {"value": row.lib, "n": v})
                    continue
                if bytes(raw) != v.to_bytes(w, "big"):
                    res.violation(f"C11/inverse/{row.lib}", f"value_to_raw({v}) = {bytes(raw).hex()}, expected {v.to_bytes(w, 'big').hex()}", {"value": row.lib, "n": v})
                    continue
                want = L.decode(row, raw)
                if isinstance(want, int) and not isinstance(want, bool):
                    back = cls.check_raw(bytes(raw)) or cls.raw_to_value(bytes(raw))
                    if back != v:
                        res.violation(f"C11/inverse/{row.lib}", f"{v} -> {bytes(raw).hex()} -> {back!r}", {"value": row.lib, "n": v})
            for lit, sup in (("MASK", row.mask), ("TMASK", row.tmask)):
                if sup:
                    raw = cls.value_to_raw(lit)
                    if L.decode(row, raw) != lit:
                        res.violation(f"C11/inverse/{row.lib}/{lit}", f"value_to_raw({lit!r}) = {bytes(raw).hex()} does not decode as {lit}", {"value": row.lib})
            for bad in (-1, 256 ** w, "x", None, 1.5):
                try:
                    cls.value_to_raw(bad)
                    res.violation(f"C11/inverse/bad-value-accepted/{row.lib}", f"value_to_raw({bad!r}) accepted", {"value": row.lib})
                except Exception:
                    pass
        elif row.kind == "str":
            texts = ["", "A", "Luminaire-1", "x" * w, "y" * (w - 1), " ~", "\x01\x7f"] + \
                    ["".join(chr(r.randint(1, 0x7F)) for _ in range(r.randint(0, w))) for _ in range(200)]
            for t in texts:
                res.evaluations += 1
                res.distinct += 1
                res.hit("inverse_checked")
                try:
                    raw = cls.value_to_raw(t)
                except Exception as e:
                    res.violation(f"C11/inverse-raised/{row.lib}", f"value_to_raw({t!r}) raised {type(e).__name__}: {e}", {"value": row.lib, "text": t})
                    continue
                if len(raw) > w:
                    res.violation(f"C11/inverse/{row.lib}/too-long", f"value_to_raw({t!r}) is {len(raw)} bytes for a {w}-byte value", {"value": row.lib})
                    continue
                # what a unit holds after a (possibly short) write: remaining locations keep old content
                stored = (bytes(raw) + b"Z" * w)[:w]
                back = cls.check_raw(stored) or cls.raw_to_value(stored)
                if back != t:
                    res.violation(f"C11/inverse/{row.lib}", f"{t!r} -> {bytes(raw).hex()} -> {back!r}", {"value": row.lib, "text": t})
            for bad in ("x" * (w + 1), "café"):
                try:
                    cls.value_to_raw(bad)
                    res.violation(f"C11/inverse/bad-value-accepted/{row.lib}", f"value_to_raw({bad!r}) accepted", {"value": row.lib})
                except Exception:
                    pass
        else:
            res.add("inverse_not_plain_" + row.kind)
    res.sample({"inverse": "value_to_raw -> decode for plain numbers and ASCII strings"})


def run_declarations(seed, res):
    """Values declared through the public API (what a user of the library writes for a vendor-specific bank): the rules the
    shipped map relies on are enforced for every declaration - MASK/TMASK patterns per width and signedness, overlap refused,
    lockable locations only in banks that have a lock."""
    import dali.memory.location as loc
    T = loc.MemoryType
    r = rng(seed, "C11", "declarations")
    n = [0]

    def declare(bank, base, first, width, type_=None, **attrs):
        n[0] += 1
        body = {"bank": bank, "locations": loc.MemoryRange(first, first + width - 1, type_=type_ or T.ROM), **attrs}
        return type(f"Declared{n[0]}", (base,), body)

    # MASK / TMASK patterns, signed and unsigned, widths 1..4
    for width in (1, 2, 3, 4):
        for signed in (False, True):
            bank = loc.MemoryBank(120 + width, 0xFE)
            cls = declare(bank, loc.NumericValue, 0x10, width, signed=signed, mask_supported=True, tmask_supported=True)
            top = (1 << (8 * width - 1)) - 1 if signed else (1 << (8 * width)) - 1
            want_mask = top.to_bytes(width, "big")
            want_tmask = (top - 1).to_bytes(width, "big")
            res.evaluations += 1
            res.hit("declared_mask_patterns")
            wit = {"width": width, "signed": signed}
            if bytes(cls.mask) != want_mask or bytes(cls.tmask) != want_tmask:
                res.violation("C11/declared/mask-pattern", f"{width}-byte {'signed' if signed else 'unsigned'} value: MASK pattern "
                              f"{bytes(cls.mask).hex()}, TMASK {bytes(cls.tmask).hex()}; the largest and second largest "
                              f"representable numbers are {want_mask.hex()} / {want_tmask.hex()}", wit)
                continue
            probes = {want_mask: "MASK", want_tmask: "TMASK"}
            for v in {0, 1, top - 2, (1 << (8 * width)) - 1, (1 << (8 * width)) - 2, 1 << (8 * width - 1)} | \
                    {r.getrandbits(8 * width) for _ in range(40)}:
                raw = v.to_bytes(width, "big")
                if raw in probes:
                    continue
                probes[raw] = int.from_bytes(raw, "big", signed=signed)
            for raw, want in probes.items():
                res.evaluations += 1
                res.hit("declared_decodes")
                flag = cls.check_raw(raw)
                got = flag.value if flag is not None else cls.raw_to_value(raw)
                if got != want:
                    res.violation("C11/declared/decode", f"{width}-byte {'signed' if signed else 'unsigned'} value, raw {raw.hex()}: "
                                  f"library gives {got!r}, expected {want!r}", {**wit, "raw": raw.hex()})
    # overlap is refused, also for a partial overlap at either end
    shapes = [(0x10, 2, 0x11, 1), (0x10, 2, 0x0F, 2), (0x10, 1, 0x10, 1), (0x20, 4, 0x21, 2), (0x03, 1, 0x03, 3),
              (0x11, 1, 0x10, 3), (0x12, 2, 0x10, 6), (0x30, 1, 0x2F, 3), (0x40, 2, 0x40, 3), (0x41, 2, 0x40, 3)]
    for _ in range(60):          # every way two runs can intersect: inside, enclosing, either end, equal
        f1, w1 = r.randrange(0x03, 0xF0), r.randint(1, 6)
        f2 = r.randint(max(3, f1 - 6), f1 + w1 - 1)
        w2 = r.randint(max(1, f1 - f2 + 1), 8)
        shapes.append((f1, w1, f2, w2))
    for (f1, w1, f2, w2) in shapes:
        bank = loc.MemoryBank(130, 0xFE)
        declare(bank, loc.NumericValue, f1, w1)
        res.evaluations += 1
        res.hit("declared_overlaps")
        try:
            declare(bank, loc.NumericValue, f2, w2)
            res.violation("C11/declared/overlap-accepted", f"a value at {f2:#x}..{f2 + w2 - 1:#x} was accepted although "
                          f"{f1:#x}..{f1 + w1 - 1:#x} is taken", {"first": [f1, w1], "second": [f2, w2]})
        except loc.MemoryLocationOverlap:
            pass
        except Exception as e:
            res.violation("C11/declared/overlap-wrong-exception", f"overlap raised {type(e).__name__}", {})
    # the lock / latch byte at location 2 and the last-address byte at 0 are taken too; values given as explicit locations
    # collide wherever one of their locations is taken, not only at their ends
    ML = loc.MemoryLocation
    for kw in ({"has_lock": True}, {"has_latch": True}, {}):
        for first, width in ((0x01, 3), (0x02, 1), (0x00, 1), (0x00, 4), (0x02, 2)):
            if not kw and first > 0:
                continue
            bank = loc.MemoryBank(132, 0xFE, **kw)
            res.evaluations += 1
            res.hit("declared_overlaps")
            try:
                declare(bank, loc.NumericValue, first, width)
                res.violation("C11/declared/overlap-accepted", f"a value at {first:#x}..{first + width - 1:#x} was accepted in a bank "
                              f"declared with {kw or 'no options'} (locations 0 and, with a lock or latch, 2 are taken)",
                              {"first": [first, width], "bank": kw})
            except loc.MemoryLocationOverlap:
                pass
            except Exception as e:
                res.violation("C11/declared/overlap-wrong-exception", f"overlap raised {type(e).__name__}", {})
    for taken, newc in (((0x20, 0x22), (0x1F, 0x20, 0x30)), ((0x20, 0x22), (0x1F, 0x22, 0x30)), ((0x21,), (0x20, 0x21, 0x22)),
                        ((0x20, 0x21, 0x22), (0x1F, 0x21, 0x23)), ((0x30,), (0x10, 0x30, 0x50, 0x70))):
        bank = loc.MemoryBank(133, 0xFE)
        n[0] += 1
        type(f"Declared{n[0]}", (loc.NumericValue,), {"bank": bank, "locations": tuple(ML(a, type_=T.ROM) for a in taken)})
        res.evaluations += 1
        res.hit("declared_overlaps")
        try:
            n[0] += 1
            type(f"Declared{n[0]}", (loc.NumericValue,), {"bank": bank, "locations": tuple(ML(a, type_=T.ROM) for a in newc)})
            res.violation("C11/declared/overlap-accepted", f"a value at locations {[hex(a) for a in newc]} was accepted although "
                          f"{[hex(a) for a in taken]} are taken", {"taken": taken, "new": newc})
        except loc.MemoryLocationOverlap:
            pass
        except Exception as e:
            res.violation("C11/declared/overlap-wrong-exception", f"overlap raised {type(e).__name__}", {})
    # disjoint neighbours are fine
    bank = loc.MemoryBank(131, 0xFE)
    try:
        declare(bank, loc.NumericValue, 0x10, 2)
        declare(bank, loc.NumericValue, 0x12, 2)
        declare(bank, loc.NumericValue, 0x0E, 2)
    except Exception as e:
        res.violation("C11/declared/neighbours-refused", f"adjacent values raised {type(e).__name__}", {})
    # lockable locations need a bank with a lock byte that locks (a latch alone is not a lock)
    for has_lock in (False, True):
        for has_latch in (False, True):
            for ty in (T.NVM_RW_L, T.NVM_RW, T.ROM):
                bank = loc.MemoryBank(140, 0xFE, has_lock=has_lock, has_latch=has_latch)
                res.evaluations += 1
                res.hit("declared_lockability")
                wit = {"has_lock": has_lock, "has_latch": has_latch, "type": ty.name}
                must_refuse = ty == T.NVM_RW_L and not has_lock
                try:
                    declare(bank, loc.NumericValue, 0x10, 2, type_=ty)
                    if must_refuse:
                        res.violation("C11/declared/lockable-without-lock", f"a lockable (NVM-RW-L) value was accepted in a bank with "
                                      f"has_lock={has_lock}, has_latch={has_latch}", wit)
                except loc.LockingNotSupported:
                    if not must_refuse:
                        res.violation("C11/declared/lockable-refused", f"{ty.name} value refused in a bank with has_lock={has_lock}", wit)
                except Exception as e:
                    res.violation("C11/declared/lockability-wrong-exception", f"raised {type(e).__name__}", wit)
    # a value derived from a concrete declared value, with another width: its patterns are its own
    for (w1, w2) in ((2, 4), (4, 1), (1, 3), (3, 2)):
        bank = loc.MemoryBank(150, 0xFE)
        parent = declare(bank, loc.NumericValue, 0x10, w1, mask_supported=True, tmask_supported=True)
        child = type("Derived", (parent,), {"bank": bank, "locations": loc.MemoryRange(0x40, 0x40 + w2 - 1, type_=T.ROM)})
        res.evaluations += 1
        res.hit("declared_derived")
        top = (1 << (8 * w2)) - 1
        if bytes(child.mask) != top.to_bytes(w2, "big") or bytes(child.tmask) != (top - 1).to_bytes(w2, "big"):
            res.violation("C11/declared/derived-mask-pattern", f"a {w2}-byte value derived from a {w1}-byte value has MASK {bytes(child.mask).hex()} / "
                          f"TMASK {bytes(child.tmask).hex()}", {"parent_width": w1, "width": w2})
            continue
        for raw, want in ((top.to_bytes(w2, "big"), "MASK"), ((top - 1).to_bytes(w2, "big"), "TMASK"), ((top - 2).to_bytes(w2, "big"), top - 2)):
            flag = child.check_raw(raw)
            got = flag.value if flag is not None else child.raw_to_value(raw)
            if got != want:
                res.violation("C11/declared/derived-decode", f"{w2}-byte value derived from a {w1}-byte one, raw {raw.hex()}: {got!r}, expected {want!r}",
                              {"parent_width": w1, "width": w2})
    # locations in the order the value's bytes are stored in, not necessarily ascending or contiguous
    for order in ((0x21, 0x20), (0x30, 0x34), (0x45, 0x44, 0x43), (0x50, 0x52, 0x51), (0x08, 0x0C), (0x60, 0x61)):
        bank = loc.MemoryBank(160, 0xFE)
        n[0] += 1
        cls = type(f"Scattered{n[0]}", (loc.NumericValue,), {"bank": bank, "tmask_supported": True,
                                                             "locations": tuple(loc.MemoryLocation(a, type_=T.ROM) for a in order)})
        w = len(order)
        for v in {0, 1, 0x1234 % (1 << (8 * w)), (1 << (8 * w)) - 2, (1 << (8 * w)) - 3, r.getrandbits(8 * w)}:
            raw = v.to_bytes(w, "big")
            image = [0xEE] * 255
            for a, b in zip(order, raw):
                image[a] = b
            res.evaluations += 1
            res.hit("declared_scattered")
            want = "TMASK" if v == (1 << (8 * w)) - 2 else v
            try:
                got = cls.from_list(image)
                got = got.value if hasattr(got, "value") and not isinstance(got, int) else got
            except Exception as e:
                got = f"raised {type(e).__name__}"
            if got != want:
                res.violation("C11/declared/scattered-from-list", f"value declared at locations {[hex(a) for a in order]} holding {raw.hex()}: "
                              f"from_list gives {got!r}, the bytes in declaration order give {want!r}", {"order": list(order), "raw": raw.hex()})
                break
        # a bank list that stops before the value's last (highest) location
        short = [0x11] * max(order)
        try:
            cls.from_list(short)
            res.violation("C11/declared/scattered-truncated", f"value at {[hex(a) for a in order]}: a list of {len(short)} locations was decoded", {"order": list(order)})
        except Exception as e:
            if type(e).__name__ != "MemoryLocationNotImplemented":
                res.violation("C11/declared/scattered-truncated", f"truncated list raised {type(e).__name__}", {"order": list(order)})
    # interpretation is attempted only on bytes that passed the checks (the documented contract of raw_to_value)
    bank = loc.MemoryBank(170, 0xFE)
    table = {1: "low", 2: "medium", 3: "high"}
    Looked = type("Looked", (loc.NumericValue,), {
        "bank": bank, "locations": loc.MemoryRange(0x10, 0x10, type_=T.ROM), "mask_supported": True,
        "is_valid": classmethod(lambda c, raw: raw[0] in table),
        "raw_to_value": classmethod(lambda c, raw: table[raw[0]])})
    Ratio = type("Ratio", (loc.NumericValue,), {
        "bank": bank, "locations": loc.MemoryRange(0x20, 0x21, type_=T.ROM), "tmask_supported": True,
        "is_valid": classmethod(lambda c, raw: int.from_bytes(raw, "big") >= 1),
        "raw_to_value": classmethod(lambda c, raw: 1000000 // int.from_bytes(raw, "big"))})
    for cls, raws in ((Looked, [b"\x01", b"\x03", b"\x00", b"\x07", b"\xff"]), (Ratio, [b"\x00\x01", b"\x00\x00", b"\xff\xfe", b"\x03\xe8"])):
        for raw in raws:
            image = [0] * 255
            for lc, b in zip(cls.locations, raw):
                image[lc.address] = b
            res.evaluations += 1
            res.hit("declared_partial_decoders")
            try:
                got = cls.from_list(image)
            except Exception as e:
                res.violation("C11/declared/decoder-called-on-flagged-bytes", f"{cls.__name__} raw {raw.hex()}: from_list raised {type(e).__name__} "
                              "- the value's own decoder was run on bytes its checks reject", {"cls": cls.__name__, "raw": raw.hex()})
    res.sample({"declared": "MASK/TMASK patterns for widths 1..4 signed/unsigned, overlaps, lockability per bank kind, derived / scattered / "
                            "partial-decoder values"})


def run_shard(desc, tier, seed):
    res = Result()
    if "replay" in desc:
        for d in plan("quick", seed):
            r2 = run_shard(d, "quick", seed)
            for v in r2.violations:
                if v["key"] == desc["replay"]["key"]:
                    res.violation(v["key"], v["what"], v["witness"])
            res.evaluations += r2.evaluations
        return res
    k = desc["kind"]
    if k == "decode":
        run_decode(desc, tier, seed, res)
    elif k == "layout":
        run_layout(res)
    elif k == "declarations":
        run_declarations(seed, res)
    else:
        run_inverse(seed, res)
    return res
