"""C04 - address and instance bytes: exact, local, mutually exclusive codec.

Oracle: models/addr_ref.py (the standard's partition of the address byte and the instance byte).
"""
from vlib.common import Result, rng

PROP = "C04"
LEVEL = "exploration"
CONTRACTS = "light"
RULE = ("(object, frame) pairs for add_to_frame/from_frame, frames for the decode partition, (object, size) "
        "pairs for refusal, ordered object pairs for equality; every pair is enumerated once (distinct = "
        "evaluations of distinct pairs); non-trivial: the frame's other bits are arbitrary, not constants")
ASSUMPTIONS = ["the partition of address/instance bytes in models/addr_ref.py is the one of IEC 62386-102 7.2.2 "
               "and -103 7.2.1; a 24-bit frame with bit 16 clear is an event message and has no destination"]
EXHAUSTIVE = {"quick": False, "thorough": True}
REQUIRED_ANCHORS = {"all": ["add_to_frame", "add_to_frame/raise", "decode16", "decode24", "eq_pairs", "inst_decode"]}
SHARD_TIMEOUT = {"quick": 300, "thorough": 2400}


def plan(tier, seed):
    sh = []
    if tier == "quick":
        for p in range(4):
            sh.append({"kind": "gear_add", "objs": [p, 4], "frames": "sample"})
            sh.append({"kind": "dev_add", "objs": [p, 4], "frames": "sample"})
            sh.append({"kind": "inst_add", "objs": [p, 4], "frames": "sample"})
        sh.append({"kind": "decode16", "lo": 0, "hi": 65536})
        for p in range(4):
            sh.append({"kind": "decode24", "lo": 16384 * p, "hi": 16384 * (p + 1), "lows": [0x00, 0xA7]})
    else:
        for p in range(16):
            sh.append({"kind": "gear_add", "objs": [p, 16], "frames": "all"})
        for p in range(24):
            sh.append({"kind": "dev_add", "objs": [p, 24], "frames": "all"})
        for p in range(32):
            sh.append({"kind": "inst_add", "objs": [p, 32], "frames": "all"})
        for p in range(4):
            sh.append({"kind": "decode16", "lo": 16384 * p, "hi": 16384 * (p + 1)})
        for p in range(16):
            sh.append({"kind": "decode24", "lo": 4096 * p, "hi": 4096 * (p + 1),
                       "lows": [0x00, 0x01, 0x55, 0x80, 0xAA, 0xFE, 0xFF, 0x3C]})
    sh.append({"kind": "sizes"})
    sh.append({"kind": "eq"})
    sh.append({"kind": "mixed"})
    sh.append({"kind": "threads"})
    return sh


def _frames16(mode, r):
    if mode == "all":
        return range(65536)
    s = {0, 0xFFFF, 0x00FF, 0xFF00, 0x01FF, 0xFE00, 0x0100, 0xAAAA, 0x5555}
    while len(s) < 4096:
        s.add(r.getrandbits(16))
    return sorted(s)


def _frames24(mode, r):
    if mode == "all":
        lows = (0x00, 0xFF)
        return [u * 256 + lo for u in range(65536) for lo in lows]
    s = {0, 0xFFFFFF, 0x01FFFF, 0xFE0000, 0x010000, 0x00FFFF, 0xFF00FF, 0xAAAAAA, 0x555555}
    while len(s) < 4096:
        s.add(r.getrandbits(24))
    return sorted(s)


def run_add(desc, seed, res, which):
    from dali import address, frame
    from models import addr_ref as R
    r = rng(seed, "C04", which, desc["objs"][0])
    if which == "gear":
        objs, frames, width = R.all_gear(address), _frames16(desc["frames"], r), 16
    elif which == "dev":
        objs, frames, width = R.all_device(address), _frames24(desc["frames"], r), 24
    else:
        objs, frames, width = R.all_instances(address), _frames24(desc["frames"], r), 24
    p, n = desc["objs"]
    objs = [o for i, o in enumerate(objs) if i % n == p]
    FF = frame.ForwardFrame
    for obj in objs:
        kind, num = R.describe(obj)
        if not isinstance(str(obj), str):
            res.violation("C04/str", "str() of an address object is not a string", {"obj": kind})
        if which == "gear":
            field = R.gear_field(kind, num)
            mod, mul = 512, 512
        elif which == "dev":
            field = R.device_field(kind, num)
            mod, mul = 131072, 131072
        else:
            field = R.instance_byte(kind, num)
        for vi, v in enumerate(frames):
            f = FF(width, v)
            if vi % 4 == 3:
                # a frame of the right size however it came about: assembled from pieces (as the drivers assemble what they
                # receive), a plain Frame, a copy
                import copy as _copy
                how = (vi // 4) % 4
                if how == 0:
                    f = FF(8, v >> (width - 8)) + FF(width - 8, v % (1 << (width - 8)))
                elif how == 1:
                    f = FF(width - 8, v >> 8) + FF(8, v % 256)
                elif how == 2:
                    f = frame.Frame(width, v)
                else:
                    f = _copy.deepcopy(f)
                res.hit("assembled_target_frames")
            try:
                obj.add_to_frame(f)
            except Exception as e:
                res.violation(f"C04/add_to_frame/raised/{kind}", f"add_to_frame raised {type(e).__name__} on a frame of the right size",
                              {"obj": [kind, num], "frame": v})
                continue
            res.evaluations += 1
            if which == "inst":
                expect = (v // 65536) * 65536 + field * 256 + v % 256
            else:
                expect = v % mod + field * mul
            nv = f.as_integer
            if nv != expect or len(f) != width:
                res.violation(f"C04/add_to_frame/bits/{kind}",
                              f"add_to_frame wrote {nv:#x}, the standard's layout gives {expect:#x} (other bits must be untouched)",
                              {"obj": [kind, num], "frame": v, "got": nv, "expect": expect})
                continue
            # read back
            try:
                if which == "inst":
                    back = address.instance_from_frame(f)
                else:
                    back = address.from_frame(f)
            except Exception as e:
                res.violation(f"C04/from_frame/raised/{kind}", f"from_frame raised {type(e).__name__}",
                              {"obj": [kind, num], "frame": nv})
                continue
            if which == "dev" and (nv // 65536) % 2 == 0:
                if back is not None:
                    res.violation("C04/from_frame/event-frame-has-address",
                                  "a 24-bit frame with bit 16 clear yielded a destination address",
                                  {"frame": nv, "got": repr(back)})
                continue
            if back is None or R.describe(back) != (kind, num) or not (back == obj) or (back != obj):
                res.violation(f"C04/roundtrip/{kind}",
                              f"object read back from the frame is {R.describe(back) if back is not None else None}, "
                              f"wrote {(kind, num)}; == gives {back == obj}",
                              {"obj": [kind, num], "frame": nv})
        res.distinct += len(frames)
    res.sample({"object": list(R.describe(objs[0])) if objs else None, "frames": [hex(x) for x in list(frames)[:4]],
                "n_frames": len(frames)})


def decode16(desc, res):
    from dali import address, frame
    from models import addr_ref as R
    kinds = [getattr(address, k) for k in R.GEAR_KINDS + R.DEVICE_KINDS]
    for v in range(desc["lo"], desc["hi"]):
        f = frame.ForwardFrame(16, v)
        exp = R.gear_address(v)
        _decode_one(address, R, kinds, f, v, exp, res, "decode16")
    res.sample({"decode16": [hex(desc["lo"]), hex(desc["hi"] - 1)]})


def _decode_one(address, R, kinds, f, v, exp, res, tag):
    res.evaluations += 1
    res.distinct += 1
    res.hit(tag)
    try:
        got = address.from_frame(f)
    except Exception as e:
        res.violation(f"C04/{tag}/raised", f"address.from_frame raised {type(e).__name__}", {"frame": v})
        return
    if f.as_integer != v:
        res.violation(f"C04/{tag}/mutated", "decoding an address modified the frame", {"frame": v})
    gotd = R.describe(got) if got is not None else None
    if gotd != exp:
        res.violation(f"C04/{tag}/partition", f"frame {v:#x} read as {gotd}, the standard's partition says {exp}",
                      {"frame": v, "got": repr(gotd), "expect": repr(exp)})
    matches = []
    for k in kinds:
        try:
            m = k.from_frame(f)
        except Exception as e:
            res.violation(f"C04/{tag}/raised", f"{k.__name__}.from_frame raised {type(e).__name__}", {"frame": v})
            continue
        if m is not None:
            matches.append(R.describe(m))
    want = [exp] if exp else []
    if matches != want:
        res.violation(f"C04/{tag}/exclusive", f"per-kind decoders matched {matches}, expected {want}",
                      {"frame": v, "matches": repr(matches)})


def decode24(desc, res):
    from dali import address, frame
    from models import addr_ref as R
    kinds = [getattr(address, k) for k in R.GEAR_KINDS + R.DEVICE_KINDS]
    for u in range(desc["lo"], desc["hi"]):
        for lo in desc["lows"]:
            v = u * 256 + lo
            f = frame.ForwardFrame(24, v)
            _decode_one(address, R, kinds, f, v, R.device_address(v), res, "decode24")
            try:
                inst = address.instance_from_frame(f)
            except Exception as e:
                res.violation("C04/inst_decode/raised", f"instance_from_frame raised {type(e).__name__}", {"frame": v})
                continue
            res.hit("inst_decode")
            exp = R.instance((v // 256) % 256)
            got = R.describe(inst) if inst is not None else None
            if got != exp:
                res.violation("C04/inst_decode/partition",
                              f"instance byte {(v // 256) % 256:#x} read as {got}, the standard says {exp}",
                              {"frame": v})
            if f.as_integer != v:
                res.violation("C04/inst_decode/mutated", "decoding modified the frame", {"frame": v})
    res.sample({"decode24_upper": [hex(desc["lo"]), hex(desc["hi"] - 1)], "lows": desc["lows"]})


def sizes(res):
    from dali import address, frame
    from dali.exceptions import IncompatibleFrame
    from models import addr_ref as R
    objs = [(o, 16) for o in R.all_gear(address)] + [(o, 24) for o in R.all_device(address)] + \
           [(o, 24) for o in R.all_instances(address)]
    for obj, need in objs:
        kind, num = R.describe(obj)
        for w in range(1, 65):
            if w == need:
                continue
            for v in (0, (1 << w) - 1, ((1 << w) - 1) // 3):
                for cls in (frame.ForwardFrame, frame.Frame):
                    f = cls(w, v)
                    res.evaluations += 1
                    try:
                        obj.add_to_frame(f)
                        res.violation(f"C04/wrong-size/accepted/{kind}",
                                      f"add_to_frame accepted a {w}-bit frame (needs {need})", {"obj": [kind, num], "w": w})
                    except IncompatibleFrame:
                        pass
                    except Exception as e:
                        res.violation(f"C04/wrong-size/wrong-exception/{kind}",
                                      f"{w}-bit frame raised {type(e).__name__} instead of IncompatibleFrame",
                                      {"obj": [kind, num], "w": w})
                    if f.as_integer != v or len(f) != w:
                        res.violation(f"C04/wrong-size/modified/{kind}", "refused frame was modified",
                                      {"obj": [kind, num], "w": w, "v": v, "after": f.as_integer})
        res.distinct += 63 * 3 * 2
    # reading a frame of a size no address kind uses yields nothing
    for w in list(range(1, 16)) + list(range(17, 24)) + list(range(25, 65)):
        for v in (0, (1 << w) - 1):
            f = frame.ForwardFrame(w, v)
            res.evaluations += 1
            try:
                a = address.from_frame(f)
                i = address.instance_from_frame(f)
            except Exception as e:
                res.violation("C04/wrong-size/decode-raised", f"decoding a {w}-bit frame raised {type(e).__name__}", {"w": w})
                continue
            if a is not None or i is not None:
                res.violation("C04/wrong-size/decoded", f"a {w}-bit frame yielded an address or instance", {"w": w, "v": v})
    # 16-bit frames have no instance, and gear/device kinds never read each other's size
    for v in (0, 0xFFFF, 0x0300):
        if address.instance_from_frame(frame.ForwardFrame(16, v)) is not None:
            res.violation("C04/wrong-size/decoded", "a 16-bit frame yielded an instance", {"v": v})
    res.sample({"sizes": "every address/instance object x widths 1..64 except its own"})


def eq(res):
    from dali import address, frame
    from models import addr_ref as R
    a1 = R.all_gear(address) + R.all_device(address) + R.all_instances(address)
    a2 = R.all_gear(address) + R.all_device(address) + R.all_instances(address)   # separately constructed
    d1 = [R.describe(o) for o in a1]
    for i, x in enumerate(a1):
        for j, y in enumerate(a2):
            res.evaluations += 1
            res.hit("eq_pairs")
            want = d1[i] == d1[j]
            try:
                e = (x == y)
                n = (x != y)
            except Exception as ex:
                res.violation("C04/eq/raised", f"comparison raised {type(ex).__name__}", {"a": d1[i], "b": d1[j]})
                continue
            if bool(e) != want:
                fam = "instance" if isinstance(x, address.Instance) else "address"
                which = "unaddressed-instance" if (want and d1[i][1] is None and fam == "instance") else fam
                res.violation(f"C04/eq/{which}/{'not-equal-to-itself' if want else 'equal-to-other'}",
                              f"{d1[i]} == {d1[j]} is {e}, expected {want}", {"a": d1[i], "b": d1[j]})
            elif bool(n) == want:
                res.violation("C04/eq/ne-inconsistent", f"{d1[i]} != {d1[j]} is {n} although == is {e}",
                              {"a": d1[i], "b": d1[j]})
    res.distinct += len(a1) * len(a2)
    for x in a1[:200:7]:
        for other in (R.describe(x)[1], None, "x", 5):
            if x == other:
                res.violation("C04/eq/non-object", f"{R.describe(x)} compares equal to {other!r}", {})
    # numbers outside a kind's range and non-integers are refused when the object is built (never truncated into a byte
    # that means another address)
    ranges = {"GearShort": 64, "GearGroup": 16, "DeviceShort": 64, "DeviceGroup": 32, "InstanceNumber": 32, "InstanceGroup": 32,
              "InstanceType": 32, "FeatureInstanceNumber": 32, "FeatureInstanceGroup": 32, "FeatureInstanceType": 32}
    for kind, n in ranges.items():
        cls = getattr(address, kind)
        for bad in (-1, n, n + 1, 255, 256, "1", None, 1.5, [1]):
            res.evaluations += 1
            res.hit("ctor_rejections")
            try:
                obj = cls(bad)
            except (ValueError, TypeError):
                continue
            except Exception as ex:
                res.violation(f"C04/ctor/wrong-exception/{kind}", f"{kind}({bad!r}) raised {type(ex).__name__}", {"kind": kind, "arg": repr(bad)})
                continue
            res.violation(f"C04/ctor/accepted/{kind}", f"{kind}({bad!r}) was accepted (range 0..{n - 1})", {"kind": kind, "arg": repr(bad)})
        for good in (0, n - 1):
            try:
                cls(good)
            except Exception as ex:
                res.violation(f"C04/ctor/legal-rejected/{kind}", f"{kind}({good}) raised {type(ex).__name__}", {"kind": kind, "arg": good})
    # numbers that are ints without looking like it (True is 1, an IntEnum member, an int subclass): the same address as the int
    import enum

    class Chan(enum.IntEnum):
        one = 1
        three = 3

    class MyInt(int):
        pass
    for kind, n in ranges.items():
        cls = getattr(address, kind)
        w = 16 if kind.startswith("Gear") else 24
        for odd, plain in ((True, 1), (False, 0), (Chan.three, 3), (MyInt(2), 2)):
            res.evaluations += 1
            res.hit("int_like_numbers")
            try:
                a_, b_ = cls(odd), cls(plain)
            except (ValueError, TypeError):
                continue                      # refusing them is fine too
            f1, f2 = frame.ForwardFrame(w, 0x010000 if w == 24 else 0), frame.ForwardFrame(w, 0x010000 if w == 24 else 0)
            a_.add_to_frame(f1)
            b_.add_to_frame(f2)
            if f1 != f2 or not (a_ == b_):
                res.violation(f"C04/int-like-number/{kind}", f"{kind}({odd!r}) writes {f1.as_integer:#x}, {kind}({plain}) writes {f2.as_integer:#x} "
                              f"(== gives {a_ == b_})", {"kind": kind, "arg": repr(odd)})
    # an address object whose number is changed afterwards (its attributes are public): it encodes what it now says it is
    for kind, attr in (("GearShort", "address"), ("DeviceShort", "address"), ("GearGroup", "group"), ("DeviceGroup", "group")):
        cls = getattr(address, kind)
        w = 16 if kind.startswith("Gear") else 24
        obj = cls(1)
        if not hasattr(obj, attr):
            continue
        res.evaluations += 1
        res.hit("reassigned_numbers")
        try:
            setattr(obj, attr, 5)
        except Exception:
            continue                          # read-only attributes are fine too
        f1, f2 = frame.ForwardFrame(w, 0x010000 if w == 24 else 0), frame.ForwardFrame(w, 0x010000 if w == 24 else 0)
        obj.add_to_frame(f1)
        cls(5).add_to_frame(f2)
        back = address.from_frame(f1)
        if f1 != f2 or not (back == obj) or not (obj == cls(5)):
            res.violation(f"C04/reassigned-number/{kind}", f"{kind}(1) with .{attr} set to 5 prints as {obj} and writes {f1.as_integer:#x}; "
                          f"{kind}(5) writes {f2.as_integer:#x}; read back == object: {back == obj}", {"kind": kind})
    # copies made by the standard library are the same address: equal, same class, same bits written
    import copy
    import pickle
    from models import addr_ref as R3
    for obj in R3.all_gear(address) + R3.all_device(address) + R3.all_instances(address, reserved=False):
        w = 16 if type(obj).__name__.startswith("Gear") else 24
        for how, fn in (("copy", copy.copy), ("deepcopy", copy.deepcopy), ("pickle", lambda o: pickle.loads(pickle.dumps(o)))):
            res.evaluations += 1
            try:
                twin = fn(obj)
            except Exception as e:
                res.observe(f"{how}-raises-{type(e).__name__}", type(obj).__name__)
                continue
            res.hit("clones_checked")
            fa, fb = frame.ForwardFrame(w, 0x010000 if w == 24 else 0), frame.ForwardFrame(w, 0x010000 if w == 24 else 0)
            try:
                obj.add_to_frame(fa)
                twin.add_to_frame(fb)
                same = type(twin) is type(obj) and twin == obj and not (twin != obj) and fa == fb and R3.describe(twin) == R3.describe(obj)
            except Exception as e:
                same = False
            if not same:
                res.violation(f"C04/clone-differs/{how}/{type(obj).__name__}", f"{how} of {obj} is {twin} (== gives {twin == obj}); "
                              f"they write {fa.as_integer:#x} / {fb.as_integer:#x}", {"kind": type(obj).__name__, "how": how})
                break
    # ... and an object that came out of a frame belongs to its reader: changing it (or an instance object read from a frame)
    # does not change what the next frame with the same bits reads as
    from models import addr_ref as R2
    for kind, attr in (("GearShort", "address"), ("DeviceShort", "address"), ("GearGroup", "group"), ("DeviceGroup", "group")):
        cls = getattr(address, kind)
        w = 16 if kind.startswith("Gear") else 24
        for n in (0, 1, 7, 15):
            f1 = frame.ForwardFrame(w, 0x010000 if w == 24 else 0)
            cls(n).add_to_frame(f1)
            first = address.from_frame(f1)
            if first is None or not hasattr(first, attr):
                continue
            res.evaluations += 1
            res.hit("decoded_objects_changed")
            try:
                setattr(first, attr, (n + 9) % 16)
            except Exception:
                continue
            f2 = frame.ForwardFrame(w, f1.as_integer)
            second = address.from_frame(f2)
            want = R2.gear_address(f2.as_integer) if w == 16 else R2.device_address(f2.as_integer)
            if second is first or R2.describe(second) != want:
                res.violation(f"C04/decoded-object-shared/{kind}", f"after the {kind} read from frame {f1.as_integer:#x} had its .{attr} "
                              f"changed, a fresh frame with the same bits reads as {second} (the standard's partition: {want})"
                              + ("; both reads returned the same object" if second is first else ""), {"kind": kind, "number": n})
    for ib in (0x00, 0x05, 0x1F, 0x80, 0x9F, 0xC3, 0xDF):
        f1 = frame.ForwardFrame(24, (0x01 << 16) | (ib << 8) | 0x30)
        try:
            first = address.instance_from_frame(f1)
        except Exception:
            first = None
        if first is None:
            continue
        for attr in ("value", "group", "type", "number"):
            if hasattr(first, attr) and type(getattr(first, attr)) is int:
                res.evaluations += 1
                res.hit("decoded_objects_changed")
                try:
                    setattr(first, attr, (getattr(first, attr) + 3) % 32)
                except Exception:
                    continue
                second = address.instance_from_frame(frame.ForwardFrame(24, f1.as_integer))
                if second is first or R2.describe(second) != R2.instance(ib):
                    res.violation("C04/decoded-object-shared/instance", f"after the instance object read from byte {ib:#04x} had its "
                                  f".{attr} changed, a fresh frame with the same byte reads as {second} "
                                  f"(the standard's partition: {R2.instance(ib)})", {"byte": ib})
                break
    res.sample({"eq_pairs": len(a1) * len(a2), "example": [list(d1[0]), list(d1[70])]})


def threads(seed, res):
    """Decoding an address is a read-only question about a frame: several threads asking at once (a bus monitor thread beside
    the application's) get the answers a single thread gets.  Tiny switch interval, 8 threads, shuffled work lists."""
    import sys
    import threading
    from dali import address, frame
    from models import addr_ref as R
    r = rng(seed, "C04", "threads")
    frames = [(16, r.getrandbits(16)) for _ in range(3000)] + [(24, r.getrandbits(24) | 0x010000) for _ in range(3000)]
    # kinds in proportions that keep the matching kind changing
    frames += [(16, ((0x80 | g << 1 | 1) << 8) | 0x90) for g in range(16)] * 20 + [(16, 0xFF90), (16, 0xFD90), (24, 0xFFFE00), (24, 0x81FE00)] * 50
    expect = {}
    for w, v in frames:
        expect[(w, v)] = R.gear_address(v) if w == 16 else R.device_address(v)
    wrong = []
    old = sys.getswitchinterval()
    sys.setswitchinterval(1e-6)
    try:
        def worker(k):
            mine = list(frames)
            import random
            random.Random(k).shuffle(mine)
            for w, v in mine:
                try:
                    got = address.from_frame(frame.ForwardFrame(w, v))
                    gd = R.describe(got) if got is not None else None
                except Exception as e:     # noqa
                    gd = ("raised", type(e).__name__)
                if gd != expect[(w, v)]:
                    wrong.append((k, w, v, gd))
        ts = [threading.Thread(target=worker, args=(k,)) for k in range(8)]
        for t in ts:
            t.start()
        for t in ts:
            t.join(300)
    finally:
        sys.setswitchinterval(old)
    res.evaluations += 8 * len(frames)
    res.hit("threaded_decodes", 8 * len(frames))
    if wrong:
        k, w, v, gd = wrong[0]
        res.violation("C04/threads/partition", f"with 8 threads decoding at once, thread {k} read frame {v:#x} ({w} bits) as {gd}; "
                      f"the bits say {expect[(w, v)]} ({len(wrong)} wrong answers)", {"frame": v, "width": w})


def mixed(seed, res):
    """All codecs in one process after a history of unrelated frame operations on other widths.

    The property must hold whatever was done with frames before: the same slices are first written
    on frames of every other width (as other parts of an application would), then every object is
    written into / read from frames of both sizes, interleaved."""
    from dali import address, frame
    from models import addr_ref as R
    r = rng(seed, "C04", "mixed")
    for w in list(range(1, 33)) + [64]:
        f = frame.Frame(w)
        for hi in range(w):
            for lo in (range(hi + 1) if w <= 32 else (0, hi // 2, hi)):
                f[hi:lo] = (1 << (hi - lo + 1)) - 1
                f[hi:lo] = 0
            f[hi] = True
            f[hi] = False
    res.hit("history_ops", 1)
    gear, dev, inst = R.all_gear(address), R.all_device(address), R.all_instances(address)
    jobs = []
    for _ in range(6000):
        which = r.choice(["gear", "dev", "inst"])
        pool = {"gear": gear, "dev": dev, "inst": inst}[which]
        jobs.append((which, r.randrange(len(pool)), r.getrandbits(16 if which == "gear" else 24)))
    for which, oi, v in jobs:
        sub = Result()
        desc = {"objs": [0, 1], "frames": "sample"}
        # reuse the per-object oracle on a single (object, frame) pair
        _one_pair(which, oi, v, sub, address, frame, R)
        res.evaluations += 1
        for vio in sub.violations:
            res.violation(vio["key"] + "/after-history", vio["what"], vio["witness"])
    res.distinct += len(jobs)
    # one frame object read, changed bit by bit, and read again: what is read always follows the bits the frame holds now
    for t in range(1500):
        w = r.choice([16, 24])
        v = r.getrandbits(w)
        f = frame.ForwardFrame(w, v)
        for step in range(4):
            try:
                got = address.from_frame(f)
                gi = address.instance_from_frame(f) if hasattr(address, "instance_from_frame") and w == 24 else None
            except Exception as e:
                res.violation("C04/reread/raised", f"address.from_frame raised {type(e).__name__} on {v:#x}", {"frame": v})
                break
            exp = R.gear_address(v) if w == 16 else R.device_address(v)
            res.evaluations += 1
            res.hit("reread_after_bit_writes")
            if (R.describe(got) if got is not None else None) != exp:
                res.violation("C04/reread/stale-address", f"frame now holds {v:#x} ({w} bits) after single-bit writes; its address reads "
                              f"{R.describe(got) if got is not None else None}, the bits say {exp}", {"frame": v, "step": step})
                break
            if gi is not None and (v >> 16) & 1 and R.describe(gi) != R.instance((v >> 8) & 0xFF):
                res.violation("C04/reread/stale-instance", f"frame now holds {v:#x}; its instance byte reads {R.describe(gi)}", {"frame": v})
                break
            bit = r.randrange(w - 8, w) if r.random() < 0.7 else r.randrange(w)      # mostly in the address byte
            if r.random() < 0.6:
                f[bit] = not f[bit]
            else:
                lo = max(bit - 2, 0)
                f[bit:lo] = r.getrandbits(bit - lo + 1)
            v = f.as_integer
    # labelled addresses an application derives from the library's kinds never take part in decoding, and stay equal to
    # what they encode
    labelled = {}
    for nm in ("GearShort", "GearGroup", "DeviceShort", "DeviceGroup", "InstanceNumber", "InstanceGroup", "InstanceType",
               "FeatureInstanceNumber"):
        labelled[nm] = type("Labelled" + nm, (getattr(address, nm),), {"__module__": "application"})
    for nm, cls in labelled.items():
        for num in (0, 1, 15):
            obj, plain = cls(num), getattr(address, nm)(num)
            w = 16 if nm.startswith("Gear") else 24
            f1, f2 = frame.ForwardFrame(w, 0x010000 if w == 24 else 0), frame.ForwardFrame(w, 0x010000 if w == 24 else 0)
            obj.add_to_frame(f1)
            plain.add_to_frame(f2)
            res.evaluations += 1
            res.hit("labelled_kinds_checked")
            back = address.from_frame(f2) if not nm.startswith(("Instance", "Feature")) else address.instance_from_frame(f2) \
                if hasattr(address, "instance_from_frame") else None
            if f1 != f2:
                res.violation(f"C04/labelled/bits/{nm}", f"a class derived from {nm} writes {f1.as_integer:#x}, {nm} writes {f2.as_integer:#x}", {"kind": nm})
            elif back is not None and (not (back == plain) or not (plain == back) or type(back) is cls):
                res.violation(f"C04/labelled/decode/{nm}", f"after an application derived a class from {nm}, the frame of {nm}({num}) reads back as "
                              f"{type(back).__name__} and == gives {back == plain}/{plain == back}", {"kind": nm, "num": num})
    res.sample({"mixed": "6000 random (object, frame) pairs of all three codecs in one process after slice writes on widths 1..64"})


def _one_pair(which, oi, v, res, address, frame, R):
    if which == "gear":
        obj, width = R.all_gear(address)[oi], 16
    elif which == "dev":
        obj, width = R.all_device(address)[oi], 24
    else:
        obj, width = R.all_instances(address)[oi], 24
    kind, num = R.describe(obj)
    f = frame.ForwardFrame(width, v)
    try:
        obj.add_to_frame(f)
    except Exception as e:
        res.violation(f"C04/add_to_frame/raised/{kind}", f"add_to_frame raised {type(e).__name__}", {"obj": [kind, num], "frame": v})
        return
    if which == "gear":
        expect = v % 512 + R.gear_field(kind, num) * 512
    elif which == "dev":
        expect = v % 131072 + R.device_field(kind, num) * 131072
    else:
        expect = (v // 65536) * 65536 + R.instance_byte(kind, num) * 256 + v % 256
    if f.as_integer != expect or len(f) != width:
        res.violation(f"C04/add_to_frame/bits/{kind}",
                      f"add_to_frame wrote {f.as_integer:#x}, the standard's layout gives {expect:#x}",
                      {"obj": [kind, num], "frame": v, "got": f.as_integer, "expect": expect})
        return
    back = address.instance_from_frame(f) if which == "inst" else address.from_frame(f)
    if which == "dev" and (expect // 65536) % 2 == 0:
        if back is not None:
            res.violation("C04/from_frame/event-frame-has-address", "event frame yielded an address", {"frame": expect})
        return
    if back is None or R.describe(back) != (kind, num) or not (back == obj):
        res.violation(f"C04/roundtrip/{kind}", f"read back {R.describe(back) if back is not None else None}, wrote {(kind, num)}",
                      {"obj": [kind, num], "frame": expect})


def run_shard(desc, tier, seed):
    res = Result()
    if "replay" in desc:
        # witnesses are (object, frame) / frame records; re-run the shard kinds that can contain them
        for d in ({"kind": "sizes"}, {"kind": "eq"}, {"kind": "decode16", "lo": 0, "hi": 65536}):
            res2 = run_shard(d, tier, seed)
            for v in res2.violations:
                if v["key"] == desc["replay"]["key"]:
                    res.violation(v["key"], v["what"], v["witness"])
            res.evaluations += res2.evaluations
        for p in range(4):
            for k in ("gear", "dev", "inst"):
                r2 = Result()
                run_add({"objs": [p, 4], "frames": "sample"}, seed, r2, k)
                for v in r2.violations:
                    if v["key"] == desc["replay"]["key"]:
                        res.violation(v["key"], v["what"], v["witness"])
        return res
    k = desc["kind"]
    if k == "gear_add":
        run_add(desc, seed, res, "gear")
    elif k == "dev_add":
        run_add(desc, seed, res, "dev")
    elif k == "inst_add":
        run_add(desc, seed, res, "inst")
    elif k == "decode16":
        decode16(desc, res)
    elif k == "decode24":
        decode24(desc, res)
    elif k == "sizes":
        sizes(res)
    elif k == "eq":
        eq(res)
    elif k == "mixed":
        mixed(seed, res)
    elif k == "threads":
        threads(seed, res)
    return res
