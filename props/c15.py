"""C15 - async drivers keep transactions atomic and device-type prefixes adjacent.

The four asyncio drivers run in the virtual-time simulation with 2-4 concurrent callers (single
sends, multi-command sequences with sleeps/progress items, sequences that raise, callers cancelled
at their k-th step, hand-made transactions).  An offline checker over the gateway's wire log decides
atomicity and adjacency; end-state monitors decide completion, lock release and generator closing.
"""
import asyncio
import inspect

from vlib.common import Result, rng, short_tb, digest
from vlib import vloop
from props import simlib

PROP = "C15"
LEVEL = "exploration"
CONTRACTS = "icontract"
DEVMODE = True
RULE = ("one case = (driver, 2-4 callers each a send / sequence / raising sequence / cancelled-at-step-k / manual "
        "transaction, start offsets, gateway delay picks); distinct = distinct digests of (driver, caller-tag sequence of "
        "the wire log, pick log); non-trivial: at least two callers' frames on the wire")
ASSUMPTIONS = ["gateway models transmit accepted frames in the order they were handed over",
               "callers use disjoint short addresses and device types, so every frame identifies its caller",
               "serial drivers emit ENABLE DEVICE TYPE only in run_sequence (and hand-made transactions): a bare serial "
               "send() of a device-type command is exercised and recorded, not judged"]
EXHAUSTIVE = {"quick": False, "thorough": False}
REQUIRED_ANCHORS = {"all": ["runs", "interleavings_seen", "units_checked", "dt_adjacency_checked", "cancelled_callers",
                            "raising_sequences", "lock_checked", "loss_runs", "dfs_runs", "drivers_tridonic", "drivers_hasseb", "drivers_luba", "drivers_sci"]}
SHARD_TIMEOUT = {"quick": 600, "thorough": 3000}


def plan(tier, seed):
    n = 800 if tier == "quick" else 6000
    parts = 4 if tier == "quick" else 8
    sh = [{"driver": d, "part": p, "n": n // parts} for d in simlib.DRIVERS for p in range(parts)]
    # bounded-exhaustive walk over the first decisions of a fixed three-caller scenario
    for d in simlib.DRIVERS:
        for ct in ([0.03] if tier == "quick" else [0.004, 0.03, 0.07, 0.15]):
            sh.append({"kind": "dfs", "driver": d, "depth": 5 if tier == "quick" else 9, "budget": 400 if tier == "quick" else 20000,
                       "cancel_time": ct})
    for d in ("tridonic", "hasseb"):
        sh.append({"kind": "app-disconnect", "driver": d, "n": 160 if tier == "quick" else 2000})
    return sh


class Boom(Exception):
    pass


class Spin(Exception):
    """Raised by the monitor on _send_raw when the same refused frame is offered more than 500 times in one send()."""


def make_caller(r, driver, c):
    """Describe caller c: kind and the list of items its unit(s) consist of."""
    kinds = simlib.KINDS[driver]
    kind = r.choice(["send", "send", "seq", "seq", "seq", "seq-raise", "seq-cancel", "send-cancel", "manual",
                     "seq-cancel", "send-cancel", "seq-badclean"])
    if kind == "manual" and driver == "hasseb":
        kind = "seq"
    n = 1 if kind.startswith("send") else (1 if kind == "manual" else r.randint(2, 5))
    items = []
    k = r.randrange(48)        # any (caller, k) gives a frame unique to the caller; the offset varies the command classes
    for _ in range(n):
        ck = r.choice(kinds) if kind != "manual" else ("dtquery" if driver != "hasseb" else "dttwice")
        items.append(("cmd", simlib.make_command(r, ck, c, k, driver)))
        k += 1
        if kind.startswith("seq") and r.random() < 0.3:
            items.append(("sleep", r.choice([0.0, 0.01, 0.3])))
        if kind.startswith("seq") and r.random() < 0.2:
            items.append(("progress", None))
    raise_at = r.randrange(len(items) + 1) if kind == "seq-raise" else None
    cancel_at = cancel_time = None
    if kind.endswith("cancel") or kind == "seq-badclean":
        if r.random() < 0.5 and kind != "seq-badclean":
            cancel_at = r.randint(1, 14)                 # at the start of its k-th task step (just after a wake-up)
        else:
            cancel_time = r.choice([0.002, 0.008, 0.02, 0.03, 0.05, 0.08, 0.12, 0.2])    # while suspended, at a virtual instant
    badclean = r.choice(["raise", "yield"]) if kind == "seq-badclean" else None
    return {"kind": kind, "items": items, "raise_at": raise_at, "cancel_at": cancel_at, "cancel_time": cancel_time, "badclean": badclean,
            "start": r.choice([0, 0, 0.001, 0.01, 0.04, 0.1]), "repeat": r.choice([1, 1, 2]) if kind == "send" else 1}


def run_case(driver, seed, part, i, res, forced=None):
    from dali import sequences
    r = rng(seed, "C15", driver, part, i)
    n_callers = r.choice([2, 2, 3, 4])
    callers = [make_caller(r, driver, c) for c in range(n_callers)]
    if forced is not None:
        callers = forced["callers"]
        n_callers = len(callers)
    # HID only: the device vanishes for a moment while callers (exceptions off) are retried transparently
    loss = driver in ("tridonic", "hasseb") and r.random() < 0.3
    if loss:
        for spec in callers:
            spec["cancel_at"] = spec["cancel_time"] = spec["badclean"] = None
            if spec["kind"] in ("seq-cancel", "seq-badclean"):
                spec["kind"] = "seq"
            elif spec["kind"] == "send-cancel":
                spec["kind"] = "send"
        t_loss = r.choice([0.003, 0.01, 0.02, 0.03, 0.045, 0.06, 0.08, 0.1, 0.15])
    # line noise on the serial port: a lone start byte (LUBA) at some instant; a command may fail loudly because of it, nobody may
    # be left waiting for ever with the lock held
    noise = driver == "luba" and forced is None and r.random() < 0.25
    t_noise = r.choice([0.001, 0.01, 0.02, 0.035, 0.05, 0.08, 0.12])
    # a caller in keep-trying mode hands the driver a frame the gateway cannot carry: refused at once, lock untouched
    unsupported = driver in ("tridonic", "hasseb") and forced is None and r.random() < 0.2
    early = forced is None and r.random() < 0.25
    # SCI gateway on a busy bus: the status report of one frame comes after the driver's confirmation timeout.  The caller of
    # that frame may fail loudly (TimeoutError); nothing is written that nobody asked for, everybody completes
    slow_confirm = driver == "sci" and forced is None and not loss and r.random() < 0.2
    extra = {}
    # loud: send() reports the loss to its caller (CommunicationError) instead of retrying - the lock must be given up all the same
    loud = loss and r.random() < 0.35
    picker = simlib.Picker(r) if forced is None else simlib.Picker(r, prefix=forced["prefix"], default="first")
    if forced is not None:
        loss = False
        # start offsets are decisions of the exhaustive walk too
        for spec in callers:
            spec["start"] = picker.pick("start", [0, 0.003, 0.02, 0.06])
    def answer(width, value, idx, dt):
        # every bus outcome of a query: silence, a clean answer, colliding answers (framing error)
        from gateways.sim import is_query
        if not is_query(width, value, dt):
            return None
        ra = rng(seed, "C15", "answer", driver, width, value, i if forced is None else 0)
        c = ra.random()
        return None if c < 0.2 else (("ok", ra.getrandbits(8)) if c < 0.7 else ("collision", ra.getrandbits(8)))

    n_losses = r.choice([1, 1, 2, 3]) if loss else 0
    loss_shape = r.choice(["gone", "gone", "eagain"]) if loss else None
    limit_ = r.choice([None, None, 1, 2]) if loss and loss_shape == "gone" else None
    sim = simlib.Sim(driver, picker, answer=answer, hid_kwargs={"reconnect_interval": 0.5, "reconnect_limit": limit_} if loss else None)
    outcome = {}
    caller_tasks = {}
    gens = {}
    progress_log = {}

    def gen_for(c, spec):
        def g():
          try:
            for idx, (what, x) in enumerate(spec["items"]):
                if spec["raise_at"] == idx:
                    raise Boom(c)
                if what == "cmd":
                    yield x
                elif what == "sleep":
                    yield sequences.sleep(x)
                else:
                    yield sequences.progress(message=f"caller {c}")
            if spec["raise_at"] == len(spec["items"]):
                raise Boom(c)
            return ("done", c)
          finally:
            if spec.get("badclean") == "raise":
                raise KeyError("cleanup of the sequence failed")
            if spec.get("badclean") == "yield":
                yield sequences.progress(message="cleanup that ignores GeneratorExit")
        return g()

    async def body(c, spec):
        await asyncio.sleep(spec["start"])
        d = sim.driver
        if spec["kind"].startswith("send"):
            # "not in a transaction" spelled the ways an application wrapper with an optional flag spells it
            flag = (None, False, 0, "omitted")[(c + i) % 4]
            for _ in range(spec["repeat"]):
                if flag == "omitted":
                    await d.send(spec["items"][0][1])
                else:
                    await d.send(spec["items"][0][1], in_transaction=flag)
            return "sent"
        if spec["kind"] == "manual":
            from dali.gear.general import EnableDeviceType
            cmd = spec["items"][0][1]
            async with d.transaction_lock:
                if driver == "tridonic":
                    # the HID drivers put the ENABLE DEVICE TYPE prefix themselves; a hand-made transaction here is a bus
                    # power-supply switch followed by commands, all under the caller's lock
                    await d.power_supply(True, in_transaction=True)
                    res.hit("power_supply_in_transaction")
                    await d.send(cmd, in_transaction=True)
                else:
                    await d.send(EnableDeviceType(cmd.devicetype), in_transaction=(True, 1)[c % 2])
                    await d.send(cmd, in_transaction=True)
            return "manual"
        gens[c] = gen_for(c, spec)
        if c % 2 == 0:
            # with a progress callback: progress items reach it in order, once each, while the transaction is held
            progress_log[c] = []
            return await d.run_sequence(gens[c], progress=lambda p, c=c: progress_log[c].append((p.message, d.transaction_lock.locked())))
        return await d.run_sequence(gens[c])

    async def main(sim):
        if early:
            # callers that arrive before the gateway is connected are refused; the refusal leaves nothing behind
            from dali.gear.general import QueryStatus as _QS, DAPC as _DAPC
            from dali import address as _A2
            d0 = sim.driver
            for form in ("send", "seq", "send"):
                def one():
                    yield _DAPC(_A2.GearShort(2), 9)
                try:
                    if form == "send":
                        await asyncio.wait_for(d0.send(_QS(_A2.GearShort(1))), 5.0)
                    else:
                        await asyncio.wait_for(d0.run_sequence(one()), 5.0)
                    extra.setdefault("early", []).append("returned")
                except BaseException as e:  # noqa - whatever the refusal looks like
                    extra.setdefault("early", []).append(type(e).__name__)
            res.hit("refused_before_connect")
            extra["early_lock_left_held"] = d0.transaction_lock.locked()
            extra["early_wire"] = len(sim.bus.wire)
        await sim.connect()
        t0_ = sim.world.now
        if loss:
            sim.driver.exceptions_on_send = loud
            if loss_shape == "eagain":
                # the device's output queue is full for a while: writes fail with BlockingIOError, reads go on
                def block():
                    sim.dev.blocked_until = sim.world.now + r.choice([0.02, 0.2, 0.7])
                sim.world.at(sim.world.now + t_loss, block)
                res.hit("write_would_block_runs")
            else:
                # one to three drops; every reconnection succeeds at its first attempt, so a limit of 1 or 2 is never used up
                for n_ in range(n_losses):
                    sim.world.at(sim.world.now + t_loss + 1.9 * n_, lambda: sim.dev.lose(r.choice(["eof", "oserror"])))
                    sim.world.at(sim.world.now + t_loss + 1.9 * n_ + 0.3, sim.dev.restore)
                if n_losses > 1:
                    res.hit("repeated_loss_runs")
        tasks = []
        if slow_confirm:
            cmds_ = [x for spec in callers for (what, x) in spec["items"] if what == "cmd"]
            if cmds_:
                tgt = r.choice(cmds_)
                sim.dev.late_confirms[(len(tgt.frame), tgt.frame.as_integer)] = r.choice([0.105, 0.13, 0.2, 0.35])
                res.hit("slow_confirmation_runs")
        if noise:
            sim.world.at(sim.world.now + t_noise, lambda: sim.dev.send_whole(0, b"\x59"))
            res.hit("noise_runs")
        if unsupported:
            from dali import command as _command, frame as _frame
            import dali.device.general as _dg
            from dali import address as _A
            bad = _dg.IdentifyDevice(_A.DeviceShort(1)) if driver == "hasseb" else _command.Command(_frame.ForwardFrame(25, 1))

            # monitor on the driver's own transmit routine: the same refused frame offered again and again without the caller
            # ever yielding is a busy loop the virtual clock cannot see
            orig_raw = getattr(sim.driver, "_send_raw", None)
            tries = [0]
            if orig_raw is None:
                # the driver's transmit routine goes by another name now: no monitor, the scenario is skipped (a busy loop
                # would end in the shard's time-out, i.e. inconclusive)
                extra["unsupported"] = "UnsupportedFrameTypeError"
                res.add("unsupported_monitor_not_attached")

            async def counted(cmd, *a, **kw):
                if cmd is bad:
                    tries[0] += 1
                    if tries[0] > 500:
                        raise Spin()
                return await orig_raw(cmd, *a, **kw)
            if orig_raw is not None:
                sim.driver._send_raw = counted

            async def refused():
                if orig_raw is None:
                    return
                await asyncio.sleep(r.choice([0, 0.002, 0.02]))
                try:
                    await sim.driver.send(bad, exceptions=False)
                    extra["unsupported"] = "returned"
                except Spin:
                    extra["unsupported"] = "spin"
                except Exception as e:
                    extra["unsupported"] = type(e).__name__
            tasks.append(asyncio.ensure_future(refused()))
            res.hit("unsupported_in_keep_trying_mode")
        if loss and not unsupported and getattr(sim.driver, "_send_raw", None) is not None:
            # the same monitor for every command while the gateway misbehaves: a command offered to the transmit routine
            # hundreds of times within one send() is a loop that never yields (the virtual clock cannot see it)
            orig_raw2 = sim.driver._send_raw
            seen_ = {}

            async def counted2(cmd, *a, **kw):
                seen_[id(cmd)] = seen_.get(id(cmd), 0) + 1
                if seen_[id(cmd)] > 500:
                    raise Spin()
                return await orig_raw2(cmd, *a, **kw)
            sim.driver._send_raw = counted2
        for c, spec in enumerate(callers):
            t = vloop.CountingTask(body(c, spec), loop=asyncio.get_running_loop(), cancel_at=spec["cancel_at"])
            if spec["cancel_time"] is not None:
                asyncio.get_running_loop().call_at(sim.world.now + spec["cancel_time"], t.external_cancel)
            tasks.append(t)
            caller_tasks[c] = t
        if loss:
            try:
                done = await asyncio.wait_for(asyncio.gather(*tasks, return_exceptions=True), 30.0)
            except asyncio.TimeoutError:
                return "callers-not-finished-after-reconnect"
            # a caller that arrives after the last drop has been repaired
            t_end = t0_ + t_loss + 1.9 * max(n_losses - 1, 0) + 0.3 + 1.2
            await asyncio.sleep(max(0.0, t_end - sim.world.now))
            from dali.gear.general import QueryStatus as _QS2
            from dali import address as _A3
            try:
                await asyncio.wait_for(sim.driver.send(_QS2(_A3.GearShort(62))), 10.0)
            except (asyncio.TimeoutError, TimeoutError):
                return "caller-after-the-last-drop-never-completes"
            except Exception as e:
                if not loud:
                    return f"caller-after-the-last-drop-raised-{type(e).__name__}"
        else:
            done = await asyncio.gather(*tasks, return_exceptions=True)
        if unsupported:
            done = done[1:]
        for c, x in enumerate(done):
            outcome[c] = x
        await asyncio.sleep(1.5)      # let the gateway finish what it has accepted
        return True

    out, stalled = sim.run(main)
    wire = [w for w in sim.bus.wire if w["origin"] == "own"]
    res.evaluations += 1
    res.hit("runs")
    res.hit("drivers_" + driver)
    tags = [simlib.caller_of(w["width"], w["value"]) for w in wire]
    res.digests.add(digest(driver, tags, picker.log))
    if len(set(tags)) > 1:
        res.hit("interleavings_seen")
    wit = {"driver": driver, "seed": seed, "part": part, "case": i,
           "callers": [{"kind": s["kind"], "items": [str(x) if w == "cmd" else (w, x) for w, x in s["items"]], "raise_at": s["raise_at"],
                        "cancel_at": s["cancel_at"], "cancel_time": s["cancel_time"], "badclean": s["badclean"], "start": s["start"]} for s in callers],
           "wire": [(hex(w["value"]), t) for w, t in zip(wire, tags)][:60], "picks": picker.log[:50], "loss": (t_loss if loss else None)}
    try:
        if extra.get("early_lock_left_held"):
            res.violation(f"C15/{driver}/refused-before-connect/lock-left-held", "callers that were refused before the gateway was "
                          f"connected ({extra.get('early')}) left the transaction lock held", wit)
            return
        if stalled:
            res.violation(f"C15/{driver}/caller-never-completes", "the simulation stalled: some caller is blocked for ever "
                          f"(outcomes so far {({c: repr(v) for c, v in outcome.items()})})", wit)
            return
        if simlib.detached(out):
            res.inconclusive.append('harness detached: ' + str(out))
            return
        if out is not True:
            res.violation(f"C15/{driver}/crash", f"simulation ended with {out!r}", wit)
            return
        if loss:
            res.hit("loss_runs")
        for c, plog in progress_log.items():
            spec = callers[c]
            n_prog = sum(1 for w_, x_ in spec["items"] if w_ == "progress")
            res.hit("progress_callbacks_checked")
            if any(not held for (_m, held) in plog):
                res.violation(f"C15/{driver}/progress-outside-transaction", "a progress callback ran while the transaction lock was free", wit)
            msgs = [m for (m, _h) in plog]
            if spec.get("badclean") == "yield" and msgs and msgs[-1].startswith("cleanup that ignores"):
                msgs = msgs[:-1]          # the misbehaving cleanup's own item (see gen_for)
            plog = plog[:len(msgs)]
            if msgs != [f"caller {c}"] * len(msgs) or len(msgs) > n_prog:
                res.violation(f"C15/{driver}/progress-items", f"caller {c}: progress callback received {plog}, the sequence has {n_prog} progress items", wit)
            elif spec["kind"] == "seq" and not loss and outcome.get(c) == ("done", c) and len(plog) != n_prog:
                res.violation(f"C15/{driver}/progress-items", f"caller {c}: sequence completed, {len(plog)} of {n_prog} progress items delivered", wit)
        # ---- expected per-caller streams and units (not under loss: retries legitimately repeat frames)
        if unsupported and extra.get("unsupported") != "UnsupportedFrameTypeError":
            res.violation(f"C15/{driver}/unsupported-frame/{extra.get('unsupported')}",
                          f"send(<frame the gateway cannot carry>, exceptions=False) "
                          + ("offered the frame to the gateway more than 500 times without yielding (a busy loop; stopped by the monitor)" if extra.get("unsupported") == "spin"
                             else f"ended with {extra.get('unsupported')!r}") + "; expected UnsupportedFrameTypeError at once", wit)
        for c, spec in enumerate(callers if not (loss or noise) else []):
            in_seq = spec["kind"].startswith("seq") or spec["kind"] == "manual"
            units = []
            if spec["kind"].startswith("send"):
                for _ in range(spec["repeat"]):
                    units.append(simlib.expected_frames(spec["items"][0][1], driver, False))
            elif spec["kind"] == "manual":
                cmd = spec["items"][0][1]
                units.append([(16, 0xC100 + cmd.devicetype)] + simlib.expected_frames(cmd, driver, False)[-(2 if cmd.sendtwice else 1):])
            else:
                u = []
                for idx, (what, x) in enumerate(spec["items"]):
                    if spec["raise_at"] == idx:
                        break
                    if what == "cmd":
                        u += simlib.expected_frames(x, driver, True)
                units.append(u)
            expected = [f for u in units for f in u]
            mine = [(w["width"], w["value"]) for w, t in zip(wire, tags) if t == c]
            completed = not isinstance(outcome.get(c), BaseException)
            cancelled = spec["cancel_at"] is not None or spec["cancel_time"] is not None
            abnormal = cancelled or spec["raise_at"] is not None or spec["badclean"] is not None
            res.hit("units_checked", len(units))
            timed_out = slow_confirm and isinstance(outcome.get(c), (asyncio.TimeoutError, TimeoutError))
            if (completed or spec["raise_at"] is not None) and not timed_out:
                ok = mine == expected
            else:
                ok = mine == expected[:len(mine)]
            if not ok:
                res.violation(f"C15/{driver}/caller-stream-differs/{spec['kind']}",
                              f"caller {c} ({spec['kind']}) put {[hex(v) for _, v in mine]} on the wire, expected "
                              f"{'(a prefix of) ' if not completed else ''}{[hex(v) for _, v in expected]}", {**wit, "caller": c})
                continue
            # contiguity of each unit in the global wire log
            pos = [k for k, t in enumerate(tags) if t == c]
            off = 0
            for u in units:
                p = pos[off:off + len(u)]
                off += len(u)
                if len(p) >= 2 and p[-1] - p[0] != len(p) - 1:
                    between = sorted({tags[k] for k in range(p[0], p[-1] + 1)} - {c})
                    res.violation(f"C15/{driver}/unit-interleaved/{spec['kind']}",
                                  f"frames of caller(s) {between} appear inside a {spec['kind']} unit of caller {c} (wire positions {p})",
                                  {**wit, "caller": c})
                    break
            # outcome of the caller
            if spec["raise_at"] is not None and not cancelled and spec["badclean"] is None:
                res.hit("raising_sequences")
                if not isinstance(outcome.get(c), Boom) and not timed_out:
                    res.violation(f"C15/{driver}/sequence-exception-lost", f"the sequence raised Boom but the caller got {outcome.get(c)!r}", {**wit, "caller": c})
            if cancelled:
                res.hit("cancelled_callers")
                # a cancelled caller stops: whatever it had handed to the gateway may still go out, nothing new is written
                # (0.15 s covers a send-twice command and a prefixed command already in the gateway's queue)
                t_c = getattr(caller_tasks.get(c), "cancelled_at", None)
                if t_c is not None and isinstance(outcome.get(c), BaseException) is False:
                    late = [(hex(w["value"]), round(w["t"], 4)) for w, t in zip(wire, tags) if t == c and w["t"] > t_c + 0.15]
                    if late:
                        res.violation(f"C15/{driver}/cancellation-ignored/{spec['kind']}", f"caller {c} was cancelled at {t_c:.4f} and completed "
                                      f"normally all the same; it still put {late[:4]} on the bus afterwards", {**wit, "caller": c})
            if completed and not abnormal and spec["kind"].startswith("seq") and outcome.get(c) != ("done", c):
                res.violation(f"C15/{driver}/sequence-result-lost", f"run_sequence returned {outcome.get(c)!r}", {**wit, "caller": c})
            if c in gens and spec["badclean"] != "yield" and inspect.getgeneratorstate(gens[c]) not in ("GEN_CLOSED", "GEN_CREATED"):
                res.violation(f"C15/{driver}/generator-not-closed/{spec['kind']}", f"the sequence generator of caller {c} is left "
                              f"{inspect.getgeneratorstate(gens[c])}", {**wit, "caller": c})
        # ---- device-type adjacency over the whole wire (where the library owes the prefix)
        owes = {}
        for c, spec in enumerate(callers):
            in_seq = spec["kind"].startswith("seq") or spec["kind"] == "manual"
            for what, x in spec["items"]:
                if what == "cmd" and len(x.frame) == 16 and x.devicetype != 0:
                    if driver in ("tridonic", "hasseb") or in_seq:
                        owes[(16, x.frame.as_integer)] = (x.devicetype, bool(x.sendtwice))
                    else:
                        res.observe("serial-bare-send-of-device-type-command-has-no-prefix", str(x))
        prev_own = None
        for k, w in enumerate(wire):
            key = (w["width"], w["value"])
            if key in owes:
                res.hit("dt_adjacency_checked")
                dtv, tw = owes[key]
                prevw = wire[k - 1] if k else None
                if tw:
                    # the gateway repeats a send-twice frame itself: the second of each pair follows the first
                    run = 0
                    j = k - 1
                    while j >= 0 and (wire[j]["width"], wire[j]["value"]) == key:
                        run += 1
                        j -= 1
                    if run % 2 == 1:
                        continue
                if prevw is None or (prevw["width"], prevw["value"]) != (16, 0xC100 + dtv):
                    res.violation(f"C15/{driver}/device-type-prefix-not-adjacent",
                                  f"frame {w['value']:#06x} needs device type {dtv} but is preceded on the wire by "
                                  f"{hex(prevw['value']) if prevw else None}", {**wit, "position": k})
                    break
        # ---- end state
        res.hit("lock_checked")
        if sim.driver.transaction_lock.locked():
            res.violation(f"C15/{driver}/lock-not-released", "transaction_lock is still held after every caller has finished", wit)
        if getattr(sim, 'hostile_calls', 0):
            res.hit('hostile_listener_runs')
        if sim.loop.errors:
            res.violation(f"C15/{driver}/internal-error", f"exception in a callback/task: {sim.loop.errors[0]}", wit)
        for c, x in outcome.items():
            if isinstance(x, BaseException) and not isinstance(x, (Boom, asyncio.CancelledError)):
                key = type(x).__name__
                if loss and key == "CommunicationError" and (callers[c]["kind"].startswith("seq") or loud):
                    res.add("loss_reported_to_caller")
                    continue
                if noise and key == "TimeoutError":
                    res.add("noise_reported_to_caller")
                    continue
                if slow_confirm and key == "TimeoutError":
                    res.add("slow_confirmation_reported_to_caller")
                    continue
                if callers[c]["cancel_at"] is None and callers[c]["cancel_time"] is None and callers[c]["badclean"] is None:
                    res.violation(f"C15/{driver}/caller-raised/{key}", f"caller {c} ({callers[c]['kind']}) raised {key}: {x}", {**wit, "caller": c, "tb": short_tb(x)})
        if i == 0:
            res.sample({k: wit[k] for k in ("driver", "callers", "wire")})
    finally:
        sim.close()
    return picker.log


def dfs_shard(desc, seed, res):
    """Stateless bounded-exhaustive walk over the first `depth` decisions (caller start offsets, gateway delays) of a
    fixed small scenario: a device-type sequence against a single send, and a send-twice send."""
    driver = desc["driver"]
    r = rng(seed, "C15", "dfs", driver)
    kq = "dtquery" if driver != "hasseb" else "query"
    scenario = [
        {"kind": "seq", "items": [("cmd", simlib.make_command(r, kq, 0, 0, driver)), ("cmd", simlib.make_command(r, "dttwice", 0, 1, driver)),
                                  ("sleep", 0.01), ("cmd", simlib.make_command(r, "query", 0, 2, driver))],
         "raise_at": None, "cancel_at": None, "cancel_time": None, "badclean": None, "start": 0, "repeat": 1},
        {"kind": "send", "items": [("cmd", simlib.make_command(r, "dttwice", 1, 0, driver))],
         "raise_at": None, "cancel_at": None, "cancel_time": None, "badclean": None, "start": 0, "repeat": 2},
        {"kind": "send-cancel", "items": [("cmd", simlib.make_command(r, "query", 2, 0, driver))],
         "raise_at": None, "cancel_at": None, "cancel_time": desc["cancel_time"], "badclean": None, "start": 0, "repeat": 1},
    ]
    depth, budget = desc["depth"], desc["budget"]
    stack = [[]]
    runs = 0
    seen = set()
    while stack and runs < budget:
        prefix = stack.pop()
        import copy
        forced = {"callers": [dict(c, items=list(c["items"])) for c in scenario], "prefix": prefix}
        log = run_case(driver, seed, "dfs", runs, res, forced=forced)
        runs += 1
        res.hit("dfs_runs")
        if log is None:
            continue
        for d in range(len(prefix), min(len(log), depth)):
            for alt in range(1, log[d][1]):
                stack.append([x[2] for x in log[:d]] + [alt])
    res.extra["dfs_exhausted_" + driver] = int(not stack)
    res.add("dfs_prefixes_left", len(stack))


def run_shard(desc, tier, seed):
    res = Result()
    simlib.import_all()
    _drv = desc.get("driver")
    if _drv in simlib.DRIVERS and "replay" not in desc:
        why = simlib.probe_attach(_drv)
        if why:
            res.inconclusive.append(why)
            return res
    if "replay" in desc:
        for w in desc["replay"]["witnesses"]:
            x = w["witness"]
            run_case(x["driver"], x["seed"], x["part"], x["case"], res)
        return res
    if desc.get("kind") == "app-disconnect":
        from props.c17 import app_disconnect_case
        for i in range(desc["n"]):
            try:
                app_disconnect_case(desc["driver"], seed, i, res, prefix="C15")
            except Exception as e:
                res.inconclusive.append("harness error (app-disconnect): " + short_tb(e))
                break
        return res
    if desc.get("kind") == "dfs":
        try:
            dfs_shard(desc, seed, res)
        except Exception as e:
            res.inconclusive.append("harness error (dfs): " + short_tb(e))
        return res
    for i in range(desc["n"]):
        try:
            run_case(desc["driver"], seed, desc["part"], i, res)
        except Exception as e:
            res.inconclusive.append("harness error: " + short_tb(e))
            break
    return res
