"""Shared scenario machinery for the driver simulations (C15, C16, C17, C20, C18)."""
import asyncio

from gateways.harness import Sim, Picker, DRIVERS  # noqa


def import_all():
    import dali.gear.general, dali.gear.led, dali.gear.colour, dali.gear.emergency, dali.gear.incandescent  # noqa
    import dali.gear.converter, dali.device.general, dali.device.pushbutton, dali.device.occupancy, dali.device.light  # noqa


CALLER_DT = [6, 8, 1, 4]          # each caller uses its own device type, so ENABLE DEVICE TYPE frames identify the caller


def make_command(r, kind, caller, k, driver):
    """A command whose frame is unique to (caller, k): callers use disjoint short addresses 16*caller..16*caller+15."""
    import dali.gear.general as gg
    import dali.gear.led as led
    import dali.gear.colour as colour
    import dali.gear.emergency as em
    import dali.gear.incandescent as inc
    import dali.device.general as dg
    from dali import address as A
    a = A.GearShort(16 * caller + (k % 16))
    da = A.DeviceShort(16 * caller + (k % 16))
    sub = k // 16
    dt = CALLER_DT[caller]
    if kind == "query":
        cls = [gg.QueryActualLevel, gg.QueryStatus, gg.QueryDeviceType, gg.QueryControlGearPresent, gg.QueryGroupsZeroToSeven,
               gg.QueryVersionNumber, gg.QueryLampFailure, gg.QueryMaxLevel][(sub + k) % 8]
        return cls(a)
    if kind == "plain":
        return gg.DAPC(a, (k * 13 + caller) % 255) if k % 2 else [gg.Off, gg.RecallMaxLevel, gg.Up][sub % 3](a)
    if kind == "twice":
        return [gg.SetFadeTime, gg.SetMaxLevel, gg.SetShortAddress, gg.Reset][(sub + k) % 4](a) if k % 3 else gg.AddToGroup(a, k % 16)
    if kind == "special":
        return [gg.DTR0, gg.DTR1, gg.SearchaddrH][sub % 3]((caller * 64 + k) % 256)
    if kind == "dtquery":
        return {6: [led.QueryGearType, led.QueryFeatures, led.QueryShortCircuit], 8: [colour.QueryColourStatus, colour.QueryColourValue, colour.QueryGearFeaturesStatus],
                1: [em.QueryBatteryCharge, em.QueryEmergencyMode, em.QueryRatedDuration], 4: [inc.QueryDimmerStatus, inc.QueryFeatures, inc.QueryReferenceRunning]}[dt][sub % 3](a)
    if kind == "dtplain":
        return {6: led.QueryGearType, 8: colour.Activate, 1: em.QueryBatteryCharge, 4: inc.QueryDimmerStatus}[dt](a) if dt != 8 else colour.Activate(a)
    if kind == "dttwice":
        return {6: led.SelectDimmingCurve, 8: colour.StoreGearFeaturesStatus, 1: em.StoreProlongTime, 4: inc.SelectDimmingCurve}[dt](a)
    if kind == "devquery":
        if k % 2:
            return dg.QueryInstanceType(da, A.InstanceNumber((sub * 5 + caller) % 32))
        return [dg.QueryDeviceStatus, dg.QueryNumberOfInstances, dg.QueryMissingShortAddress][sub % 3](da)
    if kind == "devplain":
        return dg.DTR2DTR1(caller * 64 + k % 64, k % 256)
    if kind == "devtwice":
        return [dg.StartQuiescentMode, dg.IdentifyDevice][sub % 2](da)
    raise KeyError(kind)


KINDS = {
    "tridonic": ["query", "plain", "twice", "special", "dtquery", "dttwice", "devquery", "devplain", "devtwice", "query", "dtquery"],
    "hasseb": ["query", "plain", "twice", "special", "query", "dttwice", "query"],
    "luba": ["query", "plain", "twice", "special", "dtquery", "dttwice", "devquery", "devplain", "devtwice", "query"],
    "sci": ["query", "plain", "twice", "special", "dtquery", "dttwice", "devquery", "devplain", "devtwice", "query"],
}


def expected_frames(cmd, driver, in_sequence):
    """(width, value) list the library should put on the wire for one command."""
    f = cmd.frame
    out = []
    if len(f) == 16 and cmd.devicetype != 0 and (driver in ("tridonic", "hasseb") or in_sequence):
        out.append((16, 0xC100 + cmd.devicetype))
    n = 2 if cmd.sendtwice else 1
    out += [(len(f), f.as_integer)] * n
    return out


def caller_of(width, value):
    """Which caller does a frame on the wire belong to? (by address range / device type / parameter range)"""
    if width == 16:
        hi, lo = value >> 8, value & 0xFF
        if hi == 0xC1:
            return CALLER_DT.index(lo) if lo in CALLER_DT else None
        if hi < 0x80:
            return (hi >> 1) // 16
        if hi in (0xA3, 0xC3, 0xB1):
            return lo // 64
        return None
    if width == 24:
        b2, b1 = value >> 16, (value >> 8) & 0xFF
        if b2 < 0x80:
            return (b2 >> 1) // 16
        if b2 == 0xC9:
            return b1 // 64
        return None
    return None


def detached(out):
    """True when a simulation result is the harness' own 'cannot attach' condition (=> inconclusive, never a verdict)."""
    from gateways.harness import HarnessDetached
    return isinstance(out, HarnessDetached)


def probe_attach(driver):
    """Connect once in a fault-free simulation; returns None when the harness can observe the driver, else a reason."""
    import random
    sim = Sim(driver, Picker(random.Random(0)))

    async def main(sim):
        await sim.connect()
        return True
    out, stalled = sim.run(main)
    ok = sim.attached()
    sim.close()
    if not ok:
        return f"harness detached: the {driver} driver never touched the shimmed I/O boundary"
    return None
