"""C05 - Frame behaves as a fixed-width unsigned bit vector under all operations.

Workload: (a) exhaustive single operations on every frame of width 1..W, (b) random operation
histories on frames up to 256 bits.  Oracle: models.frame_ref.RefFrame (list of bits) after every
operation; documented exception classes for illegal operations with the frame left unchanged.
The icontract invariant 0 <= _data < 2**_bits runs on every mutator of the real class.
"""
from vlib.common import Result, rng, short_tb
from models.frame_ref import RefFrame, Illegal

PROP = "C05"
LEVEL = "exploration"
CONTRACTS = "icontract"
RULE = ("exhaustive: every (width, initial value, operation, indices in -1..w, written value in -1..2**w); "
        "histories: seeded random operation lists; a case is non-trivial when the operation is legal and "
        "changes or reads at least one bit, or is illegal and must leave the frame unchanged; distinct = "
        "distinct (width, value-before, operation) triples")
ASSUMPTIONS = ["documented exception classes are those asserted by dali/tests/test_frame.py and the docstrings",
               "when an operation is illegal for two reasons either documented exception is accepted"]
EXHAUSTIVE = {"quick": False, "thorough": False}
REQUIRED_ANCHORS = {"all": ["Frame.__setitem__", "Frame.__init__", "Frame.__add__", "Frame.__setitem__/raise",
                            "illegal_ops_checked", "legal_writes_checked"]}
SHARD_TIMEOUT = {"quick": 300, "thorough": 1800}


def plan(tier, seed):
    shards = []
    maxw = 6 if tier == "quick" else 8
    for w in range(1, maxw + 1):
        n = 1 << w
        parts = 1 if w <= 5 else (2 if w == 6 else (4 if w == 7 else 16))
        for p in range(parts):
            shards.append({"kind": "exh", "w": w, "lo": n * p // parts, "hi": n * (p + 1) // parts})
    shards.append({"kind": "ctor"})
    shards.append({"kind": "addpairs", "maxw": 4 if tier == "quick" else 5})
    nh = 2000 if tier == "quick" else 100000
    parts = 4 if tier == "quick" else 16
    for p in range(parts):
        shards.append({"kind": "hist", "part": p, "n": nh // parts})
    return shards


# --------------------------------------------------------------------------- executor

def _mk(cls_name, w, v):
    from dali import frame
    if cls_name == "ForwardFrame":
        return frame.ForwardFrame(w, v)
    return frame.Frame(w, v)


def apply_op(f, ref, op):
    """Apply op to the real frame f and the model ref.

    Returns (f, ref, problem) - problem is None or a text describing the disagreement."""
    from dali import frame
    kind = op[0]
    pre_state = (len(f), f.as_integer)
    illegal = None
    exp = None
    newref = ref
    try:
        if kind == "getbit":
            exp = ref.getbit(_key(op[1]))
        elif kind == "setbit":
            newref = ref.copy()
            newref.setbit(_key(op[1]), _val(op[2]))
        elif kind == "getslice":
            exp = ref.getslice(_key(op[1]), _key(op[2]), op[3] if len(op) > 3 else None)
        elif kind == "setslice":
            newref = ref.copy()
            newref.setslice(_key(op[1]), _key(op[2]), _val(op[3]), op[4] if len(op) > 4 else None)
        elif kind == "add":
            other = RefFrame(op[1], op[2])
            newref = ref.concat(other) if op[3] == "right" else other.concat(ref)
        elif kind == "badadd":
            raise Illegal("TypeError")
        elif kind == "packlen":
            exp = bytes(ref.pack_len(op[1]))
    except Illegal as ill:
        illegal = ill.kinds
        newref = ref

    got = None
    raised = None
    newf = f
    try:
        if kind == "getbit":
            got = f[_key(op[1])]
        elif kind == "setbit":
            f[_key(op[1])] = _val(op[2])
        elif kind == "getslice":
            got = f[slice(_key(op[1]), _key(op[2]), op[3] if len(op) > 3 else None)]
        elif kind == "setslice":
            f[slice(_key(op[1]), _key(op[2]), op[4] if len(op) > 4 else None)] = _val(op[3])
        elif kind == "add":
            other = frame.Frame(op[1], op[2])
            if len(op) > 4 and op[4] == "iadd" and op[3] == "right":
                # `x += other` is `x = x + other`: a new frame; whoever else holds the old one still sees it unchanged
                alias = f
                x = f
                x += other
                newf = x
                if (len(alias), alias.as_integer) != pre_state:
                    return f, ref, (f"after `x += other` another reference to the old frame reads "
                                    f"({len(alias)},{alias.as_integer:#x}), it was ({pre_state[0]},{pre_state[1]:#x})")
            else:
                newf = (f + other) if op[3] == "right" else (other + f)
        elif kind == "clone":
            # copies made by the standard library are constructions too: equal to the original, same class, and independent of
            # it (the history continues on the copy, the original is written to and must not show through)
            import copy
            import pickle
            how = op[1]
            newf = copy.copy(f) if how == "copy" else copy.deepcopy(f) if how == "deepcopy" else pickle.loads(pickle.dumps(f))
            if type(newf) is not type(f) or len(newf) != len(f) or newf.as_integer != f.as_integer or not (newf == f) or (newf != f):
                return f, ref, (f"{how} of ({len(f)},{f.as_integer:#x}) is {type(newf).__name__} ({len(newf)},{newf.as_integer:#x}), "
                                f"== gives {newf == f}")
            if len(f) > 0:
                f[0] = not f[0]
                if (len(newf), newf.as_integer) != pre_state:
                    return f, ref, f"a write to the original shows in its {how}"
        elif kind == "badadd":
            x = _val(op[1])
            got = (f + x) if op[2] == "right" else (x + f)
        elif kind == "packlen":
            got = f.pack_len(op[1])
        elif kind == "views":
            return f, ref, check_views(f, ref)
        elif kind == "contains":
            x = _val(op[1])
            got = x in f
            v = ref.value()
            if x is True:
                exp = v != 0
            elif x is False:
                exp = v != 2 ** ref.width - 1
            else:
                exp = False
        elif kind == "cmp":
            return f, ref, check_cmp(f, ref, op[1])
        else:
            raise RuntimeError("unknown op " + repr(op))
    except Exception as e:  # noqa
        raised = e

    if illegal is not None:
        if raised is None:
            return newf, newref, f"illegal operation accepted (expected one of {sorted(illegal)})"
        if type(raised).__name__ not in illegal:
            return f, ref, (f"illegal operation raised {type(raised).__name__}, documented: {sorted(illegal)}")
        if (len(f), f.as_integer) != pre_state:
            return f, ref, "rejected operation modified the frame"
        return f, ref, None
    if raised is not None:
        return f, ref, f"legal operation raised {type(raised).__name__}: {raised}"
    if exp is not None or kind in ("getbit", "getslice", "contains", "packlen"):
        if got != exp or type(got) is not type(exp):
            return newf, newref, f"read returned {got!r}, model says {exp!r}"
        if (len(f), f.as_integer) != pre_state:
            return newf, newref, "a read modified the frame"
    if len(newf) != newref.width or newf.as_integer != newref.value():
        return newf, newref, (f"frame is ({len(newf)},{newf.as_integer:#x}) after the operation, "
                              f"model says ({newref.width},{newref.value():#x})")
    if kind == "add" and (len(f), f.as_integer) != pre_state:
        return newf, newref, "concatenation modified its operand"
    return newf, newref, None


_SPECIAL = {"<str>": "wibble", "<none>": None, "<float>": 1.5, "<bytes>": b"\x01", "<true>": True,
            "<false>": False, "<list>": [1]}


def _val(x):
    if isinstance(x, str) and x in _SPECIAL:
        return _SPECIAL[x]
    return x


def _key(x):
    return _val(x)


def check_views(f, ref):
    from dali import frame
    w = ref.width
    v = ref.value()
    if len(f) != w:
        return f"len() is {len(f)}, model {w}"
    if f.as_integer != v:
        return f"as_integer {f.as_integer:#x} != model {v:#x}"
    seq = ref.byte_seq()
    if f.as_byte_sequence != seq or not isinstance(f.as_byte_sequence, list):
        return f"as_byte_sequence {f.as_byte_sequence} != model {seq}"
    if f.pack != bytes(seq) or not isinstance(f.pack, bytes):
        return f"pack {f.pack!r} != model {bytes(seq)!r}"
    n = len(seq)
    for extra in (0, 1, 3):
        if f.pack_len(n + extra) != bytes([0] * extra + seq):
            return f"pack_len({n + extra}) {f.pack_len(n + extra)!r} != model"
    for i in range(w):
        if f[i] is not bool(ref.bits[i]):
            return f"bit {i} reads {f[i]!r}, model {ref.bits[i]}"
    for view in (f.as_integer, f.as_byte_sequence, f.pack, f.pack_len(n + 2), tuple(f.as_byte_sequence)):
        g = frame.Frame(w, view)
        if not (g == f) or (g != f) or g.as_integer != v or len(g) != w:
            return f"frame rebuilt from view {view!r} is not equal to the original"
    if not isinstance(str(f), str):
        return "str() did not return a string"
    return None


def check_cmp(f, ref, delta):
    from dali import frame
    w, v = ref.width, ref.value()
    same = frame.Frame(w, v)
    if not (f == same) or (f != same):
        return "frame not equal to a frame of the same width and bits"
    other_v = (v ^ (1 << (delta % w)))
    diff = frame.Frame(w, other_v)
    if (f == diff) or not (f != diff):
        return "frame equal to a frame that differs in one bit"
    wider = frame.Frame(w + 1 + (delta % 3), v)
    if (f == wider) or not (f != wider):
        return "frame equal to a frame of another width with the same value"
    for x in (v, None, "x", (w, v)):
        if (f == x) or not (f != x):
            return f"frame compares equal to non-frame {x!r}"
    return None


# --------------------------------------------------------------------------- shards

def run_case(case, res):
    """A case is {'w', 'init', 'ops'}; used by histories, witnesses and replay."""
    f = _mk(case.get("cls", "Frame"), case["w"], case["init"])
    ref = RefFrame(case["w"], case["init"])
    for k, op in enumerate(case["ops"]):
        try:
            f, ref, problem = apply_op(f, ref, op)
        except Exception as e:  # harness problem inside oracle
            problem = "oracle raised: " + short_tb(e)
        if problem:
            return k, problem
    return None, None


def vkey(op, problem):
    what = ("accepted" if "accepted" in problem else
            "wrong-exception" if "documented" in problem else
            "modified-on-reject" if "rejected operation modified" in problem else
            "legal-raised" if "legal operation raised" in problem else
            "value")
    return f"C05/{op[0]}/{what}"


def exhaustive(desc, res):
    w = desc["w"]
    idx = list(range(-1, w + 1))
    vals = list(range(-1, (1 << w) + 1))
    for init in range(desc["lo"], desc["hi"]):
        # bit reads / writes at every index -1..w
        ops = []
        for i in idx:
            ops.append(["getbit", i])
            ops.append(["setbit", i, 1])
            ops.append(["setbit", i, 0])
        for a in idx:
            for b in idx:
                ops.append(["getslice", a, b])
                for v in vals:
                    ops.append(["setslice", a, b, v])
        for bad in ("<str>", "<float>", "<none>"):
            ops += [["getbit", bad], ["setbit", bad, 1], ["getslice", bad, 0], ["getslice", 0, bad],
                    ["setslice", bad, 0, 0], ["setslice", 0, bad, 1]]
        ops.append(["views"])
        ops.append(["cmp", init])
        for op in ops:
            case = {"w": w, "init": init, "ops": [op]}
            k, problem = run_case(case, res)
            res.evaluations += 1
            if problem:
                res.violation(vkey(op, problem), problem, {"case": case})
            _account(res, w, init, op)
        if init in (desc["lo"], desc["hi"] - 1):
            res.sample({"w": w, "init": init, "op": ops[len(ops) // 2]})


def _account(res, w, init, op):
    res.distinct += 1  # (w, init, op) triples are enumerated without repetition
    k = op[0]
    if k in ("setbit", "setslice"):
        bad = any(isinstance(x, int) and (x < 0 or x >= w) for x in op[1:(2 if k == "setbit" else 3)])
        if k == "setslice":
            v = op[3]
            bad = bad or not isinstance(v, int) or v < 0 or (
                isinstance(op[1], int) and isinstance(op[2], int) and v >= 2 ** (abs(op[1] - op[2]) + 1))
        res.add("illegal_ops_checked" if bad else "legal_writes_checked")


def ctor_cases(res):
    from dali import frame
    cases = []
    for bits in (None, "wibble", 16.0, [8], b"\x08"):
        cases.append((bits, 0, "TypeError"))
    for bits in (0, -1, -8):
        cases.append((bits, 0, "ValueError"))
    for w in range(1, 20):
        cases.append((w, 1 << w, "ValueError"))
        cases.append((w, -1, "ValueError"))
        cases.append((w, (1 << w) - 1, None))
        cases.append((w, 0, None))
        nb = (w + 7) // 8
        cases.append((w, [0] * 3 + list(((1 << w) - 1).to_bytes(nb, "big")), None))
        cases.append((w, list((1 << w).to_bytes(nb + 1, "big")), "ValueError"))
        cases.append((w, (0x100, 0xff), "ValueError"))
        cases.append((w, (-1,), "ValueError"))
    for bits, data, expect in cases:
        res.evaluations += 1
        res.distinct += 1
        try:
            f = frame.Frame(bits, data)
            raised = None
        except Exception as e:
            raised = type(e).__name__
        if raised != expect:
            res.violation("C05/ctor/" + ("accepted" if raised is None else "wrong-exception"),
                          f"Frame({bits!r}, {data!r}) -> {raised}, documented {expect}",
                          {"bits": repr(bits), "data": repr(data)})
        elif expect is None:
            v = data if isinstance(data, int) else int.from_bytes(bytes(data), "big")
            if len(f) != bits or f.as_integer != v:
                res.violation("C05/ctor/value", "constructed frame differs from its arguments",
                              {"bits": bits, "data": repr(data)})
        res.add("illegal_ops_checked" if expect else "legal_writes_checked")
    # backward frames are 8 bits wide
    for v in (0, 1, 255):
        for cls in (frame.BackwardFrame, frame.BackwardFrameError):
            b = cls(v)
            res.evaluations += 1
            if len(b) != 8 or b.as_integer != v or b.error != (cls is frame.BackwardFrameError):
                res.violation("C05/ctor/backward", "backward frame wrong", {"v": v, "cls": cls.__name__})
    # two frames built from the same arguments are two frames: writing to one leaves the other alone, and building the
    # value again does not touch frames that already exist
    for v in (0, 5, 0x80, 255):
        for mk in (lambda: frame.Frame(8, v), lambda: frame.ForwardFrame(8, v), lambda: frame.BackwardFrame(v),
                   lambda: frame.BackwardFrameError(v), lambda: frame.Frame(8, [v]), lambda: frame.BackwardFrame(v)):
            a, b = mk(), mk()
            res.evaluations += 1
            res.add("aliasing_checked")
            a[7] = not a[7]
            a[2:1] = (a[2:1] + 1) % 4
            changed = a.as_integer
            c = mk()
            if a is b or b.as_integer != v or c.as_integer != v or a.as_integer != changed:
                res.violation("C05/aliasing", f"{type(a).__name__}(8 bits, {v:#x}) built twice: after writing to the first, the second "
                              f"reads {b.as_integer:#x}, a third reads {c.as_integer:#x}, the first {a.as_integer:#x} (written {changed:#x})",
                              {"cls": type(a).__name__, "v": v})
    # equality is width + bits, whatever class carries them; == and != always disagree
    for v in range(256):
        objs = [frame.Frame(8, v), frame.ForwardFrame(8, v), frame.BackwardFrame(v), frame.BackwardFrameError(v)]
        others = [frame.Frame(8, v ^ 0x10), frame.BackwardFrameError(v ^ 1), frame.Frame(9, v)]
        for a in objs:
            for b in objs + others:
                res.evaluations += 1
                res.add("class_crossing_comparisons")
                want = b in objs
                eq, ne = (a == b), (a != b)
                if eq is not want or ne is not (not want):
                    res.violation("C05/cmp/across-classes",
                                  f"{type(a).__name__}(8 bits, {v:#x}) vs {type(b).__name__}({len(b)} bits, {b.as_integer:#x}): "
                                  f"== gives {eq!r}, != gives {ne!r}; equality means same width and same bits",
                                  {"a": type(a).__name__, "b": type(b).__name__, "v": v})
    for v in (256, -1):
        try:
            frame.BackwardFrame(v)
            res.violation("C05/ctor/accepted", "BackwardFrame accepted a value outside 8 bits", {"v": v})
        except ValueError:
            pass
    res.sample({"ctor": [repr(c) for c in cases[:4]]})


def addpairs(desc, res):
    maxw = desc["maxw"]
    for w1 in range(1, maxw + 1):
        for v1 in range(1 << w1):
            for w2 in range(1, maxw + 1):
                for v2 in range(1 << w2):
                    ops = [["add", w2, v2, "right"], ["views"], ["setslice", w1 + w2 - 1, 0, (v1 << w2 | v2) ^ 1],
                           ["setbit", w1 + w2 - 1, 1], ["setslice", w1 + w2 - 1, w2, 0], ["views"]]
                    case = {"w": w1, "init": v1, "ops": ops}
                    k, problem = run_case(case, res)
                    res.evaluations += 1
                    res.distinct += 1
                    res.add("legal_writes_checked", 3)
                    if problem:
                        res.violation(vkey(ops[k], problem) + "/after-add", problem, {"case": case, "step": k})
    # `x += y` and `f += f`
    from dali import frame as _F
    for w1 in range(1, 7):
        for v1 in (0, 1, (1 << w1) - 1, (1 << w1) // 3):
            f = _F.Frame(w1, v1)
            keep = f
            f += f
            res.evaluations += 1
            res.add("legal_writes_checked")
            if (len(keep), keep.as_integer) != (w1, v1) or (len(f), f.as_integer) != (2 * w1, (v1 << w1) | v1):
                res.violation("C05/add/value/iadd-self", f"f = Frame({w1},{v1:#x}); f += f gives ({len(f)},{f.as_integer:#x}) and the old frame reads "
                              f"({len(keep)},{keep.as_integer:#x})", {"w": w1, "v": v1})
    for x in ("<none>", "<str>", 1, "<float>", "<bytes>"):
        for side in ("left", "right"):
            case = {"w": 8, "init": 0xff, "ops": [["badadd", x, side]]}
            k, problem = run_case(case, res)
            res.evaluations += 1
            res.add("illegal_ops_checked")
            if problem:
                res.violation(vkey(case["ops"][0], problem), problem, {"case": case})
    res.sample({"w": 2, "init": 3, "ops": [["add", 3, 5, "right"], ["views"]]})


def gen_history(r, maxw=256):
    pick = r.random()
    if pick < 0.35:
        w = r.randint(1, 12)
    elif pick < 0.7:
        w = r.choice([8, 16, 24, 25, 28, 32, 63, 64, 65])
    else:
        w = r.randint(1, maxw)
    init = r.getrandbits(w) if r.random() < 0.8 else r.choice([0, (1 << w) - 1])
    ops = []
    curw = w
    for _ in range(r.randint(5, 40)):
        c = r.random()
        top = curw - 1
        if c < 0.12:
            ops.append(["setbit", r.choice([top, 0, r.randint(0, top)]), r.choice([0, 1, "<str>", "<none>", 5])])
        elif c < 0.2:
            ops.append(["getbit", r.choice([top, 0, r.randint(0, top), -1, curw, curw + 7])])
        elif c < 0.45:
            a = r.choice([top, r.randint(0, top)])
            b = r.choice([0, r.randint(0, top), a])
            if r.random() < 0.5:
                a, b = b, a
            n = abs(a - b) + 1
            v = r.choice([r.getrandbits(n), (1 << n) - 1, 0])
            ops.append(["setslice", a, b, v])
        elif c < 0.55:
            a = r.choice([top, r.randint(0, top), curw, -1])
            b = r.choice([0, r.randint(0, top), curw + 3, -2])
            n = abs(a - b) + 1
            v = r.choice([1 << n, -1, (1 << n) + 5, "<str>", "<float>", "<none>", r.getrandbits(n)])
            step = r.choice([None, None, 2, -1, 1, 0, False, 0.0])
            ops.append(["setslice", a, b, v, step])
        elif c < 0.65:
            a = r.choice([top, r.randint(0, top), curw, -1])
            b = r.choice([0, r.randint(0, top)])
            ops.append(["getslice", a, b, r.choice([None, None, None, 1, 2, 0, False, 0.0, -1])])
        elif c < 0.75:
            w2 = r.randint(1, 24)
            if curw + w2 <= maxw:
                ops.append(["add", w2, r.getrandbits(w2), r.choice(["left", "right"])] + (["iadd"] if r.random() < 0.4 else []))
                curw += w2
        elif c < 0.78:
            # 0 is what sum() starts from: it is no frame either
            ops.append(["badadd", r.choice([1, 0, "<false>", "<float>", "<none>", "<str>", "<list>"]), r.choice(["left", "right"])])
        elif c < 0.8:
            # non-integer indices: a TypeError that leaves the frame alone
            bad = r.choice(["<str>", "<float>", "<none>", "<bytes>", "<list>"])
            k = r.random()
            if k < 0.25:
                ops.append(["getbit", bad])
            elif k < 0.5:
                ops.append(["setbit", bad, 1])
            elif k < 0.75:
                ops.append(["getslice"] + r.choice([[bad, 0], [top, bad], [bad, bad]]))
            else:
                ops.append(["setslice"] + r.choice([[bad, 0], [top, bad], [bad, bad]]) + [r.choice([0, 1])])
        elif c < 0.83:
            ops.append(["clone", r.choice(["copy", "deepcopy", "pickle"])])
        elif c < 0.88:
            ops.append(["views"])
        elif c < 0.92:
            ops.append(["contains", r.choice(["<true>", "<false>", "<str>", 1, 0, "<none>"])])
        elif c < 0.96:
            ops.append(["cmp", r.randint(0, 1000)])
        else:
            need = (curw + 7) // 8
            ops.append(["packlen", r.choice([need, need + 1, need + 5, max(need - 1, 0), 0])])
    ops.append(["views"])
    return {"w": w, "init": init, "ops": ops, "cls": r.choice(["Frame", "ForwardFrame"])}


def histories(desc, seed, res):
    from vlib.common import digest
    for i in range(desc["n"]):
        r = rng(seed, "C05", desc["part"], i)
        case = gen_history(r)
        k, problem = run_case(case, res)
        res.evaluations += 1
        res.digests.add(digest(case))
        for op in case["ops"]:
            if op[0] in ("setbit", "setslice"):
                _account_h(res, op)
        if problem:
            res.violation(vkey(case["ops"][k], problem) + "/history", problem,
                          {"case": {**case, "ops": case["ops"][:k + 1]}, "step": k})
        if i == 0:
            res.sample(case)


def _account_h(res, op):
    res.add("history_writes")


def run_shard(desc, tier, seed):
    res = Result()
    if "replay" in desc:
        for wit in desc["replay"]["witnesses"]:
            case = wit["witness"].get("case")
            if case:
                k, problem = run_case(case, res)
                res.evaluations += 1
                if problem:
                    res.violation(desc["replay"]["key"], problem, {"case": case, "step": k})
        return res
    if desc["kind"] == "exh":
        exhaustive(desc, res)
    elif desc["kind"] == "ctor":
        ctor_cases(res)
    elif desc["kind"] == "addpairs":
        addpairs(desc, res)
    elif desc["kind"] == "hist":
        histories(desc, seed, res)
    return res
