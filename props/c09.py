"""C09 - memory-bank reads return the declared bytes and leave the unit untouched.

Executed: MemoryValue.read and MemoryBank.read_all of every declared value / bank, against
models/membank.Bank inside a models/gear102.Gear or models/device103.Device on models/bus.
"""
import importlib

from vlib.common import Result, rng, short_tb
from spec import membank_layout as L

PROP = "C09"
LEVEL = "exploration"
CONTRACTS = "icontract"
RULE = ("single read: (declared value, image, last accessible location, hole position, gear/device/int addressing "
        "[, fault kind, command index]); whole bank: (bank, image, last, holes, latch on/off, ticking live image "
        "[, fault]); distinct = distinct cases")
ASSUMPTIONS = ["models/membank.py + the writeEnableState rule of 102 9.10 (READ MEMORY LOCATION is not among the commands "
               "that keep writeEnableState)", "spec/membank_layout.py decoders give the expected interpretation",
               "'after any read' is judged for reads that return; after a read that raises the state is only recorded"]
EXHAUSTIVE = {"quick": False, "thorough": False}
REQUIRED_ANCHORS = {"all": ["single_reads", "not_implemented_expected", "read_all_runs", "read_all_latched",
                            "faults_injected", "post_state_checked", "interleaved_pairs", "abandoned_sequences", "edge_patterns_read"]}
SHARD_TIMEOUT = {"quick": 600, "thorough": 3000}

BANKS = ["0", "0L", "1", "202", "203", "204", "205", "206", "207"]


def plan(tier, seed):
    sh = []
    reps = 1 if tier == "quick" else 24
    for b in BANKS:
        for rep in range(reps):
            sh.append({"kind": "single", "bank": b, "rep": rep, "images": 24 if tier == "quick" else 48})
            sh.append({"kind": "all", "bank": b, "rep": rep, "images": 32 if tier == "quick" else 96})
        sh.append({"kind": "edges", "bank": b})
    sh.append({"kind": "interleaved", "n": 200 if tier == "quick" else 4000})
    return sh


def _mods():
    for m in ("info", "oem", "energy", "diagnostics", "maintenance", "location"):
        importlib.import_module("dali.memory." + m)


def make_image(r, bankkey, style):
    last_spec = L.BANKS[bankkey][0]
    if style == "zero":
        img = [0] * 255
    elif style == "ones":
        img = [0xFF] * 255
    elif style == "addr":
        img = list(range(255))
    elif style == "tmask":
        img = [0xFF] * 255
        for row in L.rows():
            if row.bank == bankkey:
                img[row.last] = 0xFE
    else:
        img = [r.getrandbits(8) for _ in range(255)]
        if r.random() < 0.8:
            for row in L.rows():
                if row.bank == bankkey and row.kind == "scaled":
                    # every legal power-of-ten exponent -6..+6 and the first illegal ones on either side
                    img[row.first] = r.choice([0, 1, 2, 3, 4, 5, 6, 6, 0xFA, 0xFA, 0xFB, 0xFC, 0xFD, 0xFE, 0xFF, 7, 0xF9])
                if row.bank == bankkey and row.kind == "bin":
                    img[row.first] = r.choice([0, 1])
    if style == "text" or (style == "random" and r.random() < 0.5):
        # string fields in every shape a unit may hold: filled to the last byte without terminator, terminated
        # early, a non-ASCII byte before / at / after the terminator
        for row in L.rows():
            if row.bank == bankkey and row.kind == "str":
                w = row.last - row.first + 1
                shape = r.choice(["full", "full", "early", "last-ff", "first-nul", "bad-before", "bad-after"])
                text = [r.randint(0x20, 0x7E) for _ in range(w)]
                if shape == "early":
                    text[r.randrange(w)] = 0
                elif shape == "last-ff":
                    text[-1] = 0xFF
                elif shape == "first-nul":
                    text[0] = 0
                elif shape == "bad-before":
                    k = r.randrange(1, w)
                    text[k] = 0
                    text[r.randrange(k)] = r.randint(0x80, 0xFF)
                elif shape == "bad-after":
                    k = r.randrange(w - 1)
                    text[k] = 0
                    text[r.randrange(k + 1, w)] = r.randint(0x80, 0xFF)
                img[row.first:row.last + 1] = text
    if bankkey not in ("0", "0L"):
        img[2] = r.choice([0xFF, 0x00, 0x55, 0x12])
    return img


def make_unit(r, bankkey, img, last, holes, family):
    from models.membank import Bank
    from models.gear102 import Gear
    from models.device103 import Device
    from dali import address
    image = list(img)
    for h in holes:
        image[h] = None
    image[0] = last
    has_lock, latch = L.BANKS[bankkey][1], L.BANKS[bankkey][2]
    number = int(bankkey.rstrip("L"))
    bank = Bank(number, image, last, latchable=latch)
    sa = r.randrange(64)
    other_bank = Bank(number, [0x77] * 255, 0xFE, latchable=latch)
    if family == "device":
        unit = Device(short=sa, banks={number: bank})
        other = Device(short=(sa + 1) % 64, banks={number: other_bank})
        addr = address.DeviceShort(sa)
    else:
        unit = Gear(short=sa, banks={number: bank})
        other = Gear(short=(sa + 1) % 64, banks={number: other_bank})
        addr = address.GearShort(sa) if family == "gear" else sa
    unit.dtr0, unit.dtr1 = r.getrandbits(8), r.getrandbits(8)
    return unit, other, bank, other_bank, addr


def value_classes(bankkey):
    """(name, class, row-like) for every declared value of the bank incl. LastAddress and LockByte."""
    bank_obj = L.resolve(L.BANK_OBJECTS[bankkey])
    out = []
    for row in L.rows():
        if row.bank == bankkey:
            out.append((row.lib, L.resolve(row.lib), row))
    la = L.Row("LastAddress", bankkey, 0, 0, "u", "rom", False, False, None, None, None)
    out.append(("LastAddress", bank_obj.LastAddress, la))
    if bank_obj.LockByte is not None:
        lb = L.Row("LockByte", bankkey, 2, 2, "u", "ram_rw", False, False, None, None, None)
        out.append(("LockByte", bank_obj.LockByte, lb))
    return bank_obj, out


def implemented(bank, row):
    return all(loc <= bank.last and (loc == 0 or bank.image[loc] is not None) for loc in range(row.first, row.last + 1))


def expected_value(row, src, bank):
    raw = [bank.last if loc == 0 else src[loc] for loc in range(row.first, row.last + 1)]
    return L.decode(row, raw)


def post_state(res, bank, other_bank, before, key, wit, ticked=False):
    res.hit("post_state_checked")
    if bank.number != 0 and bank.image[2] == 0xAA:
        res.violation(f"C09/{key}/left-latched", "after the read the lock byte is still 0xAA: the bank is left latched", wit)
    elif bank.snapshot is not None:
        res.violation(f"C09/{key}/left-latched", "the unit still serves a latched snapshot after the read", wit)
    bad = [(l, v) for l, v in bank.writes if l != 2]
    if not bank.latchable and bank.writes:
        # a bank without the latch function has no business being written to by a read, lock byte included
        res.violation(f"C09/{key}/memory-written", f"a read of bank {bank.number}, which has no latch, wrote {bank.writes[:4]} "
                      "(location, value)", wit)
    elif bad:
        res.violation(f"C09/{key}/memory-written", f"a read wrote to locations {bad[:4]}", wit)
    if not ticked:
        now = list(bank.image)
        now[2] = before[2]
        chk = list(before)
        if now != chk:
            res.violation(f"C09/{key}/memory-changed", "memory contents differ after the read", wit)
    if other_bank.writes or other_bank.image[2] not in (0xFF, 0x77):
        res.violation(f"C09/{key}/other-unit-written", "a unit that was not addressed was written", wit)


def run_single(desc, tier, seed, res):
    from dali.exceptions import MemoryLocationNotImplemented, ResponseError
    from models.bus import Bus
    _mods()
    bankkey = desc["bank"]
    bank_obj, values = value_classes(bankkey)
    styles = ["random", "zero", "ones", "addr", "tmask", "random", "text"]
    for name, cls, row in values:
        for k in range(desc["images"]):
            r = rng(seed, "C09", "single", bankkey, desc["rep"], name, k)
            style = styles[(k + desc["rep"]) % len(styles)]
            if row.kind == "str" and k % 2 == 0:
                style = "text"
            img = make_image(r, bankkey, style)
            # truncation points: around the value, and anywhere
            spec_last = L.BANKS[bankkey][0]
            cands = [spec_last, 0xFE, row.last, row.last - 1, row.first, max(row.first - 1, 0), r.randrange(255), 0, 2]
            last = cands[k % len(cands)]
            last = max(0, min(last, 0xFE))
            holes = []
            if k % 3 == 1:
                holes = [r.randrange(row.first, row.last + 1)] if row.first > 2 else []
            elif k % 3 == 2:
                holes = [h for h in (r.randrange(3, 255), r.randrange(3, 255))]
            family = ["gear", "device", "int"][(k + desc["rep"]) % 3]
            unit, other, bank, other_bank, addr = make_unit(r, bankkey, img, last, holes, family)
            before = list(bank.image)
            bus = Bus([unit, other], bound=400)
            res.evaluations += 1
            res.distinct += 1
            res.hit("single_reads")
            wit = {"value": name, "bank": bankkey, "last": last, "holes": holes, "family": family, "image_style": style,
                   "bytes": [bank.image[l] for l in range(row.first, row.last + 1)]}
            impl = implemented(bank, row)
            try:
                got = ("ok", bus.run_sequence(cls.read(addr)))
            except MemoryLocationNotImplemented:
                got = ("notimpl", None)
            except Exception as e:
                got = ("exc", e)
            if not impl:
                res.hit("not_implemented_expected")
                if got[0] != "notimpl":
                    res.violation(f"C09/read/not-implemented-not-raised", f"{name}: a declared location is beyond the last accessible location "
                                  f"({last:#x}) or unimplemented, but read gave {got}", wit)
            elif got[0] == "notimpl":
                res.violation("C09/read/not-implemented-raised-wrongly", f"{name}: all locations are implemented but MemoryLocationNotImplemented was raised", wit)
            elif got[0] == "exc":
                res.violation(f"C09/read/raised/{type(got[1]).__name__}", f"{name}: {type(got[1]).__name__}: {got[1]}", {**wit, "tb": short_tb(got[1])})
            else:
                want = expected_value(row, bank.image, bank)
                if not L.same(got[1], want):
                    res.violation(f"C09/read/value/{row.kind}", f"{name} ({family}): unit stores {wit['bytes']}, read returned {got[1]!r}, expected {want!r}", wit)
            if got[0] == "ok":
                post_state(res, bank, other_bank, before, "read", wit)
            # faults at every command of this read (only for fully implemented values)
            if impl and k < 3:
                ncmd = bus.n_commands
                for pos in range(ncmd):
                    for fk in ("silence", "garble"):
                        unit2, other2, bank2, ob2, addr2 = make_unit(rng(seed, "C09", "single", bankkey, desc["rep"], name, k),
                                                                     bankkey, img, last, holes, family)
                        bus2 = Bus([unit2, other2], bound=400)
                        res.evaluations += 1
                        res.hit("faults_injected")
                        hit = {}
                        try:
                            g = ("ok", bus2.run_sequence(cls.read(addr2), fault_at=pos, fault_kind=fk,
                                                         on_command=lambda i, c, hit=hit, pos=pos: hit.update(c=c) if i == pos else None))
                        except MemoryLocationNotImplemented:
                            g = ("notimpl", None)
                        except ResponseError:
                            g = ("resperr", None)
                        except Exception as e:
                            g = ("exc", e)
                        is_query = hit.get("c") is not None and hit["c"].response is not None
                        w2 = {**wit, "fault": fk, "at_command": pos, "command": type(hit.get("c")).__name__}
                        if g[0] == "exc":
                            res.violation(f"C09/read-fault/raised/{type(g[1]).__name__}", f"{name}: {fk} at {pos}: {type(g[1]).__name__}: {g[1]}", w2)
                        elif not is_query:
                            if g[0] != "ok" or not L.same(g[1], expected_value(row, bank2.image, bank2)):
                                res.violation("C09/read-fault/harmless-fault-changed-result", f"{name}: {fk} on {w2['command']} (no answer expected) gave {g}", w2)
                        elif fk == "garble" and g[0] != "resperr":
                            res.violation("C09/read-fault/garbled-answer-not-reported", f"{name}: framing error on read {pos} gave {g} instead of ResponseError", w2)
                        elif fk == "silence" and g[0] != "notimpl":
                            res.violation("C09/read-fault/silence-not-reported", f"{name}: no answer on read {pos} gave {g}", w2)
    if tier == "thorough" and desc["rep"] == 0:
        # sweep: every last accessible location 0..254 and a hole at every location of (and next to) every value
        for name, cls, row in values:
            r = rng(seed, "C09", "sweep", bankkey, name)
            for last in range(0, 255):
                for holes in ([],) if last % 8 else ([], [row.first] if row.first > 2 else [], [row.last] if row.last > 2 else [],
                                                     [min(row.last + 1, 254)], [max(row.first - 1, 3)]):
                    img = make_image(r, bankkey, "random")
                    family = ["gear", "device", "int"][last % 3]
                    unit, other, bank, other_bank, addr = make_unit(r, bankkey, img, last, holes, family)
                    bus = Bus([unit, other], bound=400)
                    res.evaluations += 1
                    res.distinct += 1
                    res.hit("single_reads")
                    wit = {"value": name, "bank": bankkey, "last": last, "holes": holes, "family": family, "sweep": True}
                    impl = implemented(bank, row)
                    try:
                        got = ("ok", bus.run_sequence(cls.read(addr)))
                    except MemoryLocationNotImplemented:
                        got = ("notimpl", None)
                    except Exception as e:
                        got = ("exc", e)
                    if not impl:
                        res.hit("not_implemented_expected")
                        if got[0] != "notimpl":
                            res.violation("C09/read/not-implemented-not-raised", f"{name}: last accessible location {last:#x}, holes {holes}: read gave {got}", wit)
                    elif got[0] != "ok":
                        res.violation("C09/read/not-implemented-raised-wrongly" if got[0] == "notimpl" else f"C09/read/raised/{type(got[1]).__name__}",
                                      f"{name}: all locations implemented (last {last:#x}) but read gave {got}", wit)
                    elif not L.same(got[1], expected_value(row, bank.image, bank)):
                        res.violation(f"C09/read/value/{row.kind}", f"{name}: read returned {got[1]!r}", wit)
    res.sample({"bank": bankkey, "values": [v[0] for v in values][:4], "n_values": len(values)})


EDGE_BYTES = (0x00, 0x01, 0x06, 0x7F, 0x80, 0xFD, 0xFE, 0xFF)


def run_edges(desc, tier, seed, res):
    """Every declared value read from a unit that stores the patterns where interpretations branch: all 256 bytes for
    one-byte values, every pair of edge bytes for two-byte values, edge first/last bytes around an all-zero or all-ones
    middle for wider ones (sentinels, limits, sign bits, reserved codes, 'not implemented' markers).  The rest of the bank
    is random; the same image is also read with read_all()."""
    from models.bus import Bus
    _mods()
    bankkey = desc["bank"]
    bank_obj, values = value_classes(bankkey)
    spec_last = L.BANKS[bankkey][0]
    for name, cls, row in values:
        if name in ("LastAddress", "LockByte"):
            continue
        w = row.last - row.first + 1
        if w == 1:
            pats = [(b,) for b in range(256)]
        elif w == 2:
            pats = [(a, b) for a in EDGE_BYTES for b in EDGE_BYTES]
        else:
            pats = [(a,) + (m,) * (w - 2) + (b,) for a in EDGE_BYTES for b in EDGE_BYTES for m in (0x00, 0xFF)]
        if tier == "quick" and len(pats) > 64 and w > 2:
            r0 = rng(seed, "C09", "edges-pick", bankkey, name)
            keep = [p_ for p_ in pats if set(p_) <= {0x00, 0xFF, 0xFE}]
            pats = keep + r0.sample(pats, 64 - len(keep)) if len(keep) < 64 else keep[:64]
        for pi, pat in enumerate(pats):
            r = rng(seed, "C09", "edges", bankkey, name, pi)
            img = make_image(r, bankkey, "random")
            img[row.first:row.last + 1] = list(pat)
            family = ("gear", "device", "int")[pi % 3]
            unit, other, bank, other_bank, addr = make_unit(r, bankkey, img, spec_last, [], family)
            bus = Bus([unit, other], bound=400)
            before = list(bank.image)
            res.evaluations += 1
            res.distinct += 1
            res.hit("edge_patterns_read")
            wit = {"value": name, "bank": bankkey, "family": family, "bytes": list(pat)}
            try:
                got = bus.run_sequence(cls.read(addr))
            except Exception as e:
                res.violation(f"C09/read/raised/{type(e).__name__}", f"{name}: unit stores {list(pat)}: {type(e).__name__}: {e}",
                              {**wit, "tb": short_tb(e)})
                continue
            want = expected_value(row, bank.image, bank)
            if not L.same(got, want):
                res.violation(f"C09/read/value/{row.kind}", f"{name} ({family}): unit stores {list(pat)}, read returned {got!r}, "
                              f"expected {want!r}", wit)
                continue
            post_state(res, bank, other_bank, before, "read", wit)
            if pi % 8 == 0:
                unit2, other2, bank2, ob2, addr2 = make_unit(rng(seed, "C09", "edges", bankkey, name, pi), bankkey, img, spec_last, [], family)
                try:
                    allv = Bus([unit2, other2], bound=3000).run_sequence(bank_obj.read_all(addr2))
                except Exception as e:
                    res.violation(f"C09/read_all/raised/{type(e).__name__}", f"bank {bankkey} with {name} holding {list(pat)}: "
                                  f"{type(e).__name__}: {e}", {**wit, "tb": short_tb(e)})
                    continue
                res.hit("edge_patterns_read_all")
                if cls not in allv or not L.same(allv[cls], want):
                    res.violation(f"C09/read_all/value/{row.kind}", f"{name}: unit stores {list(pat)}, read_all reports "
                                  f"{allv.get(cls, '<absent>')!r}, expected {want!r}", wit)


def run_all(desc, tier, seed, res):
    from dali.exceptions import MemoryLocationNotImplemented, ResponseError
    from models.bus import Bus
    _mods()
    bankkey = desc["bank"]
    bank_obj, values = value_classes(bankkey)
    spec_last = L.BANKS[bankkey][0]
    styles = ["random", "zero", "ones", "addr", "tmask", "text"]
    for k in range(desc["images"]):
        r = rng(seed, "C09", "all", bankkey, desc["rep"], k)
        img = make_image(r, bankkey, styles[(k + desc["rep"]) % len(styles)])
        last = [spec_last, 0xFE, r.randrange(255), spec_last - 1, 3, 2, 0, r.randrange(3, spec_last + 1)][k % 8]
        holes = [] if k % 2 == 0 else sorted({r.randrange(3, max(4, min(last, spec_last) + 1)) for _ in range(r.randint(1, 3))})
        family = ["gear", "device", "int"][(k + desc["rep"]) % 3]
        use_latch = k % 4 != 3
        ticking = k % 2 == 1 or L.BANKS[bankkey][2]
        unit, other, bank, other_bank, addr = make_unit(r, bankkey, img, last, holes, family)
        before = list(bank.image)
        latchable = L.BANKS[bankkey][2]
        state = {"snap": None, "data_reads_before_latch": 0, "served": {}}
        # live image keeps changing (energy counters tick): after every READ the live bytes >= 3 change
        orig_read, orig_write = bank.read, bank.write

        def read(loc, bank=bank, state=state):
            v = orig_read(loc)
            state["served"].setdefault(loc, []).append(v)
            if loc >= 3 and bank.snapshot is None and state["snap"] is None:
                state["data_reads_before_latch"] += 1
            if ticking:
                for l in range(3, 255):
                    if bank.image[l] is not None:
                        bank.image[l] = (bank.image[l] + 1 + l) % 256
            return v

        def write(loc, value, bank=bank, state=state):
            v = orig_write(loc, value)
            if loc == 2 and value == 0xAA and bank.snapshot is not None and state["snap"] is None:
                state["snap"] = list(bank.snapshot)
            return v
        bank.read, bank.write = read, write
        bus = Bus([unit, other], bound=700)
        res.evaluations += 1
        res.distinct += 1
        res.hit("read_all_runs")
        wit = {"bank": bankkey, "last": last, "holes": holes, "family": family, "use_latch": use_latch, "ticking": ticking}
        try:
            kw = {} if use_latch else {"use_latch": False}
            got = bus.run_sequence(bank_obj.read_all(addr, **kw))
        except Exception as e:
            res.violation(f"C09/read_all/raised/{type(e).__name__}", f"bank {bankkey}: {type(e).__name__}: {e}", {**wit, "tb": short_tb(e)})
            continue
        start = 2 if bank.number == 0 else 3
        # a bank truncated below its first data location has nothing to latch (and its lock byte is not accessible)
        latched = use_latch and latchable and last >= 3
        if latched:
            res.hit("read_all_latched")
            if state["snap"] is None:
                res.violation("C09/read_all/not-latched", f"bank {bankkey} supports latching and use_latch was requested but the unit was never latched", wit)
                continue
            src = state["snap"]
        else:
            # without a latch every location is read once; the expected bytes are the ones the unit served
            src = [None] * 255
            for loc, vs in state["served"].items():
                if loc < 255:
                    src[loc] = vs[-1]
        exp = {}
        for name, cls, row in values:
            if row.first < start:
                continue
            if all(loc <= last and loc <= 0xFE and before[loc] is not None for loc in range(row.first, row.last + 1)):
                raw = [src[loc] for loc in range(row.first, row.last + 1)]
                if any(b is None for b in raw):
                    continue
                exp[cls] = (name, L.decode(row, raw))
        gotmap = dict(got)
        for cls, (name, want) in exp.items():
            if cls not in gotmap:
                res.violation("C09/read_all/value-missing", f"bank {bankkey}: {name} is fully implemented but missing from the result", {**wit, "value": name})
            elif not L.same(gotmap[cls], want):
                res.violation("C09/read_all/value" + ("/not-from-snapshot" if latched else ""),
                              f"bank {bankkey}: {name} reported as {gotmap[cls]!r}, expected {want!r}", {**wit, "value": name})
        for cls in gotmap:
            if cls not in exp:
                nm = getattr(cls, "__name__", str(cls))
                res.violation("C09/read_all/value-not-implemented-reported", f"bank {bankkey}: {nm} reported although one of its locations is "
                              "a header byte, unimplemented or beyond the last accessible location", {**wit, "value": nm})
        post_state(res, bank, other_bank, before, "read_all", wit, ticked=ticking)
        # faults
        if k < 3:
            ncmd = bus.n_commands
            for pos in sorted({0, 1, 2, 3, 4, 5, ncmd // 2, ncmd - 3, ncmd - 2, ncmd - 1} & set(range(ncmd))):
                for fk in ("silence", "garble"):
                    r2 = rng(seed, "C09", "all", bankkey, desc["rep"], k)
                    make_image(r2, bankkey, styles[(k + desc["rep"]) % len(styles)])
                    unit2, other2, bank2, ob2, addr2 = make_unit(r, bankkey, img, last, holes, family)
                    bus2 = Bus([unit2, other2], bound=700)
                    res.evaluations += 1
                    res.hit("faults_injected")
                    hit = {}
                    try:
                        g = bus2.run_sequence(bank_obj.read_all(addr2, **kw), fault_at=pos, fault_kind=fk,
                                              on_command=lambda i, c, hit=hit, pos=pos: hit.update(c=c) if i == pos else None)
                    except (MemoryLocationNotImplemented, ResponseError):
                        continue
                    except Exception as e:
                        res.violation(f"C09/read_all-fault/raised/{type(e).__name__}", f"{fk} at {pos}: {type(e).__name__}: {e}", {**wit, "fault": fk, "at": pos})
                        continue
                    is_query = hit.get("c") is not None and hit["c"].response is not None
                    if is_query and fk == "garble":
                        res.violation("C09/read_all-fault/garbled-answer-not-reported", f"framing error on command {pos} but read_all returned normally",
                                      {**wit, "fault": fk, "at": pos})
                    # whatever is reported must be right
                    for cls, v in dict(g).items():
                        if cls in exp and not ticking and not L.same(v, exp[cls][1]):
                            res.violation("C09/read_all-fault/wrong-value", f"{fk} at {pos}: {exp[cls][0]} reported as {v!r}, expected {exp[cls][1]!r}",
                                          {**wit, "fault": fk, "at": pos})
    res.sample({"bank": bankkey, "read_all_images": desc["images"], "values_in_bank": len(values)})


def run_bad_addresses(res):
    """Only short addresses (gear / device) or plain ints name a unit whose memory can be read: anything else is refused
    with TypeError before a frame is sent."""
    from dali import address
    from models.bus import Bus
    _mods()
    bank_obj, values = value_classes("0")
    name, cls, row = values[0]
    for bad in (address.GearGroup(1), address.GearBroadcast(), address.DeviceGroup(2), address.DeviceBroadcast(), "3", None, 1.5,
                address.InstanceNumber(1)):
        for what, mk in (("read", lambda: cls.read(bad)), ("read_all", lambda: bank_obj.read_all(bad))):
            bus = Bus([], bound=50)
            res.evaluations += 1
            res.hit("bad_addresses_refused")
            try:
                bus.run_sequence(mk())
                res.violation("C09/bad-address-accepted", f"{what}({bad!r}) was accepted ({bus.n_commands} commands sent)", {"addr": repr(bad)})
            except TypeError:
                if bus.n_commands:
                    res.violation("C09/bad-address-sent-commands", f"{what}({bad!r}): {bus.n_commands} commands were sent before refusing", {"addr": repr(bad)})
            except Exception as e:
                res.violation(f"C09/bad-address-wrong-exception/{type(e).__name__}", f"{what}({bad!r}) raised {type(e).__name__}: {e}", {"addr": repr(bad)})


def run_interleaved(desc, seed, res):
    from props import pairs
    from models.bus import Bus
    _mods()
    allv = []
    for bk in BANKS:
        bank_obj, values = value_classes(bk)
        allv += [(bk, bank_obj, n, c, row) for (n, c, row) in values]

    def mk_read_of(entry):
        def mk_read(rr):
            bk, bank_obj, name, cls, row = entry
            img = make_image(rr, bk, rr.choice(["random", "text", "random", "ones"]))
            unit, other, bank, ob, addr = make_unit(rr, bk, img, L.BANKS[bk][0], [], rr.choice(["gear", "device", "int"]))
            return Bus([unit, other], bound=800), cls.read(addr), lambda: (list(bank.image), bank.snapshot is not None)
        return mk_read
    r0 = rng(seed, "C09", "interleaved-classes")
    multi = [e for e in allv if e[4].width > 1]
    makers = {f"read:{e[2]}": mk_read_of(e) for e in r0.sample(multi, min(14, len(multi)))}

    def mk_all(rr):
        bk = rr.choice(BANKS)
        bank_obj, values = value_classes(bk)
        img = make_image(rr, bk, rr.choice(["random", "text", "addr"]))
        unit, other, bank, ob, addr = make_unit(rr, bk, img, L.BANKS[bk][0], [], rr.choice(["gear", "device", "int"]))
        return Bus([unit, other], bound=2000), bank_obj.read_all(addr), lambda: (list(bank.image), bank.snapshot is not None)
    makers["read_all"] = mk_all
    pairs.differential(res, "C09", rng(seed, "C09", "interleaved"), makers, desc["n"])
    pairs.abandon(res, "C09", rng(seed, "C09", "abandon"), makers, desc["n"])


def run_shard(desc, tier, seed):
    res = Result()
    if "replay" in desc:
        for d in plan("quick", seed):
            r2 = run_shard(d, "quick", seed)
            for v in r2.violations:
                if v["key"] == desc["replay"]["key"]:
                    res.violation(v["key"], v["what"], v["witness"])
            res.evaluations += r2.evaluations
        return res
    if desc["kind"] == "single":
        run_single(desc, tier, seed, res)
    elif desc["kind"] == "edges":
        run_edges(desc, tier, seed, res)
    elif desc["kind"] == "interleaved":
        run_interleaved(desc, seed, res)
        run_bad_addresses(res)
    else:
        run_all(desc, tier, seed, res)
    return res
