"""Two buses in one process: sequences of the library are generator instances that two drivers advance in turns.
Differential oracle: each sequence's result and the final state of its units equal those of the same sequence run
alone on an identical population.  State shared between generator instances of a library function (a module-level
buffer, a default argument, a cache) shows up as a difference.  Used by C07-C10, C13 (C14 has its own variant).
"""
import random

from vlib.common import short_tb


def norm(x):
    import enum
    if isinstance(x, BaseException):
        return ("raised", type(x).__name__)
    if isinstance(x, dict):
        return sorted((str(k), norm(v)) for k, v in x.items())
    if isinstance(x, (list, tuple)):
        return [norm(v) for v in x]
    if isinstance(x, (set, frozenset)):
        return sorted(norm(v) for v in x)
    if isinstance(x, enum.Enum):
        return f"{type(x).__name__}.{x.name}"
    if isinstance(x, bytes):
        return x.hex()
    if isinstance(x, (int, str, float, bool)) or x is None:
        return x
    if hasattr(x, "raw_value"):
        rv = x.raw_value
        return (type(x).__name__, None if rv is None else ("error" if rv.error else rv.as_integer))
    return repr(x)


def differential(res, prefix, r, makers, n, same_prob=0.4):
    """makers: {name: f(random.Random) -> (bus, generator, probe)}; probe() -> comparable final state."""
    from models.bus import run_interleaved
    names = sorted(makers)
    for t in range(n):
        na = r.choice(names)
        nb = na if r.random() < same_prob else r.choice(names)      # often the same library function / class on both buses
        sa, sb = r.getrandbits(40), r.getrandbits(40)
        solo = []
        for nm, sd in ((na, sa), (nb, sb)):
            bus, gen, probe = makers[nm](random.Random(sd))
            try:
                out = ("ok", bus.run_sequence(gen))
            except Exception as e:
                out = ("exc", e)
            solo.append((norm(out[1]), probe()))
        busA, genA, probeA = makers[na](random.Random(sa))
        busB, genB, probeB = makers[nb](random.Random(sb))
        outs = run_interleaved([(busA, genA), (busB, genB)], r if t % 2 else None)
        res.evaluations += 1
        res.distinct += 1
        res.hit("interleaved_pairs")
        wit = {"sequences": [na, nb], "seeds": [sa, sb]}
        for which, nm, o, probe, ref in (("first", na, outs[0], probeA, solo[0]), ("second", nb, outs[1], probeB, solo[1])):
            got = (norm(o[1]), probe())
            if got != ref:
                part = "result" if got[0] != ref[0] else "final-state"
                res.violation(f"{prefix}/interleaved/{part}-differs/{nm}",
                              f"two sequences ({na}, {nb}) advanced in turns on two separate buses: the {which} ({nm}) gives "
                              f"{str(got[0] if part == 'result' else got[1])[:200]}, run alone it gives "
                              f"{str(ref[0] if part == 'result' else ref[1])[:200]}",
                              {**wit, "tb": short_tb(o[1]) if o[0] == "exc" else None})
                break


def abandon(res, prefix, r, makers, n):
    """What every driver of the library does when it gives up on a sequence part-way (a send raised, the caller was
    cancelled): `seq.close()` in a finally block.  Closing must be quiet at every point of every sequence - a generator that
    answers the close with another command raises RuntimeError there and hides the error the driver was about to report -
    and a closed sequence sends nothing more."""
    from dali.command import Command
    names = sorted(makers)
    for t in range(n):
        nm = r.choice(names)
        sd = r.getrandbits(40)
        bus, gen, probe = makers[nm](random.Random(sd))
        total = 0
        try:                                    # length of the complete run, to aim the abandon point inside it
            bus.run_sequence(gen)
        except Exception:
            pass
        total = bus.n_commands
        bus, gen, probe = makers[nm](random.Random(sd))
        stop_after = r.randint(0, max(0, total))
        sent = 0
        resp = None
        finished = False
        while sent < stop_after:
            try:
                item = gen.send(resp)
            except StopIteration:
                finished = True
                break
            except Exception:
                finished = True
                break
            resp = None
            if isinstance(item, Command):
                try:
                    resp = bus.send(item)
                except Exception:
                    finished = True
                    break
                sent += 1
        res.evaluations += 1
        res.distinct += 1
        res.hit("abandoned_sequences")
        wit = {"sequence": nm, "seed": sd, "abandoned_after_commands": sent, "complete_run_commands": total}
        before = bus.n_commands
        try:
            gen.close()
        except BaseException as e:  # noqa - the witness
            res.violation(f"{prefix}/abandon/close-raised/{type(e).__name__}/{nm}",
                          f"{nm}: closing the sequence after {sent} of {total} commands raised {type(e).__name__}: {e} - a driver's "
                          f"`finally: seq.close()` turns whatever made it give up into this", {**wit, "tb": short_tb(e)})
            continue
        try:
            gen.send(None)
            res.violation(f"{prefix}/abandon/alive-after-close/{nm}", f"{nm}: the closed sequence still yields", wit)
        except StopIteration:
            pass
        except Exception:
            pass
        if bus.n_commands != before:
            res.violation(f"{prefix}/abandon/sent-after-close/{nm}", f"{nm}: commands were sent after the close", wit)
