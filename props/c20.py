"""C20 - observed bus traffic is reported once, decoded in context, paired up.

Tridonic: histories of foreign transactions (MODE_OBSERVE reports) interleaved with the driver's own
sends are fed through the real _handle_read/_bus_watch path in the virtual-time simulation; every
bus_traffic callback is logged.  Serial: foreign frames (and SCI echoes) through the real receive path
into DistributorQueue children.  Oracle: models/watch_ref.py (reference transaction parser).
"""
import asyncio

from vlib.common import Result, rng, short_tb, digest
from props import simlib
from spec import wire_formats as W

PROP = "C20"
LEVEL = "exploration"
CONTRACTS = "icontract"
DEVMODE = True
RULE = ("one case = a history of 1-8 bus transactions (plain, query+answer / silence report / silence by timeout / framing "
        "error / interrupted, send-twice complete / single / different repeat / answered, enable-device-type + extended "
        "command (matching, other type, interrupted), 24-bit commands and events with/without instance map, unknown frames) "
        "with each gap shorter (50 ms) or longer (500 ms) than the watcher's window, own sends interleaved, 0-3 subscribers "
        "joining/leaving in quiet gaps; distinct = distinct digests of (report list, subscriptions)")
ASSUMPTIONS = ["the watcher's window is 200 ms; gaps are 50 ms or 500 ms so no report falls near the boundary",
               "an enable-device-type frame followed by a *standard* query/config command is not generated (the library keys "
               "its table by device type there; not judged)",
               "subscribers join and leave only in quiet gaps of >= 1 s"]
EXHAUSTIVE = {"quick": False, "thorough": False}
REQUIRED_ANCHORS = {"all": ["tridonic_histories", "reports_compared", "subscriber_logs_compared", "twice_failed_cases",
                            "query_no_answer_cases", "dt_context_cases", "serial_histories", "serial_frames_compared"]}
SHARD_TIMEOUT = {"quick": 600, "thorough": 3000}


def plan(tier, seed):
    n = 1600 if tier == "quick" else 20000
    parts = 4 if tier == "quick" else 16
    sh = [{"kind": "tridonic", "part": p, "n": n // parts} for p in range(parts)]
    sh += [{"kind": "serial", "driver": d, "part": p, "n": n // parts // 2} for d in ("luba", "sci") for p in range(2)]
    return sh


# ------------------------------------------------------------------------------------------ history generation

_POOLS = {}


def _query_pool(mod, label):
    """Query classes of a command module that can be built from a destination alone (or destination + instance)."""
    if label not in _POOLS:
        import inspect
        from dali import command as _c, address as _A
        out = []
        for _n, cls in sorted(vars(mod).items()):
            if not (inspect.isclass(cls) and issubclass(cls, _c.Command) and not _n.startswith("_")):
                continue
            if getattr(cls, "response", None) is None or getattr(cls, "devicetype", 0):
                continue
            try:
                try:
                    cmd = cls(_A.GearShort(1) if label == "gear" else _A.DeviceShort(1))
                except TypeError:
                    if label == "gear":
                        continue
                    cmd = cls(_A.DeviceShort(1), _A.InstanceNumber(1))
                from gateways.sim import is_query as _isq
                # only frames the harness' own frame classification also takes for a query outside any device-type context
                if cmd.response is not None and _isq(len(cmd.frame), cmd.frame.as_integer, 0):
                    out.append(cls)
            except Exception:
                continue
        _POOLS[label] = out
    return _POOLS[label]


def gen_transactions(r, n, with_24=True):
    """List of transactions; each is a list of (gap_before, kind, width, value)."""
    import dali.gear.general as gg
    import dali.gear.led as led
    import dali.gear.colour as colour
    import dali.device.general as dg
    import dali.device.pushbutton as pb
    from dali import address as A
    txs = []
    tags = []
    for _ in range(n):
        a = A.GearShort(48 + r.randrange(16))
        da = A.DeviceShort(48 + r.randrange(16))
        kind = r.choice(["plain", "query+answer", "query+noframe", "query+timeout", "query+error", "query+interrupted", "twice", "twice-single",
                         "twice-different", "twice+backward", "twice+noframe", "edt+ext", "edt+ext-other", "edt+plain", "edt+gap+ext",
                         "dev-query", "dev-twice", "event", "event-di", "unknown16", "unknown24", "stray-backward",
                         "twice-lookalike24", "edt+24bit+ext", "twice+error",
                         "query>query+answer", "query>twice", "twice-single>query+answer", "query>query>query+answer"])
        if not with_24 and kind in ("dev-query", "dev-twice", "event", "event-di", "unknown24", "twice-lookalike24", "edt+24bit+ext"):
            kind = "plain"
        S, L = 0.05, 0.5
        g0 = r.choice([S, L])
        q = r.choice([gg.QueryActualLevel, gg.QueryStatus, gg.QueryControlGearPresent, gg.QueryDeviceType])(a)
        if r.random() < 0.4:
            q = r.choice(_query_pool(gg, "gear"))(a)              # every query of the part, whatever its answer class
        t2 = r.choice([gg.SetFadeTime, gg.Reset, gg.SetMaxLevel])(a) if r.random() < 0.7 else gg.AddToGroup(a, r.randrange(16))
        pl = gg.DAPC(a, r.randrange(255)) if r.random() < 0.6 else gg.Off(a)
        qf, tf, pf = q.frame.as_integer, t2.frame.as_integer, pl.frame.as_integer
        v = r.choice([0, 255, r.getrandbits(8)])
        if kind == "plain":
            tx = [(g0, "F", 16, pf)] + ([(0.01, "N", 0, 0)] if r.random() < 0.3 else [])
        elif kind == "query+answer":
            tx = [(g0, "F", 16, qf), (0.012, "B", 8, v)]
        elif kind == "query+noframe":
            tx = [(g0, "F", 16, qf), (0.02, "N", 0, 0)]
        elif kind == "query+timeout":
            tx = [(g0, "F", 16, qf), (L, "F", 16, pf)]
        elif kind == "query+error":
            tx = [(g0, "F", 16, qf), (0.012, "E", 8, 0)]
        elif kind == "query+interrupted":
            tx = [(g0, "F", 16, qf), (0.03, "F", 16, pf)]
        elif kind in ("query>query+answer", "query>twice", "twice-single>query+answer", "query>query>query+answer"):
            # chains: a pending command is cut short by the next one, which then has its own full window - counted from its
            # own frame, not from the first (gaps of 150 + 130 ms: inside each window, beyond the first one's)
            q2 = r.choice([gg.QueryMaxLevel, gg.QueryMinLevel, gg.QueryPowerOnLevel])(a).frame.as_integer
            q3 = gg.QueryFadeTimeFadeRate(a).frame.as_integer
            ga, gb = r.choice([0.15, 0.12, 0.19]), r.choice([0.13, 0.1, 0.18])
            if kind == "query>query+answer":
                tx = [(g0, "F", 16, qf), (ga, "F", 16, q2), (gb, "B", 8, v)]
            elif kind == "query>twice":
                tx = [(g0, "F", 16, qf), (ga, "F", 16, tf), (gb, "F", 16, tf)]
            elif kind == "twice-single>query+answer":
                tx = [(g0, "F", 16, tf), (ga, "F", 16, qf), (gb, "B", 8, v)]
            else:
                tx = [(g0, "F", 16, qf), (ga, "F", 16, q2), (gb, "F", 16, q3), (r.choice([0.13, 0.17]), "B", 8, v)]
        elif kind == "twice":
            tx = [(g0, "F", 16, tf), (0.025, "F", 16, tf)] + ([(0.02, "N", 0, 0)] if r.random() < 0.3 else [])
        elif kind == "twice-single":
            tx = [(g0, "F", 16, tf), (L, "F", 16, pf)]
        elif kind == "twice-different":
            other = gg.SetMinLevel(a).frame.as_integer
            tx = [(g0, "F", 16, tf), (0.025, "F", 16, other), (0.025, "F", 16, other)]
        elif kind == "twice-lookalike24":
            # the repeat is replaced by a 24-bit frame whose low 16 bits equal the command's: a different frame
            tx = [(g0, "F", 16, tf), (0.025, "F", 24, tf)]
        elif kind == "twice+backward":
            tx = [(g0, "F", 16, tf), (0.012, "B", 8, v)]
        elif kind == "twice+error":
            tx = [(g0, "F", 16, tf), (0.012, "E", 8, 0)]
        elif kind == "twice+noframe":
            tx = [(g0, "F", 16, tf), (0.03, "N", 0, 0)]
        elif kind == "edt+24bit+ext":
            # a 24-bit frame (event or device command) between ENABLE DEVICE TYPE and the extended opcode uses the enable up
            dt = r.choice([6, 8])
            ext = led.QueryGearType(a) if dt == 6 else colour.QueryColourStatus(a)
            mid = pb.ButtonPressed(instance_number=r.randrange(32)).frame.as_integer if r.random() < 0.5 else \
                dg.IdentifyDevice(da).frame.as_integer
            tx = [(g0, "F", 16, 0xC100 + dt), (0.03, "F", 24, mid)]
            if r.random() < 0.5 and (mid >> 16) & 1:
                tx.append((0.03, "F", 24, mid))          # the device command's repeat
            tx += [(0.04, "F", 16, ext.frame.as_integer), (0.03, "N", 0, 0)]
        elif kind in ("edt+ext", "edt+ext-other", "edt+plain", "edt+gap+ext"):
            dt = r.choice([6, 8])
            ext = (led.QueryGearType(a) if dt == 6 else colour.QueryColourStatus(a)) if r.random() < 0.6 else \
                (led.SelectDimmingCurve(a) if dt == 6 else colour.Activate(a))
            ef = ext.frame.as_integer
            edt = 0xC100 + (dt if kind != "edt+ext-other" else r.choice([1, 3, 200]))
            if kind == "edt+plain":
                tx = [(g0, "F", 16, edt), (0.03, "F", 16, pf), (0.03, "F", 16, ef), (0.03, "N", 0, 0)]
            else:
                tx = [(g0, "F", 16, edt), (L if kind == "edt+gap+ext" else 0.03, "F", 16, ef)]
                if ext.response is not None:
                    tx.append((0.012, "B", 8, v))
                elif ext.sendtwice:
                    tx.append((0.025, "F", 16, ef))
        elif kind == "dev-query":
            c = dg.QueryDeviceStatus(da) if r.random() < 0.5 else dg.QueryInstanceType(da, A.InstanceNumber(r.randrange(32)))
            if r.random() < 0.6:
                # every query of part 103, answered with any byte - also bytes the answer class has no name for
                qc = r.choice(_query_pool(dg, "device"))
                try:
                    c = qc(da)
                except TypeError:
                    c = qc(da, A.InstanceNumber(r.randrange(32)))
                v = r.choice([v, r.randrange(5, 256), 0xFF, 0x80])
            tx = [(g0, "F", 24, c.frame.as_integer), (0.012, "B", 8, v)]
        elif kind == "dev-twice":
            c = dg.StartQuiescentMode(da)
            tx = [(g0, "F", 24, c.frame.as_integer), (0.03, "F", 24, c.frame.as_integer)]
        elif kind == "event":
            e = pb.ButtonPressed(instance_number=r.randrange(32)) if r.random() < 0.5 else pb.ShortPress(short_address=r.randrange(64))
            tx = [(g0, "F", 24, e.frame.as_integer)]
        elif kind == "event-di":
            tx = [(g0, "F", 24, (r.choice([3, 40]) << 17) | 0x8000 | (r.choice([1, 5]) << 10) | r.choice([1, 2, 700]))]
        elif kind == "unknown16":
            tx = [(g0, "F", 16, r.choice([0xE100, 0xA101, 0xFB55, 0xBF00, 0xC9FF ^ 0x0100]))]
        elif kind == "unknown24":
            tx = [(g0, "F", 24, r.choice([0xC1FF00, 0x03007F, 0xE10000, 0xC10100 | 0]))]
        else:
            tx = [(g0, "B", 8, v)]
        txs.append(tx)
        tags.append(kind)
    return txs, tags


def flatten(txs, t0):
    out = []
    t = t0
    for tx in txs:
        for gap, kind, width, value in tx:
            t += gap
            out.append((round(t, 6), kind, width, value))
    return out


def describe_response(cmd, resp):
    if resp is None:
        return None
    raw = resp.raw_value
    if raw is None:
        return ("none",)
    if raw.error:
        return ("err",)
    return ("ok", raw.as_integer)


# ------------------------------------------------------------------------------------------ Tridonic

def tridonic_case(seed, part, i, res):
    from dali.device.helpers import DeviceInstanceTypeMapper
    from models import watch_ref
    r = rng(seed, "C20", "tridonic", part, i)
    dmap = DeviceInstanceTypeMapper()
    dmap.add_type(short_address=3, instance_number=1, instance_type=1)
    dmap.add_type(short_address=3, instance_number=5, instance_type=4)
    picker = simlib.Picker(r, overrides={"tri.queue_delay": 0, "tri.report_delay": 0, "tri.outcome_delay": 0, "tri.answer_delay": 0})
    # every fourth history has company: a second Tridonic gateway (second bus, second driver instance) whose reports arrive
    # at the very same instants; each instance's subscribers hear their own bus only
    twin = i % 4 == 3
    # every fifth history: the application hands the driver its instance map only once the connection is up
    late_map = i % 5 == 2
    sim = simlib.Sim("tridonic", picker, dev_inst_map=None if late_map else dmap, register_callbacks=False,
                     answer2=(lambda w_, v_, i_, dt_: None) if twin else None)
    dup_log = []
    dup_sub = i % 3 == 0          # in a third of the histories (the others keep their subscriber counts small)
    # ... and every third starts with traffic the gateway reports while the driver is still shaking hands with it
    early = i % 3 == 1
    twin_log = []
    twin_sent = []
    early_lost = []
    segs = []
    t = 1.0
    n_seg = r.choice([1, 2, 3])
    all_reports = []
    for sidx in range(n_seg):
        txs, tags = gen_transactions(r, r.randint(1, 4))
        reps = flatten(txs, t)
        all_reports += reps
        for k in tags:
            if k.startswith("twice-") or k in ("twice+backward", "twice+noframe", "twice+error"):  # incl. twice-lookalike24
                res.hit("twice_failed_cases")
            if k in ("query+noframe", "query+timeout", "query+interrupted"):
                res.hit("query_no_answer_cases")
            if k.startswith("edt"):
                res.hit("dt_context_cases")
        t = (reps[-1][0] if reps else t) + 2.0        # quiet gap between segments
        segs.append(t - 1.0)                          # midpoint-ish instant inside the quiet gap
    own = []
    if r.random() < 0.5:
        # own sends in a quiet gap (they reach the watcher through the same report stream)
        for k in range(r.randint(1, 3)):
            own.append(simlib.make_command(r, r.choice(["query", "plain", "twice", "dtquery"]), 0, k, "tridonic"))
    subs = []
    for sidx in range(r.choice([0, 1, 2, 3])):
        join = r.choice([0] + list(range(1, n_seg)))
        leave = r.choice([None] + list(range(join + 1, n_seg + 1)))
        subs.append((join, leave))
    # a subscriber may be a one-shot listener that unsubscribes itself from inside its own callback
    oneshot = [r.random() < 0.3 for _ in subs]
    logs = {k: [] for k in range(len(subs))}
    quirk = r.random() < 0.5
    quirk_log = []
    base_log = []
    own_wire_t = []

    early_reports = []
    if early:
        # ENABLE DEVICE TYPE 8 + ACTIVATE (a DT8 command) from another master, reported right after the device was opened
        early_reports = [(0.0006, "F", 16, 0xC108), (0.0012, "F", 16, 0x6FE2)]
        shape = (i // 3) % 4
        late = []
        if shape == 1:
            # ... or a query whose answer arrives when the handshake is over
            early_reports = [(0.0012, "F", 16, 0x61A0)]
            late = [(0.0135, "B", 8, 0x4D)]
        elif shape == 2:
            # ... or a configuration command whose repeat arrives when the handshake is over
            early_reports = [(0.0006, "F", 16, 0xFE00 | 0x90), (0.0012, "F", 16, 0x612E)]
            late = [(0.0262, "F", 16, 0x612E)]
        elif shape == 3:
            early_reports = [(0.0006, "F", 16, 0xC106), (0.0012, "F", 16, 0x61ED)]
            late = [(0.0135, "B", 8, 0x06)]
        all_reports[:0] = early_reports + late
        res.hit(f"reports_during_handshake_shape_{shape}")
        res.hit("reports_during_handshake")

    async def main(sim):
        d, dev, w = sim.driver, sim.dev, sim.world
        # subscribers exist before the connection does
        d.bus_traffic.register(lambda drv, c, rsp, e: base_log.append((w.now, c, rsp, e)))
        if twin:
            sim.driver2.bus_traffic.register(lambda drv, c, rsp, e: twin_log.append((w.now, drv, c)))
            res.hit("twin_histories")
        for (tt, kind, width, value) in early_reports:
            rep = W.tridonic_report(W.TRI_OBSERVE, W.TRI_16, value, 0)
            w.at(tt, lambda rep=rep: dev.rx.append(rep) if dev.fd is not None else early_lost.append(1))
        await sim.connect()
        if late_map:
            d.dev_inst_map = dmap
            res.hit("map_assigned_after_connect")
        handles = {}
        # one callable subscribed twice (two parts of an application sharing a recorder): two subscriptions, each with its own
        # handle; dropping one leaves the other
        def recorder(drv, c, rsp, e):
            dup_log.append((w.now, c, rsp, e))
        if dup_sub:
            dup_handles = [d.bus_traffic.register(recorder), d.bus_traffic.register(recorder)]
            w.at(segs[0], lambda: dup_handles[0].unregister())

        def join(k):
            def cb(drv, c, rsp, e, k=k):
                logs[k].append((w.now, c, rsp, e))
                if oneshot[k] and k in handles:
                    handles.pop(k).unregister()
                    res.hit("oneshot_unsubscribes")
            handles[k] = d.bus_traffic.register(cb)

        def leave(k):
            if k in handles:
                handles.pop(k).unregister()
        boundaries = [0.5] + segs
        for k, (j, l) in enumerate(subs):
            w.at(boundaries[j], lambda k=k: join(k))
            if l is not None:
                w.at(boundaries[l] + 0.01, lambda k=k: leave(k))
        for (tt, kind, width, value) in all_reports:
            if (tt, kind, width, value) in early_reports:
                continue
            if kind == "F":
                rep = W.tridonic_report(W.TRI_OBSERVE, W.TRI_16 if width == 16 else W.TRI_24, value, 0)
            elif kind == "B":
                rep = W.tridonic_report(W.TRI_OBSERVE, W.TRI_8, value, 0)
            elif kind == "E":
                rep = W.tridonic_report(W.TRI_OBSERVE, W.TRI_STATUS, 0, 0, status=3)
            else:
                rep = W.tridonic_report(W.TRI_OBSERVE, W.TRI_NO, 0, 0)
            w.at(tt, lambda rep=rep: dev.rx.append(rep) if dev.fd is not None else None)
            if twin and kind == "F" and tt >= 1.0:
                # the other bus carries a different frame at the same instant
                rep2 = W.tridonic_report(W.TRI_OBSERVE, W.TRI_16, 0x0100 + (len(twin_sent) % 200), 0)
                twin_sent.append(0x0100 + (len(twin_sent) % 200))
                w.at(tt, lambda rep2=rep2: sim.dev2.rx.append(rep2) if sim.dev2.fd is not None else None)
        # gateway chatter that is no bus traffic, in the quiet gaps: a status report other than 'framing error', an
        # unsolicited reply to an initialisation command, a report of a mode the driver does not know - none of it is a
        # frame, none of it may produce or disturb a report
        for tq in segs:
            if r.random() < 0.4:
                noise = r.choice([W.tridonic_report(W.TRI_OBSERVE, W.TRI_STATUS, 0, 0, status=r.choice([1, 2, 4])),
                                  bytes([W.TRI_INFO, 0, 0, 1, 7]) + bytes(59),
                                  bytes([0x55, 0x73, 0, 0, 0x12, 0x34]) + bytes(58)])
                w.at(tq + 0.05, lambda noise=noise: dev.rx.append(noise) if dev.fd is not None else None)
                res.hit("gateway_chatter_injected")
        end = (all_reports[-1][0] if all_reports else 1.0) + 1.2
        if own:
            await asyncio.sleep(max(0.0, segs[0] - w.now - 0.0) if False else 0)
        await asyncio.sleep(max(0.0, end - w.now))
        for c in own:
            await d.send(c)
            await asyncio.sleep(0.6)
        if own and quirk:
            # firmware quirk documented in the driver: another master repeating our most recent frame is reported as if we
            # had transmitted it (MODE_RESPONSE with the old sequence number); it is bus traffic like any other
            last = own[-1]
            lastseq = [x for (t_, x) in dev.writes if x[0] == 0x12][-1][1]
            f_ = last.frame
            rep = W.tridonic_report(W.TRI_RESPONSE, W.TRI_16 if len(f_) == 16 else W.TRI_24, f_.as_integer, lastseq)
            dev.rx.append(rep)
            quirk_log.append((round(w.now, 6), "F", len(f_), f_.as_integer))
            if last.sendtwice:
                await asyncio.sleep(0.03)
                dev.rx.append(rep)
                quirk_log.append((round(w.now, 6), "F", len(f_), f_.as_integer))
            elif last.response is not None:
                await asyncio.sleep(0.012)
                dev.rx.append(W.tridonic_report(W.TRI_RESPONSE, W.TRI_8, 0x5C, lastseq))
                quirk_log.append((round(w.now, 6), "B", 8, 0x5C))
        await asyncio.sleep(1.0)
        return True

    out, stalled = sim.run(main)
    if early_lost:
        res.inconclusive.append("tridonic: the device was not open yet when the handshake-time reports were due (harness timing)")
        sim.close()
        return
    res.evaluations += 1
    res.hit("tridonic_histories")
    res.digests.add(digest(all_reports, subs, [str(c) for c in own]))
    wit = {"seed": seed, "part": part, "case": i, "reports": [(t_, k, hex(v)) for t_, k, w_, v in all_reports], "subscribers": subs,
           "own": [str(c) for c in own]}
    try:
        if simlib.detached(out):
            res.inconclusive.append('harness detached: ' + str(out))
            return
        if stalled or out is not True:
            res.violation("C20/tridonic/stall-or-crash", f"simulation ended with {'a stall' if stalled else repr(out)}", wit)
            return
        # the report stream the watcher saw = injected foreign reports + the gateway's reports about own sends
        stream = list(all_reports)
        for wv in sim.bus.wire:
            if wv["origin"] == "own":
                stream.append((round(wv["t"], 6), "F", wv["width"], wv["value"]))
                if wv["answer"] is None:
                    pass
        # own outcome reports: reconstruct from the wire (last transmission of each own command carries the outcome)
        own_frames = [w_ for w_ in sim.bus.wire if w_["origin"] == "own"]
        for k, wv in enumerate(own_frames):
            last = k + 1 >= len(own_frames) or (own_frames[k + 1]["width"], own_frames[k + 1]["value"]) != (wv["width"], wv["value"]) \
                or own_frames[k + 1]["t"] - wv["t"] > 0.1
            if last:
                a = wv["answer"]
                stream.append((round(wv["t"] + 0.007, 6), "N" if a is None else ("B" if a[0] == "ok" else "E"), 8, 0 if a is None else a[1]))
        stream += quirk_log
        stream.sort(key=lambda x: x[0])
        expected, pending = watch_ref.parse(stream)
        if pending is not None:
            expected.append((pending["t_wait"] + 0.2, pending["width"], pending["value"], pending["dt"],
                             None if pending["kind"] == "twice" else ("none",), pending["kind"] == "twice"))

        def norm(log):
            return [(len(c.frame), c.frame.as_integer, describe_response(c, rsp), bool(e)) for (t_, c, rsp, e) in log]
        want = [(w_, v_, o_, f_) for (t_, w_, v_, dt_, o_, f_) in expected]
        got = norm(base_log)
        res.hit("reports_compared", len(want))
        if got != want:
            # locate the first difference
            k = next((n for n in range(min(len(got), len(want))) if got[n] != want[n]), min(len(got), len(want)))
            g = got[k] if k < len(got) else None
            x = want[k] if k < len(want) else None
            if g is None:
                key = "report-missing"
            elif x is None or (got.count(g) > want.count(g)):
                key = "extra-or-duplicate-report"
            elif g[:2] == x[:2] and g[3] != x[3]:
                key = "failed-flag"
            elif g[:2] == x[:2]:
                key = "response-pairing"
            else:
                key = "order-or-content"
            res.violation(f"C20/tridonic/{key}", f"report {k}: watcher delivered {fmt(g)}, reference parser expects {fmt(x)}",
                          {**wit, "got": [fmt(z) for z in got][:20], "want": [fmt(z) for z in want][:20]})
            return
        # decoding context: class of each reported command equals decoding under the reference's device type
        from dali import command, frame
        for (t_, c, rsp, e), (te, w_, v_, dt_, o_, f_) in zip(base_log, expected):
            ref = command.from_frame(frame.ForwardFrame(w_, v_), devicetype=dt_, dev_inst_map=dmap)
            if type(c) is not type(ref) or str(c) != str(ref):
                res.violation("C20/tridonic/decoded-in-wrong-context", f"frame {v_:#x} reported as {c}, decoding under device type {dt_} "
                              f"(the immediately preceding frame) gives {ref}", wit)
                return
            if rsp is not None and type(rsp) is not c.response:
                res.violation("C20/tridonic/response-type", f"{c}: response object is {type(rsp).__name__}", wit)
                return
        # every subscriber got exactly the reports made while it was subscribed
        boundaries = [0.5] + segs
        for k, (j, l) in enumerate(subs):
            lo = boundaries[j]
            hi = boundaries[l] + 0.01 if l is not None else float("inf")
            in_k = [x for x in base_log if lo <= x[0] < hi]
            want_k = [z for z in norm(in_k)]
            got_k = norm(logs[k])
            if oneshot[k] and want_k:
                # it left from inside its first callback: the first report, plus at most the reports that had already been
                # made (same instant, before that callback ran) while it was still subscribed
                same = sum(1 for x in in_k if x[0] == in_k[0][0])
                want_k = want_k[:max(1, min(len(got_k), same))]
            res.hit("subscriber_logs_compared")
            if got_k != want_k:
                res.violation("C20/tridonic/subscriber-delivery", f"subscriber {k} (joined at {lo}, left at {hi}) received {len(got_k)} reports, "
                              f"{len(want_k)} were made in that interval", {**wit, "subscriber": k})
                return
        t_drop = segs[0]
        want_dup = []
        for z in base_log:
            if z[0] < 0.9 or not dup_sub:
                continue                     # reports made during the handshake, before the recorder existed
            want_dup += norm([z]) * (2 if z[0] < t_drop else 1)
        got_dup = norm([z for z in dup_log if z[0] >= 0.9])
        if dup_sub:
            res.hit("same_callable_subscribed_twice")
        if got_dup != want_dup:
            res.violation("C20/tridonic/subscriber-delivery/same-callable-twice", f"a callable subscribed twice (first subscription dropped at "
                          f"{t_drop}) received {len(got_dup)} calls, {len(want_dup)} expected (two per report before, one after)", wit)
            return
        if twin:
            seen2 = [c.frame.as_integer for (_t, drv, c) in twin_log]
            if any(drv is not sim.driver2 for (_t, drv, c) in twin_log) or seen2 != twin_sent:
                res.violation("C20/tridonic/twin-delivery", f"a second Tridonic instance in the same process: its subscriber received {len(seen2)} reports "
                              f"({[hex(x) for x in seen2][:6]}...), its bus carried {len(twin_sent)} frames ({[hex(x) for x in twin_sent][:6]}...)", wit)
        if getattr(sim, 'hostile_calls', 0):
            res.hit('hostile_listener_runs')
        if sim.loop.errors:
            res.violation("C20/tridonic/internal-error", f"exception in a callback/task: {sim.loop.errors[0]}", wit)
        if i == 0:
            res.sample({"reports": wit["reports"][:12], "expected": [fmt(z) for z in want][:8], "subscribers": subs})
    finally:
        sim.close()


def match_optional(got, items):
    """got must be items in order, where items flagged optional (near a subscription boundary) may be absent.
    (dynamic programme, not greedy: an optional item may equal the required one that follows it)"""
    # reach = set of item positions i such that got[:g] can be matched against items[:i] with every skipped item optional
    reach = {0}
    for g in got:
        nxt = set()
        for i in reach:
            j = i
            while j < len(items):
                if items[j][0] == g:
                    nxt.add(j + 1)
                if items[j][1]:
                    break             # a required item cannot be skipped
                j += 1
        if not nxt:
            return False
        reach = nxt
    return any(not any(req for x, req in items[i:]) for i in reach)


def fmt(z):
    if z is None:
        return None
    return f"{z[0]}-bit {z[1]:#x} -> {z[2]} failed={z[3]}"


# ------------------------------------------------------------------------------------------ serial receive path

def serial_case(driver, seed, part, i, res):
    from dali.device.helpers import DeviceInstanceTypeMapper
    from dali import command, frame
    import gc
    r = rng(seed, "C20", driver, part, i)
    dmap = DeviceInstanceTypeMapper()
    # the application may hand the driver its (still empty) map and fill it afterwards through its own reference
    fill_later = i % 3 == 2
    # ... or the map learns an instance in the middle of the traffic (a scan finishing, the application adding an entry):
    # the same event frame is ambiguous before and decoded afterwards
    learn_mid = i % 4 == 1 and not fill_later
    if not fill_later and not learn_mid:
        dmap.add_type(short_address=3, instance_number=1, instance_type=1)
    picker = simlib.Picker(r)
    sim = simlib.Sim(driver, picker, dev_inst_map=dmap)
    txs, tags = gen_transactions(r, r.randint(2, 8))
    frames = [(t_, w_, v_) for (t_, k_, w_, v_) in flatten(txs, 0.3) if k_ == "F"]
    t_learn = None
    if learn_mid:
        from models import events_ref as _E
        ev_frame = _E.encode_event("device_instance", 1, 2, short_address=3, instance_number=1)
        t_last = max([f_[0] for f_ in frames] + [0.3])
        frames.insert(0, (0.12, 24, ev_frame))
        frames.append((round(t_last + 0.5, 6), 24, ev_frame))
        frames.append((round(t_last + 0.7, 6), 24, ev_frame))
        t_learn = t_last + 0.3
    # sometimes an own transmission falls between another master's ENABLE DEVICE TYPE and its extended command
    sandwich = r.random() < 0.25
    if sandwich:
        import dali.gear.led as led
        from dali import address as A
        ext = led.QueryGearType(A.GearShort(50)).frame.as_integer
        base = (frames[-1][0] if frames else 0.3) + 0.6
        frames += [(round(base, 6), 16, 0xC106), (round(base + 0.25, 6), 16, ext)]
    n_own = r.choice([0, 0, 1, 2])
    own = [simlib.make_command(r, r.choice(["plain", "query", "twice"]), 0, k, driver) for k in range(n_own)]
    for k in tags:
        if k.startswith("edt"):
            res.hit("dt_context_cases")
    subs = []
    for _ in range(r.choice([1, 2, 3, 4])):
        j = r.choice([0.1, 0.25, 0.1, 0.9, 1.6])
        l = r.choice([None, None, 0.7, 1.2, 2.5])
        # keep subscription boundaries at least 60 ms away from any frame (the oracle needs no tie-break then)
        while any(abs(t_ - j) < 0.06 for (t_, w_, v_) in frames):
            j += 0.07
        if l is not None and l <= j:
            l = j + 0.8
        while l is not None and any(abs(t_ - l) < 0.06 for (t_, w_, v_) in frames):
            l += 0.07
        subs.append((round(j, 4), None if l is None else round(l, 4)))
    if r.random() < 0.3:
        # several early subscribers, one of them leaves, a new one joins later while the others are still subscribed
        n_early = r.choice([2, 3, 3])
        leaver = r.randrange(n_early)
        base = [[0.1 + 0.01 * k, None] for k in range(n_early)] + [[r.choice([0.9, 1.3]), None]]
        base[leaver][1] = 0.7
        subs = []
        for j, l in base:
            while any(abs(t_ - j) < 0.06 for (t_, w_, v_) in frames):
                j += 0.07
            while l is not None and any(abs(t_ - l) < 0.06 for (t_, w_, v_) in frames):
                l += 0.07
            subs.append((round(j, 4), None if l is None else round(l, 4)))
        # make sure there is traffic after the newcomer joined
        tail_t = max(max(j for j, l in subs) + 0.2, (frames[-1][0] if frames else 0) + 0.1)
        for k in range(3):
            frames.append((round(tail_t + 0.15 * k, 6), 16, 0x6100 + 2 * k * 256 + 0x100 * 0 + (k + 1)))
    queues = {}
    detached = []
    left = {}
    after_leave = []
    got = {k: [] for k in range(len(subs))}

    async def main(sim):
        await sim.connect()
        d, dev, w = sim.driver, sim.dev, sim.world
        if fill_later:
            dmap.add_type(short_address=3, instance_number=1, instance_type=1)
            res.hit("map_filled_after_construction")
        if learn_mid:
            w.at(t_learn, lambda: dmap.add_type(short_address=3, instance_number=1, instance_type=1))
            res.hit("map_learns_mid_history")

        def join(k):
            queues[k] = d.new_dali_rx_queue()

        def leave(k):
            q = queues.pop(k)
            while not q.empty():
                got[k].append((w.now, q.get_nowait()))
            # unsubscribe through the registry's own method (the parent holds a strong reference, so dropping the child is not enough)
            proto = getattr(d, "_protocol", None)
            parent = getattr(proto, "queue_rx_dali", None)
            if parent is None or not hasattr(parent, "del_handler"):
                detached.append("the receive queue registry is not reachable the way the harness unsubscribes from it")
                return
            parent.del_handler(q)
            left[k] = q
        for k, (j, l) in enumerate(subs):
            w.at(j, lambda k=k: join(k))
            if l is not None:
                w.at(l, lambda k=k: leave(k))
        for (t_, w_, v_) in frames:
            dev.foreign(t_ - w.now, w_, v_)
        if sandwich:
            await asyncio.sleep(max(0.0, frames[-2][0] + 0.02 - w.now))
            await d.send(simlib.make_command(r, "plain", 1, 1, driver))
        end = (frames[-1][0] if frames else 0.5) + 0.5
        # own sends happen in a quiet moment after the foreign traffic
        await asyncio.sleep(max(0.0, end - w.now))
        for c in own:
            await d.send(c)
        await asyncio.sleep(0.5)
        for k, q in queues.items():
            while not q.empty():
                got[k].append((w.now, q.get_nowait()))
        for k, q in left.items():
            while not q.empty():
                after_leave.append((k, q.get_nowait()))
        return True

    out, stalled = sim.run(main)
    if detached:
        res.inconclusive.append("harness detached: " + detached[0])
        sim.close()
        return
    res.evaluations += 1
    res.hit("serial_histories")
    res.digests.add(digest(driver, frames, subs, [str(c) for c in own]))
    wit = {"driver": driver, "seed": seed, "part": part, "case": i, "frames": [(t_, hex(v_)) for t_, w_, v_ in frames], "subscribers": subs,
           "own": [str(c) for c in own]}
    try:
        if simlib.detached(out):
            res.inconclusive.append('harness detached: ' + str(out))
            return
        if stalled or out is not True:
            res.violation(f"C20/{driver}/stall-or-crash", f"simulation ended with {'a stall' if stalled else repr(out)}", wit)
            return
        # frames the receive path saw, in order: foreign ones, plus (SCI, echo on) the own transmissions
        seen = sorted([(wv["t"], wv["width"], wv["value"], wv["origin"]) for wv in sim.bus.wire], key=lambda x: x[0])
        expected = []
        dt = 0
        for (t_, w_, v_, origin) in seen:
            if origin == "foreign" or driver == "sci":      # the SCI gateway echoes own transmissions as observed frames
                the_map = DeviceInstanceTypeMapper() if (learn_mid and t_ < t_learn) else dmap
                ref = command.from_frame(frame.ForwardFrame(w_, v_), devicetype=dt, dev_inst_map=the_map)
                expected.append((t_, w_, v_, type(ref).__name__, str(ref)))
            # the device type context is a property of the bus: any frame in between cancels an ENABLE DEVICE TYPE
            dt = (v_ & 0xFF) if (w_ == 16 and v_ >> 8 == 0xC1) else 0
        for k, (j, l) in enumerate(subs):
            hi = l if l is not None else float("inf")
            items = [((w_, v_, n_, s_), (j + 0.06 <= t_ < hi - 0.06)) for (t_, w_, v_, n_, s_) in expected if j - 0.06 <= t_ < hi + 0.06]
            want = [x for x, req in items if req]
            gk = [(len(c.frame), c.frame.as_integer, type(c).__name__, str(c)) for (t_, c) in got[k]]
            res.hit("serial_frames_compared", len(want))
            if not match_optional(gk, items):
                n = next((m for m in range(min(len(gk), len(want))) if gk[m] != want[m]), min(len(gk), len(want)))
                g = gk[n] if n < len(gk) else None
                x = want[n] if n < len(want) else None
                if g is None:
                    key = "frame-missing"
                elif x is not None and g[:2] == x[:2]:
                    key = "decoded-in-wrong-context" + ("/own-frame-in-between" if sandwich else "")
                elif x is None or gk.count(g) > want.count(g):
                    key = "extra-or-duplicate-frame"
                else:
                    key = "order-or-content"
                res.violation(f"C20/{driver}/{key}", f"subscriber {k}: item {n} delivered {g}, expected {x}",
                              {**wit, "subscriber": k, "got": [str(z) for z in gk][:16], "want": [str(z) for z in want][:16]})
                return
        if after_leave:
            res.violation(f"C20/{driver}/delivered-after-unsubscribe", f"subscriber {after_leave[0][0]} received {after_leave[0][1]} after it had unsubscribed", wit)
        if getattr(sim, 'hostile_calls', 0):
            res.hit('hostile_listener_runs')
        if sim.loop.errors:
            res.violation(f"C20/{driver}/internal-error", f"exception in a callback/task: {sim.loop.errors[0]}", wit)
        if i == 0:
            res.sample({"driver": driver, "frames": wit["frames"][:10], "subscribers": subs})
    finally:
        sim.close()


def run_shard(desc, tier, seed):
    res = Result()
    simlib.import_all()
    _drv = desc.get("driver", "tridonic" if desc.get("kind") == "tridonic" else None)
    if _drv in simlib.DRIVERS and "replay" not in desc:
        why = simlib.probe_attach(_drv)
        if why:
            res.inconclusive.append(why)
            return res
    if "replay" in desc:
        for w in desc["replay"]["witnesses"]:
            x = w["witness"]
            if "driver" in x:
                serial_case(x["driver"], x["seed"], x["part"], x["case"], res)
            else:
                tridonic_case(x["seed"], x["part"], x["case"], res)
        return res
    try:
        for i in range(desc["n"]):
            if desc["kind"] == "tridonic":
                tridonic_case(seed, desc["part"], i, res)
            else:
                serial_case(desc["driver"], seed, desc["part"], i, res)
    except Exception as e:
        res.inconclusive.append("harness error: " + short_tb(e))
    return res
