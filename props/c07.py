"""C07 - commissioning terminates and assigns distinct, permitted short addresses.

The real generator dali.sequences.Commissioning is run against models/gear102.Gear units on
models/bus.Bus, with an adversarial scheduler for the random addresses the gear draw.
Oracle: predicates over the model's final state + an analytic bound on the number of commands.
"""
from vlib.common import Result, rng, short_tb

PROP = "C07"
LEVEL = "exploration"
CONTRACTS = "icontract"
RULE = ("one case = one bus configuration (units, pre-existing addresses, permitted set, readdress, dry-run, faulty "
        "units) + one random-address schedule; distinct = distinct digests of (configuration, schedule kind, draw log); "
        "non-trivial: at least one participating unit")
ASSUMPTIONS = ["models/gear102.py reads IEC 62386-102:2014 9.14/11.7: RANDOMISE, SEARCHADDRx, PROGRAM/VERIFY/QUERY SHORT "
               "ADDRESS act while initialisationState != DISABLED, COMPARE/WITHDRAW only while ENABLED",
               "the 15 minute initialisation timer is not modelled (the property bounds commands, not time)",
               "a driver transmits send-twice commands twice and wraps collisions as BackwardFrameError"]
EXHAUSTIVE = {"quick": False, "thorough": False}
REQUIRED_ANCHORS = {"all": ["runs_completed", "clash_restarts", "no_addresses_left", "found_at_0xffffff",
                            "program_failure_raised", "Frame.__setitem__", "interleaved_pairs", "abandoned_sequences", "reused_argument_runs"]}
SHARD_TIMEOUT = {"quick": 600, "thorough": 3000}

SCHEDULES = ["uniform", "tiny", "extremes", "pair_clash", "reuse_earlier", "withdrawn_redraw", "dense", "long_clash"]


def plan(tier, seed):
    n = 400 if tier == "quick" else 20000
    parts = 16 if tier == "quick" else 64
    return [{"part": p, "n": n // parts} for p in range(parts)] + [{"part": "interleaved", "n": 30 if tier == "quick" else 600}]


def run_interleaved(desc, seed, res):
    """Two installations commissioned from one process: the two sequences are advanced in turns."""
    import random
    from props import pairs
    from dali.sequences import Commissioning
    from models.gear102 import Gear
    from models.bus import Bus

    def mk(rr):
        units = []
        for k in range(rr.randint(1, 5)):
            rk = random.Random(rr.getrandbits(32))
            units.append(Gear(short=(None if rr.random() < 0.7 else rr.randrange(64)), draw=lambda u, rk=rk: rk.getrandbits(24), name=k))
        kw = {}
        if rr.random() < 0.5:
            kw["available_addresses"] = sorted(rr.sample(range(64), rr.randint(1, 20)))
        if rr.random() < 0.3:
            kw["readdress"] = True
        return Bus(units, bound=40000), Commissioning(**kw), lambda: [u.short for u in units]
    pairs.differential(res, "C07", rng(seed, "C07", "interleaved"), {"Commissioning": mk}, desc["n"])
    pairs.abandon(res, "C07", rng(seed, "C07", "abandon"), {"Commissioning": mk}, desc["n"])


class Scheduler:
    """Decides every random address a unit draws. All decisions come from one seeded RNG."""

    def __init__(self, kind, r, units):
        self.kind, self.r = kind, r
        self.round_of = {}
        self.log = []
        self.k = r.randint(1, 3)          # rounds during which clashes are forced
        self.k_long = r.choice([7, 8, 9, 10])   # "long_clash": two units keep drawing the same value for this many rounds
        self.space = [r.getrandbits(24) for _ in range(r.randint(2, 4))]
        self.used = []                    # values drawn in earlier rounds
        self.pairs = {}
        self.units = units

    def draw(self, unit):
        rnd = self.round_of.get(id(unit), 0)
        self.round_of[id(unit)] = rnd + 1
        r = self.r
        kind = self.kind
        v = None
        if kind == "uniform":
            v = r.getrandbits(24)
        elif kind == "tiny":
            v = r.choice(self.space) if rnd < self.k else None
        elif kind == "extremes":
            if rnd < self.k:
                v = r.choice([0, 0xFFFFFF, 0, 0xFFFFFF, 1, 0xFFFFFE, 0x800000, 0x7FFFFF])
            elif not self.pairs.get(("x", rnd)):
                # afterwards at most one unit per round still draws an extreme value
                self.pairs[("x", rnd)] = True
                v = r.choice([0, 0xFFFFFF])
        elif kind == "pair_clash":
            idx = self.units.index(unit) if unit in self.units else 0
            if rnd < self.k:
                key = (rnd, idx // r.choice([2, 2, 3]))
                v = self.pairs.setdefault(key, r.getrandbits(24))
        elif kind == "reuse_earlier":
            if 0 < rnd <= self.k and self.used and r.random() < 0.6:
                v = r.choice(self.used)
            elif rnd == 0 and r.random() < 0.4:
                v = r.choice(self.space)
        elif kind == "withdrawn_redraw":
            # a unit that is already withdrawn re-draws the value an enabled unit is about to draw / has drawn
            if rnd == 0 and r.random() < 0.5:
                v = r.choice(self.space)              # force a clash in the first round
            elif 0 < rnd <= self.k:
                key = ("w", rnd, r.randrange(4))
                v = self.pairs.setdefault(key, r.getrandbits(24)) if r.random() < 0.5 else None
        elif kind == "dense":
            v = r.randrange(0, 256) if rnd < self.k else None
        elif kind == "long_clash":
            # an unlucky (or poorly seeded) pair: identical draws round after round, then they diverge - every unit must
            # still end up addressed, however long that took
            idx = self.units.index(unit) if unit in self.units else 9
            if rnd < self.k_long and idx < 2:
                v = self.pairs.setdefault(("L", rnd), r.getrandbits(24))
        if v is None:
            # fresh value, distinct from everything drawn in this round so that clashes end
            while True:
                v = r.getrandbits(24)
                if all(x[1] != v or x[0] != rnd for x in self.log[-200:]):
                    break
        self.log.append((rnd, v))
        self.used.append(v)
        return v


def make_case(r):
    from models.gear102 import Gear
    n_units = r.choice([0, 1, 2, 3, 5, 8, 12, 20, 40, 64, 66, 70]) if r.random() < 0.6 else r.randint(0, 70)
    kind = r.choice(SCHEDULES)
    readdress = r.random() < 0.5
    dry_run = r.random() < 0.15
    if kind == "long_clash":
        n_units = r.randint(2, 6)
    pre = []
    for i in range(n_units):
        c = r.random()
        if c < 0.45:
            pre.append(None)
        elif c < 0.9:
            pre.append(r.randrange(64))
        else:
            pre.append(pre[-1] if pre and pre[-1] is not None else r.randrange(64))   # duplicate address
    c = r.random()
    if c < 0.35:
        permitted = None
    elif c < 0.45:
        permitted = []
    elif c < 0.6:
        permitted = [r.randrange(64)]
    else:
        permitted = sorted(r.sample(range(64), r.randint(1, 63)))
        if r.random() < 0.3:
            r.shuffle(permitted)
    faulty = {}
    if r.random() < 0.12 and n_units:
        faulty[r.randrange(n_units)] = r.choice(["no_store", "no_verify"])
    # units left in initialisation mode by an earlier, interrupted run (its TERMINATE never came)
    leftover = {}
    if r.random() < 0.25 and n_units:
        for i in r.sample(range(n_units), min(n_units, r.randint(1, 3))):
            leftover[i] = r.choice(["ENABLED", "WITHDRAWN"])
    return dict(n_units=n_units, kind=kind, readdress=readdress, dry_run=dry_run, pre=pre, permitted=permitted,
                faulty=faulty, positional=r.random() < 0.3, leftover=leftover)


def run_case(case, r, res, collect=None):
    from dali.sequences import Commissioning
    from dali.exceptions import ProgramShortAddressFailure
    from models.gear102 import Gear
    from models.bus import Bus, CommandBoundExceeded
    units = []
    sched = Scheduler(case["kind"], r, units)
    for i, sa in enumerate(case["pre"]):
        f = case["faulty"].get(i) or case["faulty"].get(str(i))
        units.append(Gear(short=sa, draw=sched.draw, no_store=(f == "no_store"), no_verify=(f == "no_verify"), name=i))
    for i, st in (case.get("leftover") or {}).items():
        units[int(i)].init_state = st
        units[int(i)].random = r.getrandbits(24)
    # monitor: PROGRAM SHORT ADDRESS reaching a unit that is already WITHDRAWN
    reprogrammed = []
    for u in units:
        orig = u.execute

        def execute(name, row, a, u=u, orig=orig):
            if name == "PROGRAM SHORT ADDRESS" and u.init_state == "WITHDRAWN" and u.random == u.search \
                    and not u.no_store:
                reprogrammed.append((u.name, u.short, a.get("address")))
            return orig(name, row, a)
        u.execute = execute
    bus = Bus(units)
    before = [u.short for u in units]
    participants = [i for i, u in enumerate(units) if case["readdress"] or u.short is None]
    bus.bound = 10 ** 7
    exc = None
    try:
        kwargs = dict(readdress=case["readdress"], dry_run=case["dry_run"])
        if case["permitted"] is not None:
            kwargs["available_addresses"] = list(case["permitted"])
        if case.get("positional"):
            # the documented parameter order: (available_addresses, readdress, dry_run)
            gen = Commissioning(kwargs.get("available_addresses"), case["readdress"], case["dry_run"])
        else:
            gen = Commissioning(**kwargs)
        # the bound depends on the number of rounds the scheduler forced, known only afterwards; run with a
        # generous hard stop and judge afterwards
        hard = 70 + 13 * (len(units) + 1) * (4 * 49 + 8)
        bus.bound = hard
        bus.run_sequence(gen)
    except CommandBoundExceeded:
        exc = "bound"
    except ProgramShortAddressFailure as e:
        exc = "psaf"
    except Exception as e:
        exc = e
    wit = {"case": case, "draws": sched.log[:60], "commands": bus.n_commands,
           "before": before, "after": [u.short for u in units]}
    rounds = max([u.randomise_count for u in units] + [1])
    bound = 70 + (rounds + 1) * (len(units) + 1) * (4 * 49 + 8)
    for m in bus.progress:
        if "restarting" in m:
            res.hit("clash_restarts")
        if "no short addresses left" in m:
            res.hit("no_addresses_left")
        if "found at address 0xffffff" in m:
            res.hit("found_at_0xffffff")
    if collect is not None:
        collect.update(rounds=rounds, commands=bus.n_commands, bound=bound)
    faulty_participant = any(int(i) in participants for i in case["faulty"]) and not case["dry_run"]
    if exc == "bound" and rounds > 11:
        res.inconclusive.append(f"scheduler forced {rounds} clash rounds; the premise 'clashes eventually end' was not met")
        return
    if exc == "bound" or bus.n_commands > bound:
        res.violation("C07/not-terminated-within-bound",
                      f"{bus.n_commands} commands yielded, analytic bound for {len(units)} units and {rounds} rounds is {bound}", wit)
        return
    if exc == "psaf":
        res.hit("program_failure_raised")
        if not faulty_participant:
            if reprogrammed:
                res.violation("C07/withdrawn-unit-redraws-same-random-address",
                              "ProgramShortAddressFailure/duplicate caused by a withdrawn unit that re-drew an enabled unit's random address", wit)
            else:
                res.violation("C07/program-failure-without-fault", "ProgramShortAddressFailure raised although every unit stores and verifies", wit)
        return
    if exc is not None:
        res.violation(f"C07/raised/{type(exc).__name__}", f"Commissioning raised {type(exc).__name__}: {exc}",
                      {**wit, "tb": short_tb(exc)})
        return
    res.hit("runs_completed")
    after = [u.short for u in units]
    if reprogrammed and not case["dry_run"]:
        # mechanism monitor: PROGRAM SHORT ADDRESS reached a unit that was already addressed and withdrawn
        res.violation("C07/withdrawn-unit-redraws-same-random-address",
                      f"after a clash restart a withdrawn, already addressed unit re-drew the random address of an enabled unit "
                      f"and PROGRAM SHORT ADDRESS reprogrammed both (final addresses {after})", wit)
        return
    # 1. every unit out of initialisation mode
    if any(u.init_state != "DISABLED" for u in units):
        res.violation("C07/not-terminated", "a unit is still in initialisation mode after the sequence", wit)
    # a faulty participating unit must have been reported
    permitted = list(range(64)) if case["permitted"] is None else list(case["permitted"])
    if case["dry_run"]:
        if after != before:
            res.violation("C07/dry-run-changed-addresses", f"dry run changed short addresses {before} -> {after}", wit)
        return
    nonpart = [i for i in range(len(units)) if i not in participants]
    if any(after[i] != before[i] for i in nonpart):
        key = "C07/withdrawn-unit-redraws-same-random-address" if reprogrammed else "C07/non-participant-changed"
        res.violation(key, "a non-participating unit's short address changed", wit)
        return
    in_use = set(before[i] for i in nonpart if before[i] is not None)
    if case["readdress"]:
        free = list(permitted)
    else:
        free = [a for a in permitted if a not in in_use]
    got = [after[i] for i in participants]
    assigned = [a for a in got if a is not None]
    dup = len(assigned) != len(set(assigned)) or any(a in in_use for a in assigned)
    if faulty_participant:
        # a participating unit that does not store/verify: the sequence must have raised, unless it never got to
        # program that unit because the permitted set was exhausted first
        fi = [int(i) for i in case["faulty"]][0]
        if len(free) >= len(participants):
            res.violation("C07/faulty-unit-not-reported",
                          "a unit that does not store or verify its address took part, but no ProgramShortAddressFailure was raised", wit)
        return
    if dup:
        if reprogrammed:
            res.violation("C07/withdrawn-unit-redraws-same-random-address",
                          f"duplicate short addresses {sorted(assigned)}: after a clash restart a withdrawn, already addressed unit "
                          f"re-drew the random address of an enabled unit and PROGRAM SHORT ADDRESS reprogrammed both", wit)
        else:
            res.violation("C07/duplicate-addresses", f"addresses handed out are not distinct / collide with addresses in use: {sorted(assigned)}", wit)
        return
    if reprogrammed:
        # an already addressed unit was re-programmed; addresses may still be distinct but one address was lost
        res.violation("C07/withdrawn-unit-redraws-same-random-address",
                      "a withdrawn unit was reprogrammed after a clash restart (re-drew an enabled unit's random address)", wit)
        return
    if any(a not in permitted for a in assigned):
        res.violation("C07/address-not-permitted", f"an address outside the permitted set was assigned: {assigned} vs {permitted}", wit)
    want = min(len(free), len(participants))
    if len(assigned) != want:
        res.violation("C07/participant-left-unaddressed" if len(assigned) < want else "C07/too-many-addressed",
                      f"{len(participants)} participants, {len(free)} permitted free addresses: {len(assigned)} units addressed, expected {want}", wit)


def run_reused_arguments(desc, seed, res):
    """The application keeps its list of permitted addresses and hands the same object to one run after another (a dry run
    first, then the real one; or one run per bus).  Each run behaves as if it had been given a fresh, equal list."""
    import random
    from dali.sequences import Commissioning
    from models.gear102 import Gear
    from models.bus import Bus

    def one_run(pre, sseed, arg, readdress, dry):
        units = []
        sched = Scheduler("uniform", random.Random(sseed), units)
        for i, sa in enumerate(pre):
            units.append(Gear(short=sa, draw=sched.draw, name=i))
        bus = Bus(units)
        bus.bound = 200000
        try:
            bus.run_sequence(Commissioning(available_addresses=arg, readdress=readdress, dry_run=dry))
        except Exception as e:
            return ("raised", type(e).__name__)
        return [u.short for u in units]
    for t in range(desc["n"]):
        r = rng(seed, "C07", "reused", t)
        pre = [None if r.random() < 0.6 else r.randrange(64) for _ in range(r.randint(1, 12))]
        orig = r.sample(range(64), r.randint(1, 20))
        if r.random() < 0.5:
            orig.sort()
        shape = r.choice(["list", "list", "tuple", "set", "range"])
        if shape == "range":
            lo = r.randrange(60)
            orig = list(range(lo, r.randint(lo + 1, 64)))
        mk = {"list": list, "tuple": tuple, "set": set, "range": lambda o: range(o[0], o[-1] + 1)}[shape]
        shared = mk(orig)
        readdress = r.random() < 0.4
        plan_ = r.choice([("dry", "real"), ("real", "real"), ("dry", "dry", "real")])
        seeds = [r.getrandbits(32) for _ in plan_]
        res.evaluations += 1
        res.distinct += 1
        res.hit("reused_argument_runs")
        wit = {"pre": pre, "permitted": sorted(orig) if shape == "set" else orig, "shape": shape, "runs": list(plan_), "readdress": readdress}
        for k, (what, sd) in enumerate(zip(plan_, seeds)):
            got = one_run(pre, sd, shared, readdress, what == "dry")
            ref = one_run(pre, sd, mk(orig), readdress, what == "dry")
            if got != ref:
                res.violation("C07/reused-argument/run-differs", f"run {k + 1} ({what}) of {list(plan_)} with the application's own "
                              f"{shape} of permitted addresses ends with {got}; given a fresh equal {shape} it ends with {ref} "
                              f"(the application's object now reads {list(shared) if shape != 'set' else sorted(shared)})", wit)
                break


def run_shard(desc, tier, seed):
    from vlib.common import digest
    res = Result()
    if "replay" in desc:
        for w in desc["replay"]["witnesses"]:
            case = w["witness"]["case"]
            r = rng(case.get("_seed", seed), "C07", case.get("_part", 0), case.get("_i", 0))
            make_case(r)     # consume the same draws as the original generation
            run_case(case, r, res)
            res.evaluations += 1
        return res
    if desc["part"] == "interleaved":
        run_interleaved(desc, seed, res)
        run_reused_arguments(desc, seed, res)
        return res
    for i in range(desc["n"]):
        r = rng(seed, "C07", desc["part"], i)
        case = make_case(r)
        case.update(_seed=seed, _part=desc["part"], _i=i)
        info = {}
        try:
            run_case(case, r, res, info)
        except Exception as e:
            res.inconclusive.append("harness error in C07 case: " + short_tb(e))
            break
        res.evaluations += 1
        if case["n_units"]:
            res.digests.add(digest(case, info))
        res.add("schedule_" + case["kind"])
        if i == 0:
            res.sample({**case, **info})
    return res
