"""C14 - colour (DT8) sequences carry 16-bit values byte-exactly and in order.

Executed: dali.gear.sequences.SetDT8ColourValueTc / SetDT8TcLimit / QueryDT8ColourValue against a
models/gear102.Gear carrying a models/tc209.TcUnit, through models/bus (which, like every driver,
prefixes ENABLE DEVICE TYPE 8 and repeats send-twice commands).  Oracles: unit state, return value,
an order monitor over the yielded commands, rejection before the first command.
"""
from vlib.common import Result, rng, short_tb

PROP = "C14"
LEVEL = "exploration"
CONTRACTS = "icontract"
RULE = ("set/limit: one case = (mirek, destination kind[, limit selector]); query: (selector, stored 16-bit value[, "
        "fault position, fault kind]); reject: (sequence, bad argument); distinct = distinct cases")
ASSUMPTIONS = ["models/tc209.py: SET TEMPORARY Tc loads DTR1:DTR0, ACTIVATE copies it limited to [coolest, warmest] "
               "(wide open in the model unless stated), QUERY COLOUR VALUE answers the MSB and puts the LSB in DTR0",
               "the library's QueryColourValueDTR enumeration defines the query selectors (73 members)"]
EXHAUSTIVE = {"quick": False, "thorough": True}
REQUIRED_ANCHORS = {"all": ["set_checked", "limit_checked", "query_checked", "query_faults_checked", "rejections_checked",
                            "order_monitored", "interleaved_pairs", "abandoned_sequences"]}
SHARD_TIMEOUT = {"quick": 600, "thorough": 3000}


def plan(tier, seed):
    sh = []
    n = 8 if tier == "quick" else 32
    for p in range(n):
        sh.append({"kind": "set", "part": p, "of": n, "stride": 4 if tier == "quick" else 1})
    for p in range(4):
        sh.append({"kind": "query", "part": p, "of": 4, "values": 120 if tier == "quick" else 1200})
    sh.append({"kind": "reject"})
    sh.append({"kind": "interleaved", "n": 300 if tier == "quick" else 5000})
    return sh


_counter = [0]


def mk_bus(dest_kind, values=None, limits=None):
    """Target unit at a short address / group that varies from case to case (all 64 / 16 are visited)."""
    from dali import address
    from models.gear102 import Gear
    from models.tc209 import TcUnit
    from models.bus import Bus
    _counter[0] += 1
    sa, grp = (_counter[0] * 7) % 64, (_counter[0] * 5) % 16
    kw = {} if limits is None else dict(coolest=limits[0], warmest=limits[1])
    target = Gear(short=sa, groups={grp}, device_types=[6, 8], tc=TcUnit(values, **kw), name="target")
    other = Gear(short=(sa + 1) % 64, groups={(grp + 1) % 16}, device_types=[8], tc=TcUnit(), name="other")
    dest = {"short": address.GearShort(sa), "int": sa, "group": address.GearGroup(grp),
            "broadcast": address.GearBroadcast()}[dest_kind]
    return Bus([target, other], bound=200), target, other, dest


def decode_log(bus):
    """Frames on the wire as (standard's command name, args)."""
    from models import cmd_ref
    out = []
    dt = None
    for width, value, ans in bus.log:
        c = cmd_ref.classify16(value, 0)
        hi, lo = value // 256, value % 256
        if c[0] != "known" and dt and lo >= 224:
            c = cmd_ref.classify16(value, dt)
        elif c[0] == "known" and c[1].kind == "std" and lo >= 224 and dt:
            c = cmd_ref.classify16(value, dt)
        name = c[1].name if c[0] == "known" else f"unknown({value:#06x})"
        args = c[2] if c[0] == "known" else {}
        out.append((name, args))
        dt = args.get("param") if name == "ENABLE DEVICE TYPE" else None
    return out


def order_monitor(names, mirek, final_cmd, selector=None):
    """DTR0 := low, DTR1 := high (DTR2 := selector) occur before final_cmd with no other DTR write in between; returns text or None."""
    lo, hi = mirek % 256, mirek // 256
    try:
        k = [n for n, a in names].index(final_cmd)
    except ValueError:
        return f"{final_cmd} was never sent"
    last = {}
    for n, a in names[:k]:
        if n in ("DTR0", "DTR1", "DTR2"):
            last[n] = a["param"]
    if last.get("DTR0") != lo or last.get("DTR1") != hi:
        return f"at {final_cmd}: DTR0={last.get('DTR0')} DTR1={last.get('DTR1')}, value needs DTR0={lo} DTR1={hi}"
    if selector is not None and last.get("DTR2") != selector:
        return f"at {final_cmd}: DTR2={last.get('DTR2')}, selector is {selector}"
    if names[k - 1][0] != "ENABLE DEVICE TYPE" or names[k - 1][1].get("param") != 8:
        return f"{final_cmd} not immediately preceded by ENABLE DEVICE TYPE 8"
    return None


def run_set(desc, seed, res):
    from dali.gear.sequences import SetDT8ColourValueTc, SetDT8TcLimit
    r = rng(seed, "C14", "set", desc["part"])
    kinds = ["short", "int", "group", "broadcast"]
    mireks = sorted(set(list(range(desc["part"], 65536, desc["of"]))[::desc["stride"]] +
                        ([0, 1, 153, 255, 256, 257, 370, 511, 512, 0x7FFF, 0x8000, 0xFF00, 0xFFFE, 0xFFFF]
                         if desc["part"] == 0 else [])))
    for mi, mirek in enumerate(mireks):
        for kind in (kinds if desc["stride"] == 1 else [kinds[mi % 4]]):
            bus, target, other, dest = mk_bus(kind)
            # stale DTR contents from earlier traffic
            target.dtr0, target.dtr1, target.dtr2 = r.getrandbits(8), r.getrandbits(8), r.getrandbits(8)
            res.evaluations += 1
            res.distinct += 1
            res.hit("set_checked")
            wit = {"sequence": "SetDT8ColourValueTc", "mirek": mirek, "destination": kind}
            try:
                # both call forms of the public signature
                ret = bus.run_sequence(SetDT8ColourValueTc(dest, mirek) if mi % 2 else SetDT8ColourValueTc(tc_mired=mirek, address=dest))
            except Exception as e:
                res.violation(f"C14/set/raised/{type(e).__name__}", f"SetDT8ColourValueTc({kind}, {mirek}) raised {type(e).__name__}: {e}", wit)
                continue
            names = decode_log(bus)
            if target.tc.actual_tc != mirek or target.tc.activations != 1:
                res.violation("C14/set/unit-value", f"unit ends with Tc {target.tc.actual_tc} (activations {target.tc.activations}), requested {mirek}",
                              {**wit, "wire": [n for n, a in names]})
            exp_other = mirek if kind == "broadcast" else 0xFFFF
            if other.tc.actual_tc != exp_other:
                res.violation("C14/set/bystander", f"unit not addressed ends with Tc {other.tc.actual_tc}", wit)
            res.hit("order_monitored")
            msg = order_monitor(names, mirek, "SET TEMPORARY COLOUR TEMPERATURE Tc")
            if msg is None:
                seq = [n for n, a in names]
                k = seq.index("SET TEMPORARY COLOUR TEMPERATURE Tc")
                if "ACTIVATE" not in seq[k + 1:]:
                    msg = "SET TEMPORARY COLOUR TEMPERATURE Tc is not followed by ACTIVATE"
            if msg:
                res.violation("C14/set/order", msg, {**wit, "wire": [n for n, a in names]})
            if ret is not None:
                res.observe("set-returns-value", repr(ret))
        # limits: all four selectors
        sel = mi % 4
        bus, target, other, dest = mk_bus(kinds[(mi // 4) % 4])
        target.dtr2 = (sel + 1) % 4
        res.evaluations += 1
        res.distinct += 1
        res.hit("limit_checked")
        wit = {"sequence": "SetDT8TcLimit", "mirek": mirek, "selector": sel}
        try:
            from dali.gear.colour import StoreColourTemperatureTcLimitDTR2
            from models.tc209 import LIMIT_SELECTORS
            lname = [n for n, v in LIMIT_SELECTORS.items() if v == sel][0]
            selarg = StoreColourTemperatureTcLimitDTR2[lname] if mi % 8 < 4 else sel      # by the standard's name / by number
            bus.run_sequence(SetDT8TcLimit(dest, selarg, mirek) if mi % 3 else SetDT8TcLimit(tc_mired=mirek, what_limit=selarg, address=dest))
        except Exception as e:
            res.violation(f"C14/limit/raised/{type(e).__name__}", f"SetDT8TcLimit(.., {sel}, {mirek}) raised {type(e).__name__}: {e}", wit)
            continue
        names = decode_log(bus)
        want = [0, 0xFFFF, 0, 0xFFFF]
        want[sel] = mirek
        if target.tc.limits != want:
            res.violation("C14/limit/unit-value", f"limits are {target.tc.limits}, expected {want}", {**wit, "wire": [n for n, a in names]})
        msg = order_monitor(names, mirek, "STORE COLOUR TEMPERATURE Tc LIMIT", selector=sel)
        if msg:
            res.violation("C14/limit/order", msg, {**wit, "wire": [n for n, a in names]})
    # a unit with narrower limits clamps (model sanity + sequence still exact inside the limits)
    bus, target, other, dest = mk_bus("short", limits=(153, 370))
    bus.run_sequence(SetDT8ColourValueTc(dest, 250))
    if target.tc.actual_tc != 250:
        res.violation("C14/set/unit-value", "value inside the unit's limits not reached", {"mirek": 250})
    res.sample({"sequence": "SetDT8ColourValueTc", "mirek": mireks[len(mireks) // 2], "cases": len(mireks)})


def run_interleaved(desc, seed, res):
    """Two buses in one process: their sequences are separate generator instances advanced in turns.  Each unit must end
    exactly as if its sequence had run alone."""
    from dali.gear.sequences import SetDT8ColourValueTc, SetDT8TcLimit, QueryDT8ColourValue
    from dali.gear.colour import QueryColourValueDTR
    from models.bus import run_interleaved as step
    r = rng(seed, "C14", "interleaved")
    for t in range(desc["n"]):
        va, vb = r.getrandbits(16), r.getrandbits(16)
        if t % 3 == 0:
            vb = (va + 0x0100 * r.randint(1, 200)) % 65536        # differ in the high byte
        ka, kb = r.choice(["set", "set", "limit", "query"]), r.choice(["set", "limit", "set", "query"])
        busA, ta, oa, da = mk_bus("short", values={2: va})
        busB, tb, ob, db = mk_bus("short", values={2: vb})
        ta.tc.actual_tc, tb.tc.actual_tc = (va if ka == "query" else 0xFFFF), (vb if kb == "query" else 0xFFFF)

        def mk(kind, dest, v):
            if kind == "set":
                return SetDT8ColourValueTc(dest, v)
            if kind == "limit":
                return SetDT8TcLimit(dest, 0, v)
            return QueryDT8ColourValue(dest, QueryColourValueDTR.ColourTemperatureTC)
        res.evaluations += 1
        res.distinct += 1
        res.hit("interleaved_pairs")
        wit = {"sequences": [ka, kb], "values": [va, vb]}
        outs = step([(busA, mk(ka, da, va)), (busB, mk(kb, db, vb))], r if t % 2 else None)
        for name, kind, unit, v, o in (("first", ka, ta, va, outs[0]), ("second", kb, tb, vb, outs[1])):
            if o[0] == "exc":
                res.violation(f"C14/interleaved/raised/{type(o[1]).__name__}", f"{kind} sequence on the {name} bus raised {type(o[1]).__name__}", wit)
            elif kind == "set" and unit.tc.actual_tc != v:
                res.violation("C14/interleaved/unit-value", f"two sequences advanced in turns on two buses: the {name} unit ends with Tc "
                              f"{unit.tc.actual_tc}, requested {v}", wit)
            elif kind == "limit" and unit.tc.limits[0] != v:
                res.violation("C14/interleaved/limit-value", f"two sequences advanced in turns: the {name} unit's limit is {unit.tc.limits[0]}, requested {v}", wit)
            elif kind == "query" and o[1] != (None if v // 256 == 255 else v):
                res.violation("C14/interleaved/query-value", f"two sequences advanced in turns: the {name} query returned {o[1]!r}, unit holds {v}", wit)
    from props import pairs

    def maker(kind):
        def mk1(rr):
            v = rr.getrandbits(16)
            bus, t, o, d = mk_bus("short", values={2: v})
            t.tc.actual_tc = v
            gen = (SetDT8ColourValueTc(d, v) if kind == "set" else SetDT8TcLimit(d, rr.randrange(4), v) if kind == "limit"
                   else QueryDT8ColourValue(d, rr.choice(list(QueryColourValueDTR))))
            return bus, gen, lambda: None
        return mk1
    pairs.abandon(res, "C14", rng(seed, "C14", "abandon"), {k: maker(k) for k in ("set", "limit", "query")}, desc["n"])


def run_query(desc, seed, res):
    from dali.gear.sequences import QueryDT8ColourValue
    from dali.gear.colour import QueryColourValueDTR
    r = rng(seed, "C14", "query", desc["part"])
    sels = [s for i, s in enumerate(QueryColourValueDTR) if i % desc["of"] == desc["part"]]
    res.extra["selectors_in_enumeration"] = len(list(QueryColourValueDTR))
    from models.tc209 import SELECTORS
    for sel in sels:
        std = SELECTORS.get(sel.name)
        res.evaluations += 1
        if std is None:
            res.violation("C14/selector/unknown-name", f"query selector {sel.name} is not in IEC 62386-209 Table 11", {"selector": sel.name})
            continue
        if int(sel) != std:
            res.violation("C14/selector/number", f"query selector {sel.name} has value {int(sel)}, IEC 62386-209 Table 11 assigns {std}",
                          {"selector": sel.name})
            continue
        vals = sorted({0, 1, 255, 256, 0x00FF, 0x0100, 0xFE00, 0xFEFF, 0xFF00, 0xFFFF, 0x1234, 0x8000} |
                      {r.getrandbits(16) for _ in range(desc["values"])})
        for vi, v in enumerate(vals):
            for kind in (("short",) if vi % 2 else ("int",)):
                bus, target, other, dest = mk_bus(kind, values={int(sel): v})
                if int(sel) == 2:
                    target.tc.actual_tc = v
                elif int(sel) == 194:
                    target.tc.temporary_tc = v
                elif int(sel) == 226:
                    target.tc.actual_tc = v      # QUERY ACTUAL LEVEL refreshes the report value
                elif int(sel) in (128, 129, 130, 131):
                    target.tc.limits[{128: 0, 130: 1, 129: 2, 131: 3}[int(sel)]] = v
                target.dtr0 = r.getrandbits(8)
                # whatever the lamp is doing: the arc power level (incl. MASK while preheating / failed) is not the colour value
                target.actual_level = (254, 0, 255, 1, 128, 255)[vi % 6]
                res.evaluations += 1
                res.distinct += 1
                res.hit("query_checked")
                wit = {"sequence": "QueryDT8ColourValue", "selector": int(sel), "stored": v}
                try:
                    got = bus.run_sequence(QueryDT8ColourValue(dest, sel) if vi % 3 else QueryDT8ColourValue(query=sel, address=dest))
                except Exception as e:
                    res.violation(f"C14/query/raised/{type(e).__name__}", f"QueryDT8ColourValue({sel.name}) raised {type(e).__name__}: {e}", wit)
                    continue
                want = None if v // 256 == 255 else v
                if got != want or (got is not None and not isinstance(got, int)):
                    res.violation("C14/query/value" if want is not None else "C14/query/mask-not-none",
                                  f"unit stores {v:#06x} for selector {int(sel)}, sequence returned {got!r}, expected {want!r}", wit)
                if other.tc.log:
                    res.violation("C14/query/bystander", "a unit that was not addressed executed colour commands", wit)
        # faults on each command of the sequence; stored values whose low byte is itself a selector the unit answers (a lost
        # answer must not turn the byte left in DTR0 into the question)
        for v, pos, fk in [(vv, pp, ff) for vv in (0x1234, 0x0180, 0x0182, 0x0102, 0x01C2, 0x0281, 0x00E2) for pp in range(4)
                           for ff in ("silence", "garble")]:
            if True:
                bus, target, other, dest = mk_bus("short", values={int(sel): v}, limits=(153, 370))
                if int(sel) in (2, 226):
                    target.tc.actual_tc = v
                elif int(sel) == 194:
                    target.tc.temporary_tc = v
                elif int(sel) in (128, 129, 130, 131):
                    target.tc.limits[{128: 0, 130: 1, 129: 2, 131: 3}[int(sel)]] = v
                res.evaluations += 1
                res.distinct += 1
                res.hit("query_faults_checked")
                wit = {"sequence": "QueryDT8ColourValue", "selector": int(sel), "fault": fk, "at_command": pos}
                try:
                    got = bus.run_sequence(QueryDT8ColourValue(dest, sel), fault_at=pos, fault_kind=fk)
                except Exception as e:
                    res.violation(f"C14/query-fault/raised/{type(e).__name__}", f"{fk} at command {pos}: {type(e).__name__}: {e}", wit)
                    continue
                want = None if pos in (2, 3) else v
                if got != want:
                    res.violation("C14/query-fault/value", f"{fk} on command {pos}: returned {got!r}, expected {want!r}", wit)
    res.sample({"sequence": "QueryDT8ColourValue", "selectors": [int(s) for s in sels[:5]], "n_selectors": len(sels)})


def run_reject(res):
    from dali import address
    from dali.gear.sequences import SetDT8ColourValueTc, SetDT8TcLimit, QueryDT8ColourValue
    from dali.gear.colour import QueryColourValueDTR
    from dali.command import Command
    dest = address.GearShort(1)

    def must_reject(what, gen_fn):
        res.evaluations += 1
        res.distinct += 1
        res.hit("rejections_checked")
        try:
            g = gen_fn()
            first = next(g)
        except StopIteration:
            res.violation("C14/reject/accepted", f"{what}: sequence finished without raising", {"what": what})
            return
        except Exception:
            return
        res.violation("C14/reject/accepted", f"{what}: a command ({type(first).__name__}) was yielded instead of an exception",
                      {"what": what})

    for bad in (-1, 65536, 65537, 1 << 20, -65536):
        must_reject(f"SetDT8ColourValueTc(mirek={bad})", lambda: SetDT8ColourValueTc(dest, bad))
        must_reject(f"SetDT8TcLimit(mirek={bad})", lambda: SetDT8TcLimit(dest, 0, bad))
    for bad in (None, "100", 1.5, b"\x01", [1]):
        must_reject(f"SetDT8ColourValueTc(mirek={bad!r})", lambda: SetDT8ColourValueTc(dest, bad))
        must_reject(f"SetDT8TcLimit(mirek={bad!r})", lambda: SetDT8TcLimit(dest, 0, bad))
    # after the same numbers were used legitimately: things that merely compare equal to them are still not integers
    import decimal
    import fractions
    from models.bus import Bus
    for n_ in (250, 0, 1, 65535, 300):
        bus_, target_, other_, dest_ = mk_bus("short")
        bus_.run_sequence(SetDT8ColourValueTc(dest_, n_))
        bus_.run_sequence(SetDT8TcLimit(dest_, 0, n_))
        for bad in (float(n_), decimal.Decimal(n_), fractions.Fraction(n_), complex(n_, 0)):
            must_reject(f"SetDT8ColourValueTc(mirek={bad!r}) after {n_} was set", lambda: SetDT8ColourValueTc(dest, bad))
            must_reject(f"SetDT8TcLimit(mirek={bad!r}) after {n_} was set", lambda: SetDT8TcLimit(dest, 0, bad))
    valid = {int(s) for s in QueryColourValueDTR}
    for bad in [x for x in (16, 63, 83, 127, 132, 191, 209, 241, 255, 256, -1, 1000) if x not in valid] + \
            [None, "XCoordinate", 2.0, b"\x02", QueryColourValueDTR]:
        must_reject(f"QueryDT8ColourValue(query={bad!r})", lambda: QueryDT8ColourValue(dest, bad))
    res.sample({"rejections": ["mirek -1", "mirek 65536", "query selector 16", "query selector 'XCoordinate'"]})


def run_shard(desc, tier, seed):
    res = Result()
    if "replay" in desc:
        for d in plan("quick", seed):
            r2 = run_shard(d, "quick", seed)
            for v in r2.violations:
                if v["key"] == desc["replay"]["key"]:
                    res.violation(v["key"], v["what"], v["witness"])
            res.evaluations += r2.evaluations
        return res
    k = desc["kind"]
    if k == "set":
        run_set(desc, seed, res)
    elif k == "query":
        run_query(desc, seed, res)
    elif k == "interleaved":
        run_interleaved(desc, seed, res)
    else:
        run_reject(res)
    return res
