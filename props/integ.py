"""End-to-end differential runs: the library's own sequences driven through a real asyncio driver and a simulated
gateway against the specification models of bus units, compared with the same sequences run directly on an identical
population (models.bus.Bus.run_sequence).

The gateway's answer to each frame on the wire is whatever the unit models answer (`Bus.transmit`), so every
DTR load, ENABLE DEVICE TYPE prefix, send-twice repeat and backward frame of the real library code passes through the
driver's pairing logic.  A mis-paired, dropped or duplicated answer, a prefix separated from its command, or two
transactions interleaving changes a result or the final state of a unit - the oracle is equality with the direct run.
Used by C16 (answers belong to their commands) and, with concurrent callers, C15 (transactions are atomic).
"""
import asyncio

from vlib.common import rng, short_tb
from props import simlib


def population(r, driver):
    """Units of one bus; deterministic in r. Returns (units, handles)."""
    from models.gear102 import Gear
    from models.device103 import Device, Instance
    from models.membank import Bank
    from models.tc209 import TcUnit
    shorts = r.sample(range(0, 48), 3)
    img = [r.getrandbits(8) for _ in range(255)]
    img[0] = 0x7F
    # a GTIN / firmware version etc. are whatever the image holds; the oracle is differential
    a = Gear(short=shorts[0], groups={g for g in range(16) if r.random() < 0.4}, device_types=r.choice([[6], [1, 6, 8], [8], []]),
             banks={0: Bank(0, img, 0x7F)}, tc=TcUnit({}, coolest=100, warmest=800), name="A")
    b = Gear(short=shorts[1], groups={g for g in range(16) if r.random() < 0.4}, device_types=r.choice([[6], [4, 6], []]), name="B")
    c = Gear(short=shorts[2], groups={g for g in range(16) if r.random() < 0.4}, device_types=[7], name="C")
    seeds = [r.getrandbits(32) for _ in range(3)]

    def mkdraw(s):
        import random
        rr = random.Random(s)
        return lambda unit: rr.getrandbits(24)
    new = [Gear(short=None, draw=mkdraw(seeds[k]), name=f"new{k}") for k in range(r.choice([0, 1, 2, 3]))]
    units = [a, b, c] + new
    devs = []
    if driver != "hasseb":
        dshorts = r.sample(range(0, 8), 2)
        for k, ds in enumerate(dshorts):
            insts = [Instance(itype=r.choice([1, 3, 4]), enabled=r.random() < 0.8, resolution=r.choice([8, 10, 12, 16]),
                              value=r.getrandbits(8), filt=r.getrandbits(8), filter_bits=8) for _ in range(r.randint(1, 3))]
            devs.append(Device(short=ds, instances=insts, name=f"dev{k}"))
    return units + devs, {"A": a, "B": b, "C": c, "new": new, "devs": devs}


def scenario(r, driver, h):
    """List of (name, factory of the sequence generator). Deterministic in r; h = handles of *some* population (only
    addresses are taken from it, never objects)."""
    from dali import address
    from dali import sequences as S
    import dali.memory.info as info
    out = []
    A, B, C = (address.GearShort(h[k].short) for k in ("A", "B", "C"))
    out.append(("QueryDeviceTypes(A)", lambda: S.QueryDeviceTypes(A)))
    out.append(("QueryGroups(B)", lambda: S.QueryGroups(B)))
    newgroups = {g for g in range(16) if r.random() < 0.5}
    out.append((f"SetGroups(B, {sorted(newgroups)})", lambda: S.SetGroups(B, set(newgroups))))
    out.append(("QueryGroups(B) again", lambda: S.QueryGroups(B)))
    out.append(("QueryDeviceTypes(C)", lambda: S.QueryDeviceTypes(C)))
    vals = [v for v in (getattr(info, n, None) for n in ("GTIN", "FirmwareVersion", "IdentificationNumber", "HardwareVersion",
                                                          "LastMemoryBank")) if v is not None]
    for v in r.sample(vals, min(2, len(vals))):
        out.append((f"{v.__name__}.read(A)", lambda v=v: v.read(A)))
    out.append(("BANK_0.read_all(A)", lambda: info.BANK_0.read_all(A)))
    if driver != "hasseb":
        import dali.gear.sequences as GS
        import dali.gear.colour as colour
        if 8 in h["A"].device_types:
            tc = r.randrange(100, 800)
            out.append((f"SetDT8ColourValueTc(A, {tc})", lambda: GS.SetDT8ColourValueTc(A, tc)))
            out.append(("QueryDT8ColourValue(A, temporary Tc)",
                        lambda: GS.QueryDT8ColourValue(A, colour.QueryColourValueDTR.ColourTemperatureTC)))
        import dali.device.sequences as DS
        from dali.device.helpers import DeviceInstanceTypeMapper
        from dali.device import pushbutton
        for d in h["devs"]:
            da = address.DeviceShort(d.short)
            out.append((f"query_input_value(dev {d.short}, 0)", lambda da=da: DS.query_input_value(da, address.InstanceNumber(0))))
            fv = r.getrandbits(8)
            out.append((f"SetEventFilters(dev {d.short}, 0, {fv:#x})",
                        lambda da=da, fv=fv: DS.SetEventFilters(da, address.InstanceNumber(0), pushbutton.InstanceEventFilter(fv & 0xFF))))
            out.append((f"SetEventSchemes(dev {d.short}, 0)",
                        lambda da=da: DS.SetEventSchemes(da, address.InstanceNumber(0), r.choice([0, 1, 2]))))
        out.append(("autodiscover(0..7)", "autodiscover"))
    if h["new"]:
        free = [x for x in range(48, 64)]
        out.append(("Commissioning(48..63)", lambda: S.Commissioning(available_addresses=list(free))))
    return out


def norm(x):
    import enum
    if isinstance(x, BaseException):
        return ("raised", type(x).__name__)
    if isinstance(x, dict):
        return {str(k): norm(v) for k, v in x.items()}
    if isinstance(x, (list, tuple)):
        return [norm(v) for v in x]
    if isinstance(x, (set, frozenset)):
        return sorted(norm(v) for v in x)
    if isinstance(x, enum.Enum):
        return f"{type(x).__name__}.{x.name}"
    if isinstance(x, (int, str, bytes, float, bool)) or x is None:
        return x if not isinstance(x, bytes) else x.hex()
    if hasattr(x, "raw_value"):
        rv = x.raw_value
        return (type(x).__name__, None if rv is None else ("error" if rv.error else rv.as_integer))
    return repr(x)


def state(h, with_dtr=True):
    out = {}
    for k in ("A", "B", "C"):
        u = h[k]
        # what the shared DTRs hold after concurrent transactions legitimately depends on which came last
        out[k] = (u.short, sorted(u.groups)) + ((u.dtr0, u.dtr1, u.dtr2) if with_dtr else ())
    out["new"] = sorted((u.short is None, u.short or 0) for u in h["new"])
    out["tc"] = (h["A"].tc.temporary_tc, h["A"].tc.actual_tc) if h["A"].tc else None
    out["devs"] = [(d.short, [(x.filter, x.scheme) for x in d.instances], d.quiescent) for d in h["devs"]]
    return out


def run_case(driver, seed, i, res, prefix, concurrent=False):
    """One differential run. prefix = property tag for violation keys ('C16' / 'C15')."""
    from models.bus import Bus
    from dali.device.helpers import DeviceInstanceTypeMapper
    r1 = rng(seed, prefix, "integ", driver, i)
    units1, h1 = population(r1, driver)
    r2 = rng(seed, prefix, "integ", driver, i)
    units2, h2 = population(r2, driver)
    sc1 = scenario(rng(seed, prefix, "integ-sc", driver, i), driver, h1)
    sc2 = scenario(rng(seed, prefix, "integ-sc", driver, i), driver, h2)
    names = [n for n, _ in sc1]
    # ---- direct reference run
    # the serial gateways' protocols do not pass a garbled backward frame on (C16 lists that as their behaviour): the
    # reference sees colliding answers as silence too
    serial = driver in ("luba", "sci")
    bus1 = Bus(units1, bound=20000, collision_as_silence=serial)
    direct = []
    maps1 = DeviceInstanceTypeMapper()
    for name, mk in sc1:
        try:
            gen = maps1.autodiscover((0, 7)) if mk == "autodiscover" else mk()
            direct.append(bus1.run_sequence(gen))
        except Exception as e:
            direct.append(e)
    ref_map = dict(maps1.mapping)
    # ---- the same through the driver
    bus2 = Bus(units2, bound=10 ** 6)
    picker = simlib.Picker(rng(seed, prefix, "integ-picks", driver, i))
    sim = simlib.Sim(driver, picker, answer=lambda w, v, idx, dt: bus2.transmit(w, v))
    got = [None] * len(sc2)
    maps2 = DeviceInstanceTypeMapper()

    async def one(k):
        name, mk = sc2[k]
        try:
            gen = maps2.autodiscover((0, 7)) if mk == "autodiscover" else mk()
            got[k] = await sim.driver.run_sequence(gen)
        except Exception as e:
            got[k] = e

    async def main(sim):
        await sim.connect()
        if not concurrent:
            for k in range(len(sc2)):
                await one(k)
        else:
            # one chain of sequences per unit, the chains started together: every sequence loads the DTRs it needs inside its
            # own transaction, so - transactions being atomic - the results do not depend on how the chains interleave.
            # Scans that touch every unit (instance discovery, commissioning) run afterwards.
            chains = {}
            tail = []
            for k, (n, _) in enumerate(sc2):
                if n.startswith(("autodiscover", "Commissioning")):
                    tail.append(k)
                    continue
                unit = "A" if "(A" in n else "B" if "(B" in n else "C" if "(C" in n else n[n.index("(dev"):].split(",")[0]
                chains.setdefault(unit, []).append(k)

            async def chain(ks):
                for k in ks:
                    await one(k)
            await asyncio.gather(*[chain(ks) for ks in chains.values()])
            for k in tail:
                await one(k)
        await asyncio.sleep(0.5)
        return True

    out, stalled = sim.run(main)
    res.evaluations += 1
    res.hit("integration_runs")
    res.hit("integration_sequences", len(sc2))
    wit = {"driver": driver, "seed": seed, "case": i, "concurrent": concurrent, "sequences": names,
           "wire_frames": len(sim.bus.wire), "picks": picker.log[:40]}
    try:
        if simlib.detached(out):
            res.inconclusive.append("harness detached: " + str(out))
            return
        if stalled or out is not True:
            res.violation(f"{prefix}/{driver}/integration/hang-or-crash",
                          f"sequences through the driver ended with {'a stall' if stalled else repr(out)}", wit)
            return
        if concurrent:
            # the reference for sequences run after the concurrent group must not depend on their order: the group is read-only
            pass
        for k, name in enumerate(names):
            a, b = norm(direct[k]), norm(got[k])
            if a != b:
                res.violation(f"{prefix}/{driver}/integration/result-differs/{name.split('(')[0]}",
                              f"{name}: run directly on the units the sequence gives {a!r}; through the {driver} driver and its "
                              f"gateway it gives {b!r}", {**wit, "sequence": name, "tb": short_tb(got[k]) if isinstance(got[k], BaseException) else None})
                return
        if "autodiscover(0..7)" in names and dict(maps2.mapping) != ref_map:
            res.violation(f"{prefix}/{driver}/integration/result-differs/autodiscover",
                          f"instance map found directly {ref_map}, through the driver {dict(maps2.mapping)}", wit)
            return
        if serial and any(u.short is None for u in h2["new"]) and len(h2["new"]) > 1:
            res.observe("serial-gateway-collision-read-as-silence",
                        f"Commissioning through the {driver} driver addressed {sum(1 for u in h2['new'] if u.short is not None)} of "
                        f"{len(h2['new'])} new units: their simultaneous YES to COMPARE collides and arrives as 'no answer'")
        s1, s2 = state(h1, not concurrent), state(h2, not concurrent)
        if s1 != s2:
            res.violation(f"{prefix}/{driver}/integration/final-state-differs",
                          f"units end in a different state: direct {s1}, through the driver {s2}", wit)
        if sim.loop.errors:
            res.violation(f"{prefix}/{driver}/integration/internal-error", f"exception in a callback/task: {sim.loop.errors[0]}", wit)
        if i == 0:
            res.sample({"driver": driver, "integration_sequences": names, "results": [norm(x) for x in got][:6]})
    finally:
        sim.close()
