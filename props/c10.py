"""C10 - memory writes store exactly the data or fail loudly; never silently.

Executed: MemoryValue.write_raw / write for every declared value against models/membank.Bank units.
Fault enumeration: one fault of each kind at each step of the command stream + non-conforming units.
"""
import importlib

from vlib.common import Result, rng, short_tb
from spec import membank_layout as L

PROP = "C10"
LEVEL = "fault_enumeration"
CONTRACTS = "icontract"
RULE = ("fault-free: (declared value, raw data, initial lock byte, gear/device/int addressing); faults: (value, fault "
        "kind in {silence, framing error, substituted answer}, command index) for every index of the fault-free command "
        "stream, plus unit variants {stays locked, DTR0 not advanced, wrong echo, shorter bank, read-only location}; "
        "distinct = distinct cases")
ASSUMPTIONS = ["models/membank.py: lockable locations are writeable only while the lock byte is 0x55; the lock byte "
               "itself is always writeable while writeEnableState is ENABLED",
               "a fault on a command that expects no answer need not raise; if the call returns normally the memory must "
               "hold exactly the requested bytes"]
EXHAUSTIVE = {"quick": False, "thorough": False}
REQUIRED_ANCHORS = {"all": ["writes_ok", "refused_readonly", "length_rejected", "faults_injected", "must_raise_cases",
                            "unit_variants", "relock_checked", "history_writes", "first_use_writes", "interleaved_pairs", "abandoned_sequences"]}
SHARD_TIMEOUT = {"quick": 600, "thorough": 3000}
BANKS = ["0", "0L", "1", "202", "203", "204", "205", "206", "207"]
DOCUMENTED = ("MemoryLocationNotWriteable", "MemoryWriteFailure", "ResponseError")


def plan(tier, seed):
    reps = 1 if tier == "quick" else 24
    return [{"bank": b, "rep": rep, "datas": 5 if tier == "quick" else 8} for b in BANKS for rep in range(reps)] + \
        [{"bank": "synthetic"}, {"bank": "interleaved", "n": 200 if tier == "quick" else 4000}] + \
        [{"bank": "first-use", "first": f} for f in ({"force_unlock": True}, {"allow_short_write": True},
                                                     {"ignore_feedback": True}, {})]


def _mods():
    for m in ("info", "oem", "energy", "diagnostics", "maintenance", "location"):
        importlib.import_module("dali.memory." + m)


def access_map(bankkey):
    from models.membank import RO, RW, RWL
    acc = {}
    for row in L.rows():
        if row.bank != bankkey:
            continue
        for k, loc in enumerate(range(row.first, row.last + 1)):
            a = row.access_at(k)
            acc[loc] = RWL if a == "nvm_rw_l" else (RW if a in ("nvm_rw", "ram_rw") else RO)
    return acc


def make_unit(r, bankkey, family, lock0, last=None, **variant):
    from models.membank import Bank
    from models.gear102 import Gear
    from models.device103 import Device
    from dali import address
    number = int(bankkey.rstrip("L"))
    spec_last, has_lock, latch = L.BANKS[bankkey]
    image = [r.getrandbits(8) for _ in range(255)]
    last = spec_last if last is None else last
    image[0] = last
    if number != 0:
        image[2] = lock0
    bank = Bank(number, image, last, access=access_map(bankkey), latchable=latch, **variant)
    other_bank = Bank(number, [0x33] * 255, 0xFE, access=access_map(bankkey))
    sa = r.randrange(64)
    if family == "device":
        unit, other = Device(short=sa, banks={number: bank}), Device(short=(sa + 3) % 64, banks={number: other_bank})
        addr = address.DeviceShort(sa)
    else:
        unit, other = Gear(short=sa, banks={number: bank}), Gear(short=(sa + 3) % 64, banks={number: other_bank})
        addr = address.GearShort(sa) if family == "gear" else sa
    unit.dtr0, unit.dtr1 = r.getrandbits(8), r.getrandbits(8)
    return unit, other, bank, other_bank, addr


def values_of(bankkey):
    bank_obj = L.resolve(L.BANK_OBJECTS[bankkey])
    out = [(row.lib, L.resolve(row.lib), row) for row in L.rows() if row.bank == bankkey]
    out.append(("LastAddress", bank_obj.LastAddress, L.Row("LastAddress", bankkey, 0, 0, "u", "rom", False, False, None, None, None)))
    if bank_obj.LockByte is not None:
        out.append(("LockByte", bank_obj.LockByte, L.Row("LockByte", bankkey, 2, 2, "u", "ram_rw", False, False, None, None, None)))
    return bank_obj, out


def image_ok(bank, before, row, raw, lockbyte_value=False):
    """The image differs from `before` exactly at the value's first len(raw) locations with exactly raw (lock byte aside)."""
    want = list(before)
    for k, b in enumerate(raw):
        want[row.first + k] = b
    now = list(bank.image)
    if not lockbyte_value:
        now[2] = want[2] = None
    return now == want


def attempt(bus, gen, **kw):
    try:
        return ("ok", bus.run_sequence(gen, **kw))
    except Exception as e:
        return ("exc", e)


def run_bank(desc, tier, seed, res):
    from dali.exceptions import MemoryValueNotWriteable
    from models.bus import Bus
    _mods()
    bankkey = desc["bank"]
    bank_obj, values = values_of(bankkey)
    has_lock = L.BANKS[bankkey][1]
    fams = ["gear", "device", "int"]
    for vi, (name, cls, row) in enumerate(values):
        w = row.width
        for d in range(desc["datas"]):
            r = rng(seed, "C10", bankkey, desc["rep"], name, d)
            family = fams[(vi + d + desc["rep"]) % 3]
            lock0 = [0xFF, 0x55, 0x00, 0xAA, 0x54][(d + desc["rep"]) % 5]
            raw = bytes(r.getrandbits(8) for _ in range(w)) if d else bytes([0xFF] * w)
            unit, other, bank, ob, addr = make_unit(r, bankkey, family, lock0)
            before = list(bank.image)
            bus = Bus([unit, other], bound=600)
            wit = {"value": name, "bank": bankkey, "raw": raw.hex(), "family": family, "lock_byte_before": lock0}
            res.evaluations += 1
            res.distinct += 1
            out = attempt(bus, cls.write_raw(addr, raw))
            if not row.writable:
                res.hit("refused_readonly")
                if not (out[0] == "exc" and isinstance(out[1], MemoryValueNotWriteable)):
                    res.violation("C10/readonly-value-not-refused", f"{name} has read-only locations but write_raw gave {out}", wit)
                if bus.log:
                    res.violation("C10/readonly-value-sent-commands", f"{name}: {len(bus.log)} frames were sent before refusing", wit)
                continue
            is_lockbyte = name == "LockByte"
            if out[0] == "exc":
                res.violation(f"C10/write/raised/{type(out[1]).__name__}", f"{name}: fault-free write raised {type(out[1]).__name__}: {out[1]}",
                              {**wit, "tb": short_tb(out[1])})
                continue
            res.hit("writes_ok")
            if not image_ok(bank, before, row, raw, is_lockbyte):
                diff = [(l, before[l], bank.image[l]) for l in range(255) if before[l] != bank.image[l] and l != 2]
                res.violation("C10/write/memory-differs", f"{name}: after a normal return memory changed at {diff[:6]} (loc, before, after); "
                              f"requested {raw.hex()} at {row.first:#x}", wit)
            if has_lock and not is_lockbyte:
                res.hit("relock_checked")
                if bank.image[2] == 0x55 and row.access == "nvm_rw_l":
                    res.violation("C10/write/left-unlocked", f"{name}: the bank is left unlocked (lock byte 0x55) after the write", wit)
                elif bank.image[2] == 0x55 and lock0 != 0x55:
                    res.violation("C10/write/left-unlocked", f"{name}: lock byte became 0x55", wit)
            if ob.writes:
                res.violation("C10/write/other-unit-written", f"{name}: a unit that was not addressed was written", wit)
            ncmd = bus.n_commands
            base_answers = list(bus.command_answers)
            # wrong lengths
            for bad in (raw + b"\x00", raw[:-1], b""):
                if len(bad) == w:
                    continue
                unit2, other2, bank2, ob2, addr2 = make_unit(rng(seed, "C10", "len"), bankkey, family, lock0)
                bus2 = Bus([unit2, other2], bound=600)
                res.hit("length_rejected")
                o = attempt(bus2, cls.write_raw(addr2, bad))
                if not (o[0] == "exc" and isinstance(o[1], ValueError)) or bus2.log:
                    res.violation("C10/wrong-length-accepted", f"{name}: raw of length {len(bad)} (needs {w}) gave {o[0]}, frames sent {len(bus2.log)}", wit)
            # ignore_feedback: no checks, no exception, still exact
            unit3, other3, bank3, ob3, addr3 = make_unit(rng(seed, "C10", "ign", d), bankkey, family, lock0)
            b3 = list(bank3.image)
            o = attempt(Bus([unit3, other3], bound=600), cls.write_raw(addr3, raw, ignore_feedback=True))
            if o[0] != "ok" or not image_ok(bank3, b3, row, raw, is_lockbyte):
                res.violation("C10/ignore-feedback/wrong", f"{name}: ignore_feedback write gave {o[0]} / wrong memory", wit)
            elif has_lock and not is_lockbyte and row.access == "nvm_rw_l" and bank3.image[2] == 0x55:
                res.violation("C10/write/left-unlocked/ignore-feedback", f"{name}: write with ignore_feedback=True left the bank unlocked", wit)
            # ------------------------------------------------ fault enumeration over the command stream
            if d == 0 or (tier == "thorough" and d < 4):
                for pos in range(ncmd):
                    for fk in ("silence", "garble", "subst"):
                        unit4, other4, bank4, ob4, addr4 = make_unit(rng(seed, "C10", bankkey, desc["rep"], name, d), bankkey, family, lock0)
                        b4 = list(bank4.image)
                        bus4 = Bus([unit4, other4], bound=600)
                        hit = {}

                        def on_cmd(i, c, hit=hit, pos=pos):
                            if i == pos:
                                hit["c"] = c
                        res.evaluations += 1
                        res.distinct += 1
                        res.hit("faults_injected")
                        kind = fk
                        if fk == "subst":
                            # the substituted answer differs from the fault-free answer to this very command (wrong echo / wrong DTR0)
                            true = base_answers[pos] if pos < len(base_answers) else None
                            if true is None or true[0] != "ok":
                                continue
                            kind = (true[1] ^ 0x5A) & 0xFF
                        o = attempt(bus4, cls.write_raw(addr4, raw), fault_at=pos, fault_kind=kind, on_command=on_cmd)
                        c = hit.get("c")
                        expects_answer = c is not None and c.response is not None
                        fw = {**wit, "fault": fk, "at_command": pos, "command": type(c).__name__}
                        if o[0] == "exc" and type(o[1]).__name__ not in DOCUMENTED:
                            res.violation(f"C10/fault/undocumented-exception/{type(o[1]).__name__}",
                                          f"{name}: {fk} at command {pos} ({fw['command']}) raised {type(o[1]).__name__}: {o[1]}", fw)
                            continue
                        if expects_answer:
                            res.hit("must_raise_cases")
                            if o[0] == "ok":
                                res.violation(f"C10/fault/not-reported/{fk}/{fw['command']}",
                                              f"{name}: the answer to {fw['command']} (command {pos}) was {fk} but write_raw returned normally", fw)
                        elif o[0] == "ok" and not image_ok(bank4, b4, row, raw, is_lockbyte):
                            res.violation("C10/fault/silent-failure", f"{name}: {fk} at {pos}: returned normally but memory is wrong", fw)
                # ------------------------------------------------ unit variants
                variants = [("dtr0-not-advanced", dict(advance_dtr0=False)), ("wrong-echo", dict(wrong_echo=True)),
                            ("shorter-bank", dict(last=max(row.last - 1, 0))), ("shorter-bank-first", dict(last=max(row.first - 1, 0)))]
                if row.access == "nvm_rw_l":
                    variants.append(("stays-locked", dict(unlock_value=0x5A)))
                # DTR0 stalls at exactly one write command (the unlock write, each data byte)
                n_writes = w + (1 if row.access == "nvm_rw_l" else 0)
                for k in range(n_writes):
                    variants.append((f"dtr0-stalls-once", dict(_stall={k})))
                for vname, kw in variants:
                    kw = dict(kw)
                    stall = kw.pop("_stall", None)
                    unit5, other5, bank5, ob5, addr5 = make_unit(rng(seed, "C10", bankkey, desc["rep"], name, d), bankkey, family, lock0, **kw)
                    if stall is not None:
                        bank5.stall_writes = stall
                    if vname.startswith("shorter") and is_lockbyte:
                        continue
                    b5 = list(bank5.image)
                    bus5 = Bus([unit5, other5], bound=600)
                    res.evaluations += 1
                    res.distinct += 1
                    res.hit("unit_variants")
                    o = attempt(bus5, cls.write_raw(addr5, raw))
                    vw = {**wit, "unit_variant": vname, "stall_at_write": sorted(stall) if stall else None}
                    if o[0] == "exc" and type(o[1]).__name__ not in DOCUMENTED:
                        res.violation(f"C10/variant/undocumented-exception/{type(o[1]).__name__}", f"{name} on a unit that {vname}: {type(o[1]).__name__}: {o[1]}", vw)
                    elif o[0] == "ok":
                        good = image_ok(bank5, b5, row, raw, is_lockbyte)
                        if vname == "dtr0-stalls-once" and good:
                            # the stall was overwritten by an explicit DTR0 load: invisible and harmless
                            res.add("harmless_stalls")
                            continue
                        res.violation(f"C10/variant/not-reported/{vname}", f"{name}: the unit {vname} but write_raw returned normally "
                                      f"(memory correct: {good})", vw)
                # a read-only / unimplemented location inside a writeable value
                from models.membank import RO
                for refused in sorted({row.first, row.last, (row.first + row.last) // 2, min(row.first + 1, row.last),
                                       max(row.last - 1, row.first)}):
                    unit6, other6, bank6, ob6, addr6 = make_unit(rng(seed, "C10", "ro", name), bankkey, family, lock0)
                    bank6.access[refused] = RO
                    o = attempt(Bus([unit6, other6], bound=600), cls.write_raw(addr6, raw))
                    res.hit("unit_variants")
                    if is_lockbyte:
                        pass
                    elif o[0] == "ok":
                        res.violation("C10/variant/not-reported/location-refused", f"{name}: the unit answered NO for location "
                                      f"{refused:#x} (value at {row.first:#x}..{row.last:#x}) but write_raw returned normally",
                                      {**wit, "refused_location": refused})
        # value-level write(): numbers, literals, strings
        if row.writable and name not in ("LockByte",):
            r = rng(seed, "C10", "valuewrite", name)
            cases = []
            if row.kind in ("u", "cct"):
                hi = 256 ** w - 1
                cases = [(v, v.to_bytes(w, "big")) for v in {0, 1, hi, r.randrange(hi + 1)}]
                if row.mask:
                    cases.append(("MASK", (hi).to_bytes(w, "big")))
                if row.tmask:
                    cases.append(("TMASK", (hi - 1).to_bytes(w, "big")))
            elif row.kind == "str":
                for t in ("", "A", "Lum" * 3, "x" * w, "y" * (w - 1)):
                    enc = t.encode("ascii")
                    cases.append((t, enc if len(enc) == w else enc + b"\x00"))
            for value, expect_raw in cases:
                unit7, other7, bank7, ob7, addr7 = make_unit(r, bankkey, fams[vi % 3], 0xFF)
                b7 = list(bank7.image)
                res.evaluations += 1
                res.distinct += 1
                o = attempt(Bus([unit7, other7], bound=600), cls.write(addr7, value))
                vw = {"value": name, "written": repr(value)}
                if o[0] != "ok":
                    res.violation(f"C10/value-write/raised/{type(o[1]).__name__}", f"{name}.write({value!r}) raised {type(o[1]).__name__}: {o[1]}", vw)
                elif not image_ok(bank7, b7, row, expect_raw):
                    res.violation("C10/value-write/memory-differs", f"{name}.write({value!r}): memory does not hold {expect_raw.hex()} at {row.first:#x} "
                                  "with every other location unchanged", vw)
                elif L.BANKS[bankkey][1] and bank7.image[2] == 0x55:
                    res.violation("C10/write/left-unlocked", f"{name}.write left the bank unlocked", vw)
    run_histories(desc, tier, seed, res, bankkey, values)
    res.sample({"bank": bankkey, "values": [v[0] for v in values][:5], "writable": sum(1 for v in values if v[2].writable)})


def run_histories(desc, tier, seed, res, bankkey, values):
    """One unit, a history of writes with every option combination (short writes with interior NULs, force_unlock,
    ignore_feedback) over all writable values of the bank: each normal return is compared with a byte-exact image -
    the lock byte included: a write that needs no unlocking must leave it exactly as it was."""
    from models.bus import Bus
    writable = [(n, c, row) for n, c, row in values if row.writable and n != "LockByte"]
    if not writable:
        return
    has_lock = L.BANKS[bankkey][1]
    fams = ["gear", "device", "int"]
    n_hist = 6 if tier == "quick" else 24
    for h in range(n_hist):
        r = rng(seed, "C10", "hist", bankkey, desc["rep"], h)
        family = fams[(h + desc["rep"]) % 3]
        lock0 = r.choice([0xFF, 0x55, 0x00, 0xAA, 0x54, 0x3C])
        unit, other, bank, ob, addr = make_unit(r, bankkey, family, lock0)
        trail = []
        for step in range(8 if tier == "quick" else 14):
            name, cls, row = r.choice(writable)
            w = row.width
            short = r.random() < 0.4
            force = r.random() < 0.3
            ign = r.random() < 0.15
            n = r.randint(1, w) if short else w
            raw = bytearray(r.getrandbits(8) for _ in range(n))
            if short and n > 1 and r.random() < 0.7:
                raw[r.randrange(n - 1)] = 0            # an interior NUL: the bytes after it are still part of the request
            raw = bytes(raw)
            if has_lock and r.random() < 0.25:
                bank.image[2] = r.choice([0xFF, 0x55, 0x00, 0xAA, 0x3C])   # someone else locked / unlocked the bank meanwhile
            kw = {}
            if short:
                kw["allow_short_write"] = True
            if force:
                kw["force_unlock"] = True
            if ign:
                kw["ignore_feedback"] = True
            trail.append((name, raw.hex(), sorted(kw)))
            if not checked_write(res, unit, other, bank, ob, addr, name, cls, row, raw, kw, has_lock,
                                 {"bank": bankkey, "family": family, "history": trail[-6:]}):
                break


def sticky_options(seed, res):
    """Options given to one value-level write() belong to that call: a later plain write still checks the unit's answers."""
    from models.membank import RO
    from models.bus import Bus
    _mods()
    for bankkey in BANKS:
        bank_obj, values = values_of(bankkey)
        for vi, (name, cls, row) in enumerate(values):
            if not row.writable or name == "LockByte" or row.kind not in ("str", "u", "cct"):
                continue
            v1, v2 = ("Ab", "Cd") if row.kind == "str" else (1, 2)
            for opts in ({"ignore_feedback": True}, {"force_unlock": True}, {"ignore_feedback": True, "force_unlock": True}):
                r = rng(seed, "C10", "sticky", bankkey, name)
                unit, other, bank, ob, addr = make_unit(r, bankkey, ["gear", "device", "int"][vi % 3], 0xFF)
                res.evaluations += 1
                res.hit("sticky_option_cases")
                o1 = attempt(Bus([unit, other], bound=800), cls.write(addr, v1, **opts))
                if o1[0] != "ok":
                    res.violation(f"C10/value-write/raised/{type(o1[1]).__name__}", f"{name}.write({v1!r}, {opts}) raised {type(o1[1]).__name__}", {"value": name})
                    continue
                # now a unit that refuses the value's first location
                unit2, other2, bank2, ob2, addr2 = make_unit(rng(seed, "C10", "sticky2", name), bankkey, ["gear", "device", "int"][vi % 3], 0xFF)
                bank2.access[row.first] = RO
                o2 = attempt(Bus([unit2, other2], bound=800), cls.write(addr2, v2))
                if o2[0] == "ok":
                    res.violation("C10/value-write/options-stick", f"after {name}.write(.., {opts}) a plain {name}.write({v2!r}) on a unit that answers NO "
                                  "returned normally: the earlier call's options are still in force", {"value": name, "options": sorted(opts)})


def checked_write(res, unit, other, bank, ob, addr, name, cls, row, raw, kw, has_lock, wit):
    """One fault-free write_raw against a live unit, judged byte-exactly (lock byte included). False = stop this history."""
    from models.bus import Bus
    before = list(bank.image)
    bus = Bus([unit, other], bound=800)
    res.evaluations += 1
    res.distinct += 1
    res.hit("history_writes")
    # the same write through write(): the interpreted value, the same options
    via = "write_raw"
    try:
        if (len(raw) + before[5] + res.evaluations) % 2 and not kw.get("allow_short_write"):
            v_ = cls.raw_to_value(bytes(raw))
            if cls.check_raw(bytes(raw)) is None and bytes(cls.value_to_raw(v_))[:len(raw)] == bytes(raw) and len(cls.value_to_raw(v_)) == len(raw):
                via = "write"
    except Exception:
        via = "write_raw"
    if via == "write":
        res.hit("history_writes_via_write")
        try:
            gen_ = cls.write(addr, v_, **kw)
        except Exception as e:
            res.violation(f"C10/history/raised/{type(e).__name__}", f"{name}: write({v_!r}, {kw}) raised {type(e).__name__}: {e}", wit)
            return False
        out = attempt(bus, gen_)
    else:
        out = attempt(bus, cls.write_raw(addr, raw, **kw))
    wit = {**wit, "lock_byte_before": before[2], "via": via}
    lockable = row.access == "nvm_rw_l"
    if out[0] == "exc":
        res.violation(f"C10/history/raised/{type(out[1]).__name__}",
                      f"{name}: fault-free write_raw({raw.hex()}, {kw}) raised {type(out[1]).__name__}: {out[1]}",
                      {**wit, "tb": short_tb(out[1])})
        return False
    want = list(before)
    for k, b in enumerate(raw):
        want[row.first + k] = b
    now = list(bank.image)
    touches_lock = has_lock and (lockable or kw.get("force_unlock", False))
    if touches_lock:
        if now[2] != 0xFF:
            res.violation("C10/history/left-unlocked", f"{name}: {via}(.., {kw}) left the lock byte at {now[2]:#04x} "
                          f"(it was {before[2]:#04x} before): a write that unlocks the bank locks it again (0xFF)", wit)
            return False
        now[2] = want[2] = None
    if now != want:
        diff = [(l, before[l], bank.image[l], want[l]) for l in range(255) if now[l] != want[l]]
        key = "lock-byte-changed" if (diff and diff[0][0] == 2 and len(diff) == 1) else "memory-differs"
        res.violation(f"C10/history/{key}", f"{name}: after write_raw({raw.hex()}, {kw}) returned normally memory differs at "
                      f"{diff[:6]} (loc, before, after, expected)", wit)
        return False
    if ob.writes:
        res.violation("C10/write/other-unit-written", f"{name}: a unit that was not addressed was written", wit)
        return False
    return True


def run_first_use(desc, tier, seed, res):
    """Fresh process: the very first write of every writable value uses the given options, then plain writes follow
    (anything the library remembers from an earlier call must not leak into a later one)."""
    _mods()
    first_kw = dict(desc["first"])
    for bankkey in BANKS:
        bank_obj, values = values_of(bankkey)
        has_lock = L.BANKS[bankkey][1]
        for vi, (name, cls, row) in enumerate(values):
            if not row.writable or name == "LockByte":
                continue
            r = rng(seed, "C10", "first", bankkey, name, sorted(first_kw))
            unit, other, bank, ob, addr = make_unit(r, bankkey, ["gear", "device", "int"][vi % 3], 0xAA)
            w = row.width
            trail = []
            seq = [first_kw, {}, {"allow_short_write": True}, {"force_unlock": True}, {}, {"ignore_feedback": True}, {}]
            for kw in seq:
                n = r.randint(1, w) if kw.get("allow_short_write") else w
                raw = bytes(r.getrandbits(8) for _ in range(n))
                if has_lock:
                    bank.image[2] = r.choice([0xAA, 0x00, 0x3C, 0x55, 0xFF])
                trail.append((name, raw.hex(), sorted(kw)))
                res.hit("first_use_writes")
                if not checked_write(res, unit, other, bank, ob, addr, name, cls, row, raw, dict(kw), has_lock,
                                     {"bank": bankkey, "history": list(trail), "first_call_options": first_kw}):
                    break


def run_synthetic(seed, res):
    """User-declared values (public API) mixing access classes: any read-only location => refused before anything is sent."""
    import itertools
    import dali.memory.location as loc
    from dali.exceptions import MemoryValueNotWriteable
    from dali import address
    from models.membank import Bank, RO, RW, RWL
    from models.gear102 import Gear
    from models.bus import Bus
    T = loc.MemoryType
    kinds = {"ROM": (T.ROM, RO), "RAM_RO": (T.RAM_RO, RO), "NVM_RO": (T.NVM_RO, RO), "RAM_RW": (T.RAM_RW, RW),
             "NVM_RW": (T.NVM_RW, RW), "NVM_RW_L": (T.NVM_RW_L, RWL)}
    bank_obj = loc.MemoryBank(100, 0x7F, has_lock=True)
    nxt = [3]
    n = 0
    for width in (1, 2, 3):
        for combo in itertools.product(kinds, repeat=width):
            first = nxt[0]
            nxt[0] += width
            if nxt[0] > 0x7F:
                bank_obj = loc.MemoryBank(100, 0x7F, has_lock=True)
                first, nxt[0] = 3, 3 + width
            locs = tuple(loc.MemoryLocation(address=first + k, type_=kinds[c][0]) for k, c in enumerate(combo))
            cls = type(f"Synthetic{n}", (loc.NumericValue,), {"bank": bank_obj, "locations": locs})
            n += 1
            acc = {first + k: kinds[c][1] for k, c in enumerate(combo)}
            image = [0x11] * 255
            image[0] = 0x7F
            image[2] = 0xFF
            bank = Bank(100, image, 0x7F, access=acc)
            unit = Gear(short=4, banks={100: bank})
            bus = Bus([unit], bound=200)
            raw = bytes(range(0x80, 0x80 + width))
            before = list(bank.image)
            res.evaluations += 1
            res.distinct += 1
            out = attempt(bus, cls.write_raw(address.GearShort(4), raw))
            wit = {"value": "synthetic", "access": list(combo)}
            if any(kinds[c][1] == RO for c in combo):
                res.hit("refused_readonly")
                if not (out[0] == "exc" and isinstance(out[1], MemoryValueNotWriteable)) or bus.log:
                    res.violation("C10/readonly-value-not-refused", f"value with access {combo}: write_raw gave {out[0]} "
                                  f"({type(out[1]).__name__ if out[0] == 'exc' else ''}), frames sent {len(bus.log)}", wit)
            else:
                res.hit("writes_ok")
                want = list(before)
                for k, b in enumerate(raw):
                    want[first + k] = b
                now = list(bank.image)
                now[2] = want[2] = None
                if out[0] != "ok" or now != want:
                    res.violation("C10/write/memory-differs", f"value with access {combo}: {out[0]}; memory not exactly the requested bytes", wit)
                elif bank.image[2] == 0x55:
                    res.violation("C10/write/left-unlocked", f"value with access {combo}: bank left unlocked", wit)
    # locations in storage order, not ascending / not contiguous (a little-endian word, a split value)
    for order in ((0x21, 0x20), (0x30, 0x34), (0x45, 0x44, 0x43), (0x50, 0x52, 0x51), (0x60, 0x61)):
        for lockable in (False, True):
            bk = loc.MemoryBank(101, 0x7F, has_lock=True)
            ty = T.NVM_RW_L if lockable else T.NVM_RW
            cls = type(f"Scattered{n}", (loc.NumericValue,), {"bank": bk, "locations": tuple(loc.MemoryLocation(a, type_=ty) for a in order)})
            n += 1
            image = [0x11] * 255
            image[0], image[2] = 0x7F, 0xFF
            bank = Bank(101, image, 0x7F, access={a: (RWL if lockable else RW) for a in order})
            unit = Gear(short=4, banks={101: bank})
            bus = Bus([unit], bound=200)
            raw = bytes(range(0xA0, 0xA0 + len(order)))
            before = list(bank.image)
            res.evaluations += 1
            res.distinct += 1
            res.hit("scattered_values_written")
            out = attempt(bus, cls.write_raw(address.GearShort(4), raw))
            want = list(before)
            for a, b in zip(order, raw):
                want[a] = b
            now = list(bank.image)
            now[2] = want[2] = None
            if out[0] != "ok" or now != want:
                diff = [(hex(l), now[l], want[l]) for l in range(255) if now[l] != want[l]]
                res.violation("C10/write/scattered-locations", f"value declared at {[hex(a) for a in order]}: write_raw({raw.hex()}) gave {out[0]}; "
                              f"memory differs at {diff[:4]} (location, stored, requested)", {"order": list(order), "lockable": lockable})
    # the documented parameter order of write_raw: (addr, raw, allow_short_write, force_unlock, ignore_feedback)
    import dali.memory.oem as oem
    _mods()
    for pos_args, expect in (((False, True), "force_unlock"), ((False, False, True), "ignore_feedback"), ((True,), "allow_short_write")):
        cls_, row_ = oem.LuminaireColor, None
        image = [0x22] * 255
        image[0], image[2] = 0x7F, 0xAA
        from props.c10 import access_map
        bank = Bank(1, image, 0x7F, access=access_map("1"))
        unit = Gear(short=4, banks={1: bank})
        w = len(cls_.locations)
        raw = bytes([0x41] * (w if expect != "allow_short_write" else 3))
        # a unit that refuses the value's second location: only a write that ignores feedback may return normally
        bank.access[cls_.locations[1].address] = RO
        bus = Bus([unit], bound=400)
        res.evaluations += 1
        res.hit("positional_options_checked")
        out = attempt(bus, cls_.write_raw(address.GearShort(4), raw, *pos_args))
        if expect == "ignore_feedback":
            if out[0] != "ok":
                res.violation("C10/write/positional-options", f"write_raw(addr, raw, False, False, True) = ignore_feedback raised {type(out[1]).__name__}", {"args": list(pos_args)})
        elif out[0] == "ok":
            res.violation("C10/write/positional-options", f"write_raw(addr, raw, {', '.join(map(str, pos_args))}) [{expect}] returned normally although the unit "
                          "refused a location: the positional options are not the documented ones", {"args": list(pos_args)})
    res.sample({"synthetic_values": n, "access_combinations": "all of width 1..3 over 6 access classes"})


def run_refusals(res):
    """Arguments that cannot be written are refused before anything is sent: wrong kind of address, a short write longer
    than the value, a string longer than its field."""
    from dali import address
    from models.bus import Bus
    import dali.memory.oem as oem
    _mods()
    cls = oem.LuminaireColor
    w = len(cls.locations)
    cases = []
    for bad in (address.GearGroup(1), address.GearBroadcast(), address.DeviceBroadcast(), "3", None, 1.5):
        cases.append((f"write_raw(addr={bad!r})", lambda bad=bad: cls.write_raw(bad, bytes(w)), TypeError))
    for bad in (w, 1, 0, None, 1.5, True):
        # a number is no byte string - in particular not "that many zero bytes"
        cases.append((f"write_raw(raw={bad!r})", lambda bad=bad: cls.write_raw(1, bad), (TypeError, ValueError)))
        cases.append((f"write_raw(raw={bad!r}, allow_short_write=True)", lambda bad=bad: cls.write_raw(1, bad, allow_short_write=True), (TypeError, ValueError)))
    cases.append(("short write longer than the value", lambda: cls.write_raw(1, bytes(w + 1), allow_short_write=True), ValueError))
    cases.append(("short write much longer", lambda: cls.write_raw(1, bytes(2 * w), allow_short_write=True), ValueError))
    cases.append(("string longer than the field", lambda: cls.write(1, "x" * (w + 1)), ValueError))
    cases.append(("non-ASCII string", lambda: cls.write(1, "caf\u00e9"), (ValueError, UnicodeError)))
    for what, mk, exc in cases:
        bus = Bus([], bound=50)
        res.evaluations += 1
        res.hit("refusals_checked")
        try:
            bus.run_sequence(mk())
            res.violation("C10/refusal/accepted", f"{what} was accepted ({bus.n_commands} commands sent)", {"case": what})
        except exc:
            if bus.n_commands:
                res.violation("C10/refusal/sent-commands", f"{what}: {bus.n_commands} commands were sent before refusing", {"case": what})
        except Exception as e:
            res.violation(f"C10/refusal/wrong-exception/{type(e).__name__}", f"{what} raised {type(e).__name__}: {e}", {"case": what})
    # numbers that the value cannot hold exactly: write() either refuses before anything is sent, or what the unit then holds
    # decodes to the number that was asked for - "reported as written" never covers a different number
    import decimal
    import fractions
    import random
    import dali.memory.location as loc
    r = random.Random(0xC10)
    odd = [1.5, 1500.7, -0.5, 0.999, 254.5, decimal.Decimal("2.5"), decimal.Decimal("65535.9"), fractions.Fraction(7, 2), 1e300,
           float("nan"), float("inf"), "12", b"\x01", [1], (1,), None, 1 + 0j, 3.0, decimal.Decimal(4), fractions.Fraction(6, 2)]
    for bk in BANKS:
        bank_obj, values = values_of(bk)
        for name, cls, row in values:
            if not row.writable or name == "LockByte" or not isinstance(cls, type):
                continue
            numeric = issubclass(cls, loc.NumericValue)
            # values of the wrong kind altogether: what read() hands back for unreadable contents (the flags), numbers for
            # text fields, text for numbers
            wrong_kind = [loc.FlagValue.Invalid, loc.FlagValue.MASK, loc.FlagValue.TMASK, None, b"ab", ["a"], 7 if not numeric else "7", 1.5]
            for v in (odd if numeric else []) + wrong_kind:
                unit, other, bank, ob, addr = make_unit(r, bk, r.choice(["gear", "device", "int"]), r.choice([0xFF, 0x55]))
                before = list(bank.image)
                bus = Bus([unit, other], bound=400)
                res.evaluations += 1
                res.hit("odd_numbers_checked")
                try:
                    out = attempt(bus, cls.write(addr, v))
                except Exception as e:
                    out = ("exc", e)
                back = None
                wit = {"value": name, "bank": bk, "number": repr(v)}
                if out[0] == "exc":
                    if bus.n_commands:
                        res.violation("C10/odd-number/refused-late", f"{name}.write({v!r}) raised {type(out[1]).__name__} after "
                                      f"{bus.n_commands} commands had been sent", wit)
                    continue
                stored = bytes(bank.image[row.first:row.last + 1])
                try:
                    back = cls.raw_to_value(stored)
                    same = (back == v) is True
                except Exception:
                    same = False
                if not same:
                    res.violation("C10/odd-number/stored-a-different-number", f"{name}.write({v!r}) returned normally; the unit now "
                                  f"holds {stored.hex()} which reads as {back!r}", wit)
                elif not image_ok(bank, before, row, stored):
                    res.violation("C10/odd-number/other-location-changed", f"{name}.write({v!r}) changed locations outside the value", wit)


def run_interleaved(desc, seed, res):
    from props import pairs
    from models.bus import Bus
    _mods()
    allv = []
    for bk in BANKS:
        bank_obj, values = values_of(bk)
        allv += [(bk, n, c, row) for (n, c, row) in values if row.writable and n != "LockByte"]

    def mk_write(rr):
        bk, name, cls, row = rr.choice(allv)
        unit, other, bank, ob, addr = make_unit(rr, bk, rr.choice(["gear", "device", "int"]), rr.choice([0xFF, 0x55, 0x00, 0xAA]))
        short = rr.random() < 0.3
        n = rr.randint(1, row.width) if short else row.width
        raw = bytes(rr.getrandbits(8) for _ in range(n))
        kw = {"allow_short_write": True} if short else {}
        if rr.random() < 0.2:
            kw["force_unlock"] = True
        return Bus([unit, other], bound=800), cls.write_raw(addr, raw, **kw), lambda: list(bank.image)
    pairs.differential(res, "C10", rng(seed, "C10", "interleaved"), {"write_raw": mk_write}, desc["n"])
    pairs.abandon(res, "C10", rng(seed, "C10", "abandon"), {"write_raw": mk_write}, desc["n"])


def run_shard(desc, tier, seed):
    res = Result()
    if "replay" in desc:
        for d in plan("quick", seed):
            r2 = run_shard(d, "quick", seed)
            for v in r2.violations:
                if v["key"] == desc["replay"]["key"]:
                    res.violation(v["key"], v["what"], v["witness"])
            res.evaluations += r2.evaluations
        return res
    if desc["bank"] == "synthetic":
        run_synthetic(seed, res)
    elif desc["bank"] == "first-use":
        run_first_use(desc, tier, seed, res)
        if not desc["first"]:
            sticky_options(seed, res)
    elif desc["bank"] == "interleaved":
        run_interleaved(desc, seed, res)
        run_refusals(res)
    else:
        run_bank(desc, tier, seed, res)
    return res
