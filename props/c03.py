"""C03 - emitted frames and command flags conform to the IEC 62386 tables.

Oracle: spec/iec62386_tables.py (hand-transcribed rows) + models/cmd_ref.py / models/events_ref.py
(independent bit-level encoders).  Both directions: constructor -> frame == reference frame, and
reference frame -> from_frame == the row's class with those arguments.  Flags per row.
"""
import importlib

from vlib.common import Result, rng, short_tb
from models import addr_ref as R
from models import cmd_ref, events_ref as E

PROP = "C03"
LEVEL = "exploration"
CONTRACTS = "light"
RULE = ("one case = one (spec row, argument tuple) checked in both directions, or one (row, flag); arguments are "
        "enumerated per row kind; distinct = distinct (row, arguments) pairs; non-trivial: the expected integer "
        "comes from the independent encoder, not from the library")
ASSUMPTIONS = ["spec/iec62386_tables.py is a faithful transcription of the standard's command tables (no copy of "
               "IEC 62386 is available offline; rows listed in PINNED were pinned to the reviewed library value)",
               "class names are the standard's command names in CamelCase as the library documents"]
EXHAUSTIVE = {"quick": False, "thorough": True}
REQUIRED_ANCHORS = {"all": ["encode_checked", "decode_checked", "flags_checked", "event_encode_checked",
                            "classes_claimed", "stable_checked", "import_surface_checked"]}
SHARD_TIMEOUT = {"quick": 600, "thorough": 3000}


def plan(tier, seed):
    n = 16 if tier == "quick" else 32
    sh = [{"kind": "rows", "part": p, "of": n} for p in range(n)]
    sh += [{"kind": "events", "part": p, "of": 8} for p in range(8)]
    sh.append({"kind": "flags"})
    sh.append({"kind": "import-surface"})
    return sh


def _import_all():
    for m in ("gear.general", "gear.led", "gear.emergency", "gear.incandescent", "gear.converter", "gear.colour",
              "device.general", "device.pushbutton", "device.occupancy", "device.light"):
        importlib.import_module("dali." + m)


def mk_addr(address, d):
    kind, num = d
    cls = getattr(address, kind)
    return cls() if num is None else cls(num)


GEAR = [("GearShort", i) for i in range(64)] + [("GearGroup", i) for i in range(16)] + \
       [("GearBroadcastUnaddressed", None), ("GearBroadcast", None)]
DEV = [("DeviceShort", i) for i in range(64)] + [("DeviceGroup", i) for i in range(32)] + \
      [("DeviceBroadcastUnaddressed", None), ("DeviceBroadcast", None)]
INST = [(k, i) for k in ("InstanceNumber", "InstanceGroup", "InstanceType", "FeatureInstanceNumber",
                         "FeatureInstanceGroup", "FeatureInstanceType") for i in range(32)] + \
       [("FeatureDevice", None), ("FeatureInstanceBroadcast", None), ("InstanceBroadcast", None)]


def arg_sets(row, quick, r):
    """Yield (ref_args, constructor(cls, address) -> object, check(obj) -> mismatch text or None)."""
    k = row.kind
    if k in ("std", "stdn", "dapc"):
        for d in GEAR:
            params = [None]
            if k == "stdn":
                params = range(16)
            elif k == "dapc":
                params = range(256)
            for p in params:
                if k == "std":
                    yield {"addr": d}, (lambda cls, A, d=d: cls(mk_addr(A, d)))
                    if d[0] == "GearShort":
                        yield {"addr": d}, (lambda cls, A, d=d: cls(d[1]))
                    # the short names the module keeps for control gear (Short, Group, Broadcast, BroadcastUnaddressed)
                    alias = {"GearShort": "Short", "GearGroup": "Group", "GearBroadcast": "Broadcast",
                             "GearBroadcastUnaddressed": "BroadcastUnaddressed"}[d[0]]
                    if d[1] in (None, 0, 15, 63):
                        yield {"addr": d}, (lambda cls, A, d=d, alias=alias: cls(getattr(A, alias)() if d[1] is None else getattr(A, alias)(d[1])))
                elif k == "stdn":
                    yield {"addr": d, "param": p}, (lambda cls, A, d=d, p=p: cls(mk_addr(A, d), p))
                else:
                    yield {"addr": d, "power": p}, (lambda cls, A, d=d, p=p: cls(mk_addr(A, d), p))
            if k == "dapc":
                # the documented named levels: "OFF" is level 0, "MASK" is 255 (stop fading)
                yield {"addr": d, "power": 0}, (lambda cls, A, d=d: cls(mk_addr(A, d), "OFF"))
                yield {"addr": d, "power": 255}, (lambda cls, A, d=d: cls(mk_addr(A, d), "MASK"))
                yield {"addr": d, "power": 255}, (lambda cls, A, d=d: cls(mk_addr(A, d), "mask".upper()))
                yield {"addr": d, "power": 0}, (lambda cls, A, d=d: cls(mk_addr(A, d), "".join(["O", "FF"])))
    elif k in ("spc0", "dsp0"):
        yield {}, (lambda cls, A: cls())
    elif k in ("spc1", "dsp1"):
        for p in range(256):
            yield {"param": p}, (lambda cls, A, p=p: cls(p))
    elif k == "spca":
        for a in list(range(64)) + ["MASK", "mask".upper()]:
            yield {"address": a}, (lambda cls, A, a=a: cls(a))
    elif k == "init":
        yield {"broadcast": True, "address": None}, (lambda cls, A: cls(broadcast=True))
        yield {"broadcast": False, "address": None}, (lambda cls, A: cls())
        for a in range(64):
            yield {"broadcast": False, "address": a}, (lambda cls, A, a=a: cls(address=a))
    elif k == "dev":
        for d in DEV:
            yield {"addr": d}, (lambda cls, A, d=d: cls(mk_addr(A, d)))
    elif k == "inst":
        devs = DEV if not quick else DEV[::3] + DEV[-2:]
        for d in devs:
            for i in INST:
                yield {"addr": d, "inst": i}, (lambda cls, A, d=d, i=i: cls(mk_addr(A, d), mk_addr(A, i)))
    elif k == "dsp2":
        for a in range(256):
            bs = range(256) if not quick else sorted({0, 1, 0x80, 0xFF, a} | {r.getrandbits(8) for _ in range(24)})
            for b in bs:
                yield {"param_1": a, "param_2": b}, (lambda cls, A, a=a, b=b: cls(a, b))


def args_of(obj):
    """Public argument fields of a decoded command, in the representation of the reference."""
    out = {}
    if hasattr(obj, "destination"):
        out["addr"] = R.describe(obj.destination)
    if hasattr(obj, "instance"):
        out["inst"] = R.describe(obj.instance)
    for nm in ("param", "power", "address", "broadcast", "param_1", "param_2"):
        if hasattr(obj, nm):
            out[nm] = getattr(obj, nm)
    return out


def run_rows(desc, tier, seed, res):
    from dali import address, command, frame
    from spec import iec62386_tables as T
    _import_all()
    quick = tier == "quick"
    r = rng(seed, "C03", "rows", desc["part"])
    rows = [row for i, row in enumerate(T.all_rows()) if i % desc["of"] == desc["part"]]
    for row in rows:
        try:
            cls = T.resolve(row)
        except Exception:
            res.violation("C03/row-unresolved", f"the standard's command {row.name} (part {row.part}) has no class {row.lib}",
                          {"row": row.lib})
            continue
        n_args = 0
        alive = []           # every command built for this row stays alive; its frame must not change afterwards
        for ref_args, ctor in arg_sets(row, quick, r):
            n_args += 1
            res.evaluations += 1
            want = cmd_ref.encode(row, **ref_args)
            # constructor -> frame
            try:
                obj = ctor(cls, address)
                got = obj.frame.as_integer
                glen = len(obj.frame)
            except Exception as e:
                res.violation(f"C03/construct-raised/{row.lib}", f"{row.name}{ref_args} raised {type(e).__name__}: {e}",
                              {"row": row.lib, "args": repr(ref_args)})
                continue
            res.hit("encode_checked")
            alive.append((obj, want, ref_args))
            # the object itself - not only its class - carries the row's flags, and so does every copy the standard library
            # makes of it (copy, deepcopy, a pickle round trip): an application that queues or logs commands sends the copies
            def flags_of(o):
                return (type(o), len(o.frame), o.frame.as_integer, bool(o.sendtwice), o.devicetype, o.response is None, bool(o.is_query))
            want_flags = (cls, row.width, want, row.twice, row.dt, row.answer == "none", row.answer != "none")
            subjects = [("constructed", obj)]
            if n_args <= 3:
                import copy
                import pickle
                for how, fn in (("copy", copy.copy), ("deepcopy", copy.deepcopy), ("pickle", lambda o: pickle.loads(pickle.dumps(o)))):
                    try:
                        subjects.append((how, fn(obj)))
                        res.hit("clones_checked")
                    except Exception as e:
                        res.observe(f"command-{how}-raises-{type(e).__name__}", row.lib)
            for how, o in subjects:
                try:
                    gf = flags_of(o)
                except Exception as e:
                    res.violation(f"C03/instance-flags-raised/{row.lib}", f"{row.name} {ref_args} ({how}): reading the flags raised "
                                  f"{type(e).__name__}: {e}", {"row": row.lib, "how": how})
                    continue
                if gf != want_flags:
                    names = ("class", "width", "frame", "sendtwice", "devicetype", "no answer", "is_query")
                    diff = {n_: (g_ if n_ != "class" else g_.__name__, w_ if n_ != "class" else w_.__name__)
                            for n_, g_, w_ in zip(names, gf, want_flags) if g_ != w_}
                    res.violation(f"C03/instance-flags/{how}/{row.lib}", f"{row.name} {ref_args}: the {how} object has (got, table) "
                                  f"{diff}", {"row": row.lib, "how": how, "args": repr(ref_args)})
                    break
            wb = want.to_bytes(row.width // 8, "big")
            try:
                pk, seq = obj.frame.pack, obj.frame.as_byte_sequence
            except Exception as e:
                pk, seq = repr(e), None
            if pk != wb or seq != list(wb):
                res.violation(f"C03/frame-bytes/{row.lib}",
                              f"{row.name} {ref_args}: the bytes handed to a gateway are {pk!r} / {seq}, the standard's frame is {wb.hex()} "
                              f"({row.width // 8} bytes, most significant first)", {"row": row.lib, "args": repr(ref_args)})
            if got != want or glen != row.width:
                res.violation(f"C03/frame-bits/{row.lib}",
                              f"{row.name} {ref_args}: library emits {got:#0{row.width // 4 + 2}x} ({glen} bits), "
                              f"the standard's table gives {want:#0{row.width // 4 + 2}x}",
                              {"row": row.lib, "args": repr(ref_args), "got": got, "want": want})
            # table frame -> command
            try:
                back = command.from_frame(frame.ForwardFrame(row.width, want), devicetype=row.dt)
            except Exception as e:
                res.violation(f"C03/decode-raised/{row.lib}", f"decoding the standard's frame {want:#x} raised {type(e).__name__}",
                              {"row": row.lib, "frame": want, "tb": short_tb(e)})
                continue
            res.hit("decode_checked")
            if type(back) is not cls:
                res.violation(f"C03/decodes-to-other-command/{row.lib}",
                              f"the standard's frame for {row.name} {ref_args} ({want:#x}, dt {row.dt}) decodes as "
                              f"{type(back).__module__}.{type(back).__name__}",
                              {"row": row.lib, "frame": want, "decoded": str(back)})
                continue
            # What a frame that is no application extended command decodes to under a foreign device type is recorded, not
            # judged: the pinned library already reads standard commands as 'unknown' there (its opcode table is keyed by
            # (device type, opcode)), and C03 only speaks of decoding a command under its own device type.
            if row.dt == 0 and not (row.width == 16 and row.kind in ("std", "stdn") and row.opcode >= 224) and n_args <= 2:
                try:
                    b2 = command.from_frame(frame.ForwardFrame(row.width, want), devicetype=6)
                    if type(b2) is not cls:
                        res.observe(f"{row.kind}-command-under-foreign-device-type-decodes-as-{type(b2).__name__}", row.lib)
                except Exception as e:
                    res.observe(f"decode-under-foreign-device-type-raises-{type(e).__name__}", row.lib)
            # the tables give a no-parameter special command one frame: the same address byte(s) with other data is another,
            # unassigned frame - not this command (its re-encoding would differ from what was on the bus)
            if row.kind in ("spc0", "dsp0") and n_args <= 2:
                for xx in (0x01, 0x55, 0x80, 0xFF):
                    res.hit("unassigned_neighbours_checked")
                    try:
                        nb = command.from_frame(frame.ForwardFrame(row.width, want | xx), devicetype=row.dt)
                    except Exception as e:
                        res.violation(f"C03/decode-raised/{row.lib}", f"decoding {want | xx:#x} raised {type(e).__name__}", {"row": row.lib, "frame": want | xx})
                        break
                    if type(nb) is cls:
                        res.violation(f"C03/unassigned-frame-decodes-as/{row.lib}", f"{want | xx:#x} decodes as {row.name} ({nb}); the table assigns "
                                      f"that name to {want:#x} only", {"row": row.lib, "frame": want | xx})
                        break
            ba = args_of(back)
            exp = dict(ref_args)
            if row.kind == "init":
                pass
            if any(ba.get(k2) != v2 for k2, v2 in exp.items()):
                res.violation(f"C03/decoded-arguments/{row.lib}",
                              f"the standard's frame {want:#x} for {row.name} {exp} decodes with arguments {ba}",
                              {"row": row.lib, "frame": want})
        changed = 0
        for obj, want, ref_args in alive:
            res.hit("stable_checked")
            now = obj.frame.as_integer
            if now != want and changed < 3:
                changed += 1
                res.violation(f"C03/frame-changed-later/{row.lib}",
                              f"{row.name} {ref_args}: the command's frame reads {now:#x} after other {row.name} commands "
                              f"were built; the standard's table gives {want:#x}",
                              {"row": row.lib, "args": repr(ref_args), "got": now, "want": want})
        res.distinct += n_args
        res.add("rows_checked")
    if rows:
        res.sample({"row": rows[0].name, "part": rows[0].part, "kind": rows[0].kind, "opcode": rows[0].opcode,
                    "library_class": rows[0].lib})


def run_import_surface(res):
    """What an application gets from `import dali.gear` / `import dali.device` alone (nothing else imported): every command
    of the standard's tables is registered and its frame decodes to the row's class."""
    import subprocess
    import sys
    import json
    import os
    code = r'''
import sys, json
sys.path.insert(0, sys.argv[1]); sys.path.insert(0, sys.argv[2])
import dali.gear, dali.device          # the two packages, nothing more
from dali import command, frame
from spec import iec62386_tables as T
from models import cmd_ref
out = []
mods = sorted(m for m in sys.modules if m.startswith("dali."))
for row in T.all_rows():
    if row.kind in ("std", "stdn", "spc0", "spc1", "spca", "dev", "dsp0", "dsp1"):
        args = {"std": {"addr": ("GearShort", 1)}, "stdn": {"addr": ("GearShort", 1), "param": 3}, "spc0": {}, "spc1": {"param": 7},
                "spca": {"address": 5}, "dev": {"addr": ("DeviceShort", 1)}, "dsp0": {}, "dsp1": {"param": 9}}[row.kind]
        want = cmd_ref.encode(row, **args)
        back = command.from_frame(frame.ForwardFrame(row.width, want), devicetype=row.dt)
        name = type(back).__module__.replace("dali.", "") + "." + type(back).__name__
        if name != row.lib:
            out.append([row.lib, row.dt, name])
print(json.dumps({"bad": out, "modules": mods, "supported": sorted(command.Command._supported_devicetypes)}))
'''
    here = os.path.dirname(os.path.dirname(os.path.abspath(__file__)))
    repo = os.environ.get("VERIF_REPO", "/repo")
    p = subprocess.run([sys.executable, "-B", "-c", code, here, repo], capture_output=True, text=True, timeout=300)
    res.evaluations += 1
    res.hit("import_surface_checked")
    if p.returncode != 0:
        res.inconclusive.append("import-surface probe failed: " + p.stderr[-400:])
        return
    info = json.loads(p.stdout.strip().splitlines()[-1])
    for lib, dt, name in info["bad"][:5]:
        res.violation(f"C03/import-surface/{lib.split('.')[1] if '.' in lib else lib}",
                      f"after `import dali.gear, dali.device` alone the standard's frame for {lib} (device type {dt}) decodes as {name}: "
                      f"the module defining it is not loaded by the package ({len(info['bad'])} rows affected)",
                      {"row": lib, "modules_loaded": info["modules"]})
    res.extra["import_surface_modules"] = info["modules"]


def run_flags(res):
    from dali import command
    from spec import iec62386_tables as T
    _import_all()
    import dali.device.general as dg
    import dali.gear.general as gg
    claimed = {}
    for row in T.all_rows():
        try:
            cls = T.resolve(row)
        except Exception:
            continue
        claimed.setdefault(cls, []).append(row)
        res.evaluations += 1
        res.distinct += 1
        res.hit("flags_checked")
        pinned = {f for (lib, f) in T.PINNED if lib == row.lib}
        if bool(cls.sendtwice) != row.twice:
            res.violation(f"C03/flag/sendtwice/{row.lib}",
                          f"{row.name} (part {row.part}): library sendtwice={cls.sendtwice}, the standard's table says "
                          f"{'send twice' if row.twice else 'send once'}" + (" [pinned row]" if "twice" in pinned else ""),
                          {"row": row.lib})
        resp = cls.response
        if (resp is None) != (row.answer == "none"):
            res.violation(f"C03/flag/answer/{row.lib}",
                          f"{row.name}: library response={resp}, the standard's answer column says {row.answer}",
                          {"row": row.lib})
        elif resp is not None:
            if not (isinstance(resp, type) and issubclass(resp, command.Response)):
                res.violation(f"C03/flag/answer/{row.lib}", f"{row.name}: response attribute is not a Response class",
                              {"row": row.lib})
            elif issubclass(resp, command.YesNoResponse) != (row.answer == "yn"):
                res.violation(f"C03/flag/answer-kind/{row.lib}",
                              f"{row.name}: library response class {resp.__name__}, the standard says answer is "
                              f"{'yes/no' if row.answer == 'yn' else '8-bit'}", {"row": row.lib})
        if cls.devicetype != row.dt:
            res.violation(f"C03/flag/devicetype/{row.lib}",
                          f"{row.name}: library devicetype={cls.devicetype}, the standard's part is device type {row.dt}",
                          {"row": row.lib})
        if cls._framesize != row.width if hasattr(cls, "_framesize") else False:
            res.violation(f"C03/flag/width/{row.lib}", f"{row.name}: frame width {cls._framesize} != {row.width}", {"row": row.lib})
    # classes an application derives and completes afterwards: is_query follows the response attribute as it is now
    DerivedDTR = type("VendorRegister", (gg.DTR0,), {"__module__": "application"})
    res.evaluations += 1
    res.hit("late_response_checked")
    before = bool(DerivedDTR(1).is_query)
    DerivedDTR.response = command.NumericResponse
    after_cls = bool(DerivedDTR(1).is_query)
    obj = gg.DTR1(3)
    inst_before = bool(obj.is_query)
    if before is not False or after_cls is not True or inst_before is not False:
        res.violation("C03/flag/is_query/response-assigned-later", f"a class derived from DTR0: is_query {before} before and {after_cls} after its "
                      "response class was assigned (expected False, then True)", {"row": "application.VendorRegister"})
    # is_query consistent with the answer column, on an instance
    from dali import address
    r = rng(0, "C03", "flags")
    for cls, rws in claimed.items():
        row = rws[0]
        for ref_args, ctor in arg_sets(row, True, r):
            try:
                obj = ctor(cls, address)
                if bool(obj.is_query) != (row.answer != "none"):
                    res.violation(f"C03/flag/is_query/{row.lib}", f"{row.name}: is_query={obj.is_query}, answer {row.answer}",
                                  {"row": row.lib})
            except Exception:
                pass
            break
    # every class the library registers is claimed by exactly one row (events and generic classes aside)
    from dali.device import pushbutton, occupancy, light
    other = {getattr(pushbutton, n) for n in E.PUSHBUTTON_EVENTS.values()} | {
        occupancy.OccupancyEvent, light.LightEvent, dg.UnknownEvent, dg.AmbiguousInstanceType,
        gg.UnknownGearCommand, dg.UnknownDeviceCommand}
    for c in command.Command._commands:
        res.hit("classes_claimed")
        if c in other or c.__module__ == "application":
            continue
        n = len(claimed.get(c, []))
        if n == 0:
            res.violation("C03/unreviewed-command", f"library command class {c.__module__}.{c.__name__} corresponds to no row "
                          "of the standard's tables transcribed in spec/iec62386_tables.py", {"cls": c.__name__})
        elif n > 1:
            res.violation("C03/class-claimed-twice", f"{c.__name__} is named by {n} rows", {"cls": c.__name__})
    # structural rules of the standard, applied to the transcription itself (guards the table)
    for row in T.all_rows():
        if row.part == "102" and row.kind in ("std", "stdn"):
            if 32 <= row.opcode <= 129 and not (row.twice and row.answer == "none"):
                res.inconclusive.append(f"spec table inconsistent: 102 configuration command {row.name}")
            if 144 <= row.opcode <= 197 and (row.twice or row.answer == "none"):
                res.inconclusive.append(f"spec table inconsistent: 102 query {row.name}")
        if row.part == "103" and row.kind == "dev":
            if row.opcode <= 0x2F and not row.twice:
                res.inconclusive.append(f"spec table inconsistent: 103 device configuration command {row.name}")
            if 0x30 <= row.opcode <= 0x4F and row.answer == "none":
                res.inconclusive.append(f"spec table inconsistent: 103 query {row.name}")
    res.sample({"flags": "sendtwice / answer kind / devicetype / is_query for every row", "rows": len(T.all_rows()),
                "pinned_rows": sorted(f"{a}:{b}" for a, b in T.PINNED)})


def run_events(desc, tier, seed, res):
    from dali import address, command, frame
    from dali.device import general as dg, pushbutton, occupancy, light
    _import_all()
    quick = tier == "quick"
    r = rng(seed, "C03", "events", desc["part"])
    cases = []
    for data, name in E.PUSHBUTTON_EVENTS.items():
        cases.append((getattr(pushbutton, name), 1, data, None))
    for d in range(16):
        cases.append((occupancy.OccupancyEvent, 3, d, d))
    for d in (range(1024) if not quick else sorted({0, 1, 2, 255, 256, 511, 512, 1022, 1023} | {r.getrandbits(10) for _ in range(8)})):
        cases.append((light.LightEvent, 4, d, d))
    cases = [c for i, c in enumerate(cases) if i % desc["of"] == desc["part"]]
    schemes = []
    for a in range(64):
        schemes.append(("device", dict(short_address=a)))
        for i in (range(32) if not quick else (0, 1, 15, 16, 31)):
            schemes.append(("device_instance", dict(short_address=a, instance_number=i)))
    for g in range(32):
        schemes.append(("device_group", dict(device_group=g)))
        schemes.append(("instance", dict(instance_number=g)))
        schemes.append(("instance_group", dict(instance_group=g)))
    from dali.device.helpers import DeviceInstanceTypeMapper
    for cls, itype, data, dataarg in cases:
        for sname, kw in schemes:
            res.evaluations += 1
            res.distinct += 1
            want = E.encode_event(sname, itype, data, **kw)
            kws = dict(kw)
            if dataarg is not None:
                kws["data"] = dataarg
            try:
                obj = cls(**kws)
                got = obj.frame.as_integer
            except Exception as e:
                res.violation(f"C03/event-construct-raised/{cls.__name__}", f"{cls.__name__}({kws}) raised {type(e).__name__}: {e}",
                              {"cls": cls.__name__, "kw": repr(kws)})
                continue
            res.hit("event_encode_checked")
            if got != want or len(obj.frame) != 24:
                res.violation(f"C03/event-bits/{cls.__name__}/{sname}",
                              f"{cls.__name__}({kws}) emits {got:#08x}, IEC 62386-103 Table 3 gives {want:#08x}",
                              {"cls": cls.__name__, "kw": repr(kws), "got": got, "want": want})
            dmap = None
            if sname == "device_instance":
                dmap = DeviceInstanceTypeMapper()
                dmap.add_type(short_address=kw["short_address"], instance_number=kw["instance_number"], instance_type=itype)
            try:
                back = command.from_frame(frame.ForwardFrame(24, want), dev_inst_map=dmap)
            except Exception as e:
                res.violation(f"C03/event-decode-raised/{cls.__name__}", f"decoding {want:#x} raised {type(e).__name__}",
                              {"frame": want})
                continue
            if type(back) is not cls:
                res.violation(f"C03/event-decodes-to-other/{cls.__name__}/{sname}",
                              f"the standard's frame {want:#08x} decodes as {type(back).__name__}, not {cls.__name__}",
                              {"frame": want, "decoded": str(back)})
    if cases:
        res.sample({"event_class": cases[0][0].__name__, "instance_type": cases[0][1], "event_info": cases[0][2],
                    "schemes": len(schemes)})


def run_shard(desc, tier, seed):
    res = Result()
    if "replay" in desc:
        for d in plan("quick", seed):
            r2 = run_shard(d, "quick", seed)
            for v in r2.violations:
                if v["key"] == desc["replay"]["key"]:
                    res.violation(v["key"], v["what"], v["witness"])
            res.evaluations += r2.evaluations
        return res
    k = desc["kind"]
    if k == "rows":
        run_rows(desc, tier, seed, res)
    elif k == "events":
        run_events(desc, tier, seed, res)
    elif k == "flags":
        run_flags(res)
    elif k == "import-surface":
        run_import_surface(res)
    return res
