"""C16 - drivers pair each command with its own answer, typed by the command.

Async drivers (HID Tridonic, HID hasseb, LUBA, SCI) run in the virtual-time simulation with 1-3
concurrent callers; the sync drivers (daliserver client, ATX LED hat) run on stub back-ends.
Oracle: send() returns None iff the command expects no answer, otherwise exactly the command's
response class wrapping what the bus model produced for *that* frame.
"""
import asyncio

from vlib.common import Result, rng, short_tb, digest
from props import simlib

PROP = "C16"
LEVEL = "exploration"
CONTRACTS = "icontract"
DEVMODE = True
RULE = ("async: one case = (driver, callers x command lists, outcome per transmitted frame in {silent, value, framing "
        "error}, gateway delay picks); sync: (driver, command, outcome); distinct = distinct digests of (driver, wire "
        "log with answers, pick log)")
ASSUMPTIONS = ["gateway models in gateways/sim.py (reports in bus order, one outcome report per command)",
               "LUBA/SCI cannot express a framing error to the caller: the expected result is 'no answer'",
               "daliserver: status 0 none, 1 answer, 255 garbled; ATX hat: 'N' none, 'Jhh' answer"]
EXHAUSTIVE = {"quick": False, "thorough": False}
REQUIRED_ANCHORS = {"all": ["sends_checked", "silent_outcomes", "value_outcomes", "error_outcomes", "multi_caller_runs",
                            "daliserver_checked", "atx_checked", "dfs_runs", "integration_runs", "abandon_runs", "queries_abandoned", "twin_runs", "late_answer_runs", "drivers_tridonic", "drivers_hasseb", "drivers_luba", "drivers_sci"]}
SPURIOUS_DRIVERS = ("tridonic", "hasseb")
SHARD_TIMEOUT = {"quick": 600, "thorough": 3000}


def plan(tier, seed):
    n = 800 if tier == "quick" else 8000
    sh = []
    for d in simlib.DRIVERS:
        parts = 2 if tier == "quick" else 8
        for p in range(parts):
            sh.append({"kind": "async", "driver": d, "part": p, "n": n // parts})
    sh.append({"kind": "sync"})
    for d in ("luba", "sci"):
        sh.append({"kind": "late", "driver": d, "n": 60 if tier == "quick" else 1500})
    for d in simlib.DRIVERS:
        sh.append({"kind": "twin", "driver": d, "n": 60 if tier == "quick" else 1500})
    for d in ("tridonic", "hasseb"):
        sh.append({"kind": "abandon", "driver": d, "n": 150 if tier == "quick" else 3000})
    # the library's own sequences through each driver against the unit models, compared with a direct run (props/integ.py)
    for d in simlib.DRIVERS:
        for p in range(1 if tier == "quick" else 6):
            sh.append({"kind": "integration", "driver": d, "part": p, "n": 40 if tier == "quick" else 250})
    # bounded-exhaustive walk over the first decisions (caller offsets, gateway delays / coalescing) of fixed scenarios
    for d in simlib.DRIVERS:
        for sc in range(2 if tier == "quick" else 6):
            sh.append({"kind": "dfs", "driver": d, "scenario": sc, "depth": 5 if tier == "quick" else 8,
                       "budget": 150 if tier == "quick" else 6000})
    return sh


def dfs_shard(desc, seed, res):
    driver = desc["driver"]
    stack = [[]]
    runs = 0
    while stack and runs < desc["budget"]:
        prefix = stack.pop()
        forced = {"prefix": prefix, "scenario": desc["scenario"]}
        run_async_case(driver, seed, "dfs", runs, res, forced=forced)
        runs += 1
        res.hit("dfs_runs")
        log = forced.get("log") or []
        for d in range(len(prefix), min(len(log), desc["depth"])):
            for alt in range(1, log[d][1]):
                stack.append([x[2] for x in log[:d]] + [alt])
    res.extra[f"dfs_exhausted_{driver}_{desc['scenario']}"] = int(not stack)
    res.add("dfs_prefixes_left", len(stack))


def expected_raw(driver, ans):
    if ans is None:
        return ("none", None)
    if ans[0] == "ok":
        return ("value", ans[1])
    return ("error", None) if driver in ("tridonic", "hasseb") else ("none", None)


def run_async_case(driver, seed, part, i, res, forced=None):
    from dali import frame as F
    # forced (bounded-exhaustive walk): the scenario is fixed per (driver, scenario number); only the Picker's decisions vary
    r = rng(seed, "C16", driver, part, i) if forced is None else rng(seed, "C16", driver, "dfs-scenario", forced["scenario"])
    n_callers = r.choice([1, 1, 2, 3]) if forced is None else 2 + forced["scenario"] % 2
    kinds = simlib.KINDS[driver]
    plans = []
    for c in range(n_callers):
        cmds = [simlib.make_command(r, r.choice(kinds), c, k, driver) for k in range(r.randint(2, 6))]
        plans.append(cmds)
    outcome = {}

    def answer(width, value, idx, dt):
        from gateways.sim import is_query, is_send_twice
        if not is_query(width, value, dt):
            # a backward frame nobody asked for (a misbehaving unit, noise read as a frame) after a plain command: the HID
            # gateways report it like any other; the caller of a command that expects no answer must still get None.
            # (not after send-twice frames - that is the "interrupted" case of C20 - and not on the serial gateways, where
            # an unsolicited report falls under the recorded foreign-traffic finding)
            if driver in SPURIOUS_DRIVERS and not is_send_twice(width, value, dt) and not (width == 16 and value >> 8 == 0xC1):
                rs = rng(seed, "C16", "spurious", driver, part, i if forced is None else forced["scenario"], width, value)
                if rs.random() < 0.15:
                    res.hit("spurious_answers")
                    return ("ok", rs.getrandbits(8)) if rs.random() < 0.7 else ("collision", rs.getrandbits(8))
            return None
        key = (width, value)
        if key not in outcome:
            ra = rng(seed, "C16", "answer", driver, part, i if forced is None else forced["scenario"], width, value)
            c = ra.random()
            outcome[key] = None if c < 0.3 else (("ok", ra.choice([0, 255, ra.getrandbits(8)])) if c < 0.8 else ("collision", ra.getrandbits(8)))
        return outcome[key]

    picker = simlib.Picker(r) if forced is None else simlib.Picker(r, prefix=forced["prefix"], default="first")
    if forced is not None:
        forced["log"] = picker.log
    sim = simlib.Sim(driver, picker, answer=answer)
    results = {}
    windows = {}

    gaps = [[r.choice([0, 0, 0.06, 0.25]) for _ in cmds] for cmds in plans]
    burst = [driver in ("tridonic", "hasseb") and forced is None and len(cmds) >= 2 and all(c_.devicetype == 0 for c_ in cmds)
             and r.random() < 0.25 for cmds in plans]
    foreign = []
    if driver != "hasseb" and r.random() < (0.6 if forced is None else 0.0):
        # traffic of another master while the driver is idle or busy: query + answer pairs from addresses 48..63
        for j in range(r.randint(1, 4)):
            v = ((48 + j) * 2 + 1) * 256 + r.choice([0xA0, 0x90, 0x99])
            foreign.append((r.choice([0.01, 0.08, 0.15, 0.3, 0.45]), 16, v, r.choice([("ok", 200 + j), ("ok", 200 + j), None, ("collision", 1)])))

    async def one_in_burst(c, k, cmd):
        t_call = sim.world.now
        try:
            results[(c, k)] = ("ok", await sim.driver.send(cmd, in_transaction=True))
        except Exception as e:
            results[(c, k)] = ("exc", e)
        windows[(c, k)] = (t_call, sim.world.now)

    async def caller(c, cmds, start):
        await asyncio.sleep(start)
        if burst[c]:
            # a caller that owns the transaction and hands the driver its commands all at once: each still gets the answer to
            # its own command (the Tridonic gateway takes two commands at a time, the hasseb driver queues them)
            res.hit("bursts_inside_a_transaction")
            async with sim.driver.transaction_lock:
                await asyncio.gather(*[one_in_burst(c, k, cmd) for k, cmd in enumerate(cmds)])
            return
        for k, cmd in enumerate(cmds):
            if gaps[c][k]:
                await asyncio.sleep(gaps[c][k])
            t_call = sim.world.now
            try:
                results[(c, k)] = ("ok", await sim.driver.send(cmd))
            except Exception as e:
                results[(c, k)] = ("exc", e)
            windows[(c, k)] = (t_call, sim.world.now)

    # callers that give up while still *queued* behind somebody else's transaction (wait_for timing out, a cancelled
    # task): they never touch the gateway, and the callers in flight must not notice them
    quitters = [r.choice([0.004, 0.011, 0.025, 0.06, 0.1, 0.2]) for _ in range(r.choice([0, 0, 1, 2]))] if forced is None else [0.011]
    quit_log = []

    async def quitter(j, start):
        await asyncio.sleep(start)
        lock = getattr(sim.driver, "transaction_lock", None)
        if lock is None or not lock.locked():
            return
        t = asyncio.ensure_future(sim.driver.send(simlib.make_command(r, "query", 3, j, driver)))
        await asyncio.sleep(0)          # the task runs up to its wait for the lock; no virtual time passes
        t.cancel()
        try:
            await t
            quit_log.append("returned")
        except asyncio.CancelledError:
            quit_log.append("cancelled")
            res.hit("queued_callers_cancelled")
        except Exception as e:
            quit_log.append(repr(e))

    async def main(sim):
        await sim.connect()
        for (dly, w_, v_, a_) in foreign:
            sim.dev.foreign(dly, w_, v_, a_)
        for j, st in enumerate(quitters):
            asyncio.ensure_future(quitter(j, st))
        starts = [r.choice([0, 0.001, 0.02, 0.05]) if forced is None else picker.pick(f"start{c}", [0, 0.001, 0.02, 0.05])
                  for c in range(len(plans))]
        tasks = [asyncio.ensure_future(caller(c, cmds, starts[c])) for c, cmds in enumerate(plans)]
        await asyncio.gather(*tasks)
        await asyncio.sleep(1.0)      # let the gateway finish transmitting what it has accepted
        return True

    out, stalled = sim.run(main)
    wire = list(sim.bus.wire)
    res.evaluations += 1
    res.hit("drivers_" + driver)
    if n_callers > 1:
        res.hit("multi_caller_runs")
    res.digests.add(digest(driver, [(w["value"], w["answer"]) for w in wire], picker.log))
    wit = {"driver": driver, "seed": seed, "part": part, "case": i, "callers": [[str(c) for c in cmds] for cmds in plans],
           "wire": [(hex(w["value"]), w["answer"], w["origin"], round(w["t"], 4)) for w in wire][:40], "picks": picker.log[:60],
           "foreign": foreign}
    if forced is not None:
        wit["forced"] = {"prefix": list(forced["prefix"]), "scenario": forced["scenario"]}
    try:
        if simlib.detached(out):
            res.inconclusive.append('harness detached: ' + str(out))
            return
        if stalled or out is not True:
            res.violation(f"C16/{driver}/hang-or-crash", f"simulation ended with {'a stall (callers blocked for ever)' if stalled else repr(out)}", wit)
            return
        tainted = False
        displaced = set()      # own answers that did not reach their caller because traffic of another master took their place
        for (c, k), (st, val) in sorted(results.items(), key=lambda kv: windows[kv[0]][1]):
            cmd = plans[c][k]
            f = cmd.frame
            entries = [w for w in wire if (w["width"], w["value"]) == (len(f), f.as_integer) and w["origin"] == "own"]
            res.hit("sends_checked")
            cw = {**wit, "command": str(cmd), "caller": c}
            # traffic of another master reported while one of our transactions was in progress shifts the serial drivers'
            # pairing of confirmations/answers for this and all later commands (they have no correlation id, no resync)
            t0_, t1_ = windows[(c, k)]
            tw_ = write_time(sim, cmd, t0_)
            if driver in ("luba", "sci") and tw_ is not None and any(
                    w["origin"] == "foreign" and w["t"] <= t1_ + 0.001 and w.get("delivered", w["t"] + 0.012) >= tw_ - 0.001 for w in wire):
                tainted = True
            if st == "exc" and tainted:
                res.violation(f"C16/{driver}/foreign-traffic-during-own-transaction",
                              f"send({cmd}) raised {type(val).__name__} after another master's traffic was reported during an own transaction", cw)
                continue
            if st == "exc":
                res.violation(f"C16/{driver}/send-raised/{type(val).__name__}", f"send({cmd}) raised {type(val).__name__}: {val}",
                              {**cw, "tb": short_tb(val)})
                continue
            if not entries:
                res.violation(f"C16/{driver}/frame-not-sent", f"send({cmd}) returned but its frame never reached the bus", cw)
                continue
            ans = entries[-1]["answer"]
            if cmd.response is None:
                if val is not None:
                    res.violation(f"C16/{driver}/answer-for-non-query", f"send({cmd}) returned {val!r}; the command expects no answer", cw)
                continue
            if val is None:
                res.violation(f"C16/{driver}/none-for-query", f"send({cmd}) returned None although the command expects an answer", cw)
                continue
            if type(val) is not cmd.response:
                res.violation(f"C16/{driver}/response-type", f"send({cmd}) returned a {type(val).__name__}, the command's response type is "
                              f"{cmd.response.__name__} (bus outcome {ans})", cw)
                continue
            kind, v = expected_raw(driver, ans)
            res.hit({"none": "silent_outcomes", "value": "value_outcomes", "error": "error_outcomes"}[kind])
            if ans is not None and ans[0] == "collision" and kind == "none":
                res.hit("error_outcomes")
            raw = val.raw_value
            ok = (kind == "none" and raw is None) or \
                 (kind == "value" and isinstance(raw, F.BackwardFrame) and not raw.error and raw.as_integer == v) or \
                 (kind == "error" and isinstance(raw, F.BackwardFrame) and raw.error)
            if not ok:
                got = None if raw is None else ("error" if raw.error else raw.as_integer)
                # mechanism: was traffic of another master reported while this caller's transaction was in progress?
                t0, t1 = windows[(c, k)]
                tw = write_time(sim, cmd, t0)
                during = [w for w in wire if w["origin"] == "foreign" and tw is not None
                          and (w["t"] <= t1 + 0.001) and (w.get("delivered", w["t"] + 0.012) >= tw - 0.001)]
                cascade = got is not None and got in displaced
                if ans is not None and ans[0] == "ok" and driver in ("luba", "sci") and (during or cascade):
                    displaced.add(ans[1])
                if driver in ("luba", "sci") and (during or cascade or tainted):
                    res.violation(f"C16/{driver}/foreign-traffic-during-own-transaction",
                                  f"send({cmd}): the bus gave {ans}, the caller received {got!r}; another master's frame/answer was reported "
                                  f"between this command's write and its completion, or this caller received the own answer such traffic displaced "
                                  f"from the preceding command (the serial protocols carry no correlation id)", cw)
                else:
                    res.violation(f"C16/{driver}/wrong-answer/{kind}", f"send({cmd}): the bus gave {ans} for this frame, the caller received {got!r}", cw)
        if getattr(sim, 'hostile_calls', 0):
            res.hit('hostile_listener_runs')
        if sim.loop.errors:
            res.violation(f"C16/{driver}/internal-error", f"exception in a callback/task: {sim.loop.errors[0]}", wit)
        if i == 0:
            res.sample({k: wit[k] for k in ("driver", "callers", "wire")})
    finally:
        sim.close()


def run_abandon_case(driver, seed, i, res):
    """A caller gives up on a query (wait_for timing out) and its answer arrives when nobody is waiting; after a pause the
    next commands must each get their own answer (HID drivers; the serial drivers' behaviour after a cancellation is
    C17's subject and has a recorded finding)."""
    from dali import frame as F
    r = rng(seed, "C16", "abandon", driver, i)
    qa = simlib.make_command(r, "query", 3, i % 16, driver)
    later = [simlib.make_command(r, r.choice(["query", "query", "plain", "twice"]), 0, k, driver) for k in range(r.randint(1, 4))]
    vals = {}

    def answer(width, value, idx, dt):
        from gateways.sim import is_query
        if not is_query(width, value, dt):
            return None
        if (width, value) not in vals:
            c = r.random()
            vals[(width, value)] = None if c < 0.25 else (("ok", r.choice([0, 255, r.getrandbits(8)])) if c < 0.85 else ("collision", 9))
        return vals[(width, value)]
    vals[(16, qa.frame.as_integer)] = ("ok", 0x5A)         # the abandoned query does get an answer - late
    picker = simlib.Picker(r)
    sim = simlib.Sim(driver, picker, answer=answer)
    got = {}
    give_up = r.choice([0.001, 0.005, 0.012, 0.02, 0.028, 0.036])
    pause = r.choice([0.15, 0.3, 0.6])

    async def main(sim):
        await sim.connect()
        try:
            await asyncio.wait_for(sim.driver.send(qa), give_up)
            got["abandoned"] = "answered-in-time"
        except asyncio.TimeoutError:
            got["abandoned"] = "gave-up"
        except Exception as e:
            got["abandoned"] = repr(e)
        await asyncio.sleep(pause)
        for k, c in enumerate(later):
            try:
                got[k] = ("ok", await sim.driver.send(c))
            except Exception as e:
                got[k] = ("exc", e)
        await asyncio.sleep(0.5)
        return True
    out, stalled = sim.run(main)
    res.evaluations += 1
    res.hit("abandon_runs")
    wit = {"driver": driver, "seed": seed, "case": i, "abandon": True, "gave_up_after": give_up, "pause": pause,
           "commands": [str(qa)] + [str(c) for c in later], "picks": picker.log[:30]}
    try:
        if simlib.detached(out):
            res.inconclusive.append("harness detached: " + str(out))
            return
        if stalled or out is not True:
            res.violation(f"C16/{driver}/abandon/hang-or-crash", f"ended with {'a stall' if stalled else repr(out)}", wit)
            return
        if got.get("abandoned") == "gave-up":
            res.hit("queries_abandoned")
        for k, c in enumerate(later):
            st, val = got[k]
            if st == "exc":
                res.violation(f"C16/{driver}/abandon/send-raised/{type(val).__name__}",
                              f"after an abandoned query, send({c}) raised {type(val).__name__}: {val}", {**wit, "tb": short_tb(val)})
                return
            if c.response is None:
                if val is not None:
                    res.violation(f"C16/{driver}/abandon/answer-for-non-query", f"send({c}) returned {val!r}", wit)
                continue
            ans = vals.get((len(c.frame), c.frame.as_integer))
            kind, v = expected_raw(driver, ans)
            raw = getattr(val, "raw_value", "missing")
            ok = type(val) is c.response and ((kind == "none" and raw is None) or
                                              (kind == "value" and isinstance(raw, F.BackwardFrame) and not raw.error and raw.as_integer == v) or
                                              (kind == "error" and isinstance(raw, F.BackwardFrame) and raw.error))
            if not ok:
                res.violation(f"C16/{driver}/abandon/wrong-answer", f"a query was abandoned (its answer 0x5a arrived when nobody waited); "
                              f"{pause}s later send({c}): the bus gave {ans}, the caller received "
                              f"{None if raw is None else ('error' if raw.error else raw.as_integer)!r}", wit)
                return
    finally:
        sim.close()


def run_stale_status_case(seed, i, res):
    """SCI gateway on a busy bus: the status report of a query that stayed unanswered ('DALI NO') comes so late that the
    driver has given up on it (its send failed loudly) and has already written the next query.  That query is answered on
    the bus; its caller gets that answer.  (Timings are chosen such that a driver without correlation ids - which the
    protocol does not offer - can get this right: the answer arrives within the answer timeout counted from the stale
    report.)"""
    driver = "sci"
    r = rng(seed, "C16", "stale-status", i)
    q0, q1, q2 = (simlib.make_command(r, "query", 0, k, driver) for k in range(3))
    v1, v2 = 0x40 + r.randrange(64), 0x80 + r.randrange(64)
    vals = {(len(q1.frame), q1.frame.as_integer): ("ok", v1), (len(q2.frame), q2.frame.as_integer): ("ok", v2)}
    picker = simlib.Picker(r, overrides={"sci.answer_delay": 0, "sci.confirm_delay": 1, "sci.queue_delay": 0, "serial.chunking": 0})
    sim = simlib.Sim(driver, picker, answer=lambda w, v, idx, dt: vals.get((w, v)))
    delta = r.choice([0.003, 0.008, 0.015, 0.022])          # the stale report arrives this long after the next query was written
    got = {}

    async def main(sim):
        await sim.connect()
        d = sim.driver
        t_out = float(getattr(type(d), "timeout_tx_confirm", 0.1))
        # status of q0 is due 0.0167 (transmission) + 0.012 after the write; it is delayed so that it lands delta after the
        # write of q1, which follows the loud failure of q0 at once
        sim.dev.late_confirms[(len(q0.frame), q0.frame.as_integer)] = t_out + delta - 0.0167 - 0.012
        try:
            got["q0"] = ("ok", await d.send(q0))
        except Exception as e:
            got["q0"] = ("exc", e)
        t1 = sim.world.now
        try:
            got["q1"] = ("ok", await d.send(q1), t1)
        except Exception as e:
            got["q1"] = ("exc", e, t1)
        await asyncio.sleep(0.3)
        try:
            got["q2"] = ("ok", await d.send(q2))
        except Exception as e:
            got["q2"] = ("exc", e)
        await asyncio.sleep(0.3)
        return True
    out, stalled = sim.run(main)
    res.evaluations += 1
    res.hit("stale_status_runs")
    wit = {"driver": driver, "seed": seed, "case": i, "stale_status": True, "delta": delta, "commands": [str(q0), str(q1), str(q2)]}
    try:
        if simlib.detached(out):
            res.inconclusive.append("harness detached: " + str(out))
            return
        if stalled or out is not True:
            res.violation(f"C16/{driver}/stale-status/hang-or-crash", f"ended with {'a stall' if stalled else repr(out)}", wit)
            return
        if got.get("q0", ("?",))[0] == "ok":
            res.add("stale_status_premise_not_met")          # the driver waited longer than its documented confirmation timeout
            return
        for name, c, v in (("q1", q1, v1), ("q2", q2, v2)):
            g = got.get(name)
            if g is None or g[0] == "exc":
                res.violation(f"C16/{driver}/stale-status/raised", f"send({c}) after a query whose status report came late: "
                              f"{g and type(g[1]).__name__}", wit)
                return
            raw = getattr(g[1], "raw_value", "missing")
            if type(g[1]) is not c.response or raw is None or raw == "missing" or raw.error or raw.as_integer != v:
                res.violation(f"C16/{driver}/stale-status/wrong-answer", f"send({c}): the bus answered {v:#04x}, the caller received {raw!r} "
                              f"(the status report 'no answer' of the previous, abandoned query arrived {delta * 1000:.0f} ms after this "
                              "query was written)", wit)
                return
    finally:
        sim.close()


def run_late_case(driver, seed, i, res):
    """Serial gateways: the answer to one query is reported after the driver has stopped waiting for it.  That query may come
    back as 'no answer'; the commands that follow after a pause - in the same sequence or as separate sends - get their own."""
    from dali import frame as F
    from dali import sequences as S
    r = rng(seed, "C16", "late", driver, i)
    q = [simlib.make_command(r, "query", 0, k, driver) for k in range(4)]
    vals = {(len(c.frame), c.frame.as_integer): ("ok", 0x40 + k) if k != 2 else None for k, c in enumerate(q)}
    picker = simlib.Picker(r)
    sim = simlib.Sim(driver, picker, answer=lambda w, v, idx, dt: vals.get((w, v)))
    as_sequence = i % 2 == 0
    late_by = r.choice([0.05, 0.08, 0.12])
    pause = r.choice([0.25, 0.4])
    got = {}

    async def main(sim):
        await sim.connect()
        sim.dev.late_answers[(len(q[0].frame), q[0].frame.as_integer)] = late_by
        if as_sequence:
            def g():
                out = [(yield q[0])]
                yield S.sleep(pause)
                for c in q[1:]:
                    out.append((yield c))
                return out
            try:
                got["r"] = ("ok", await sim.driver.run_sequence(g()))
            except Exception as e:
                got["r"] = ("exc", e)
        else:
            out = []
            try:
                out.append(await sim.driver.send(q[0]))
                await asyncio.sleep(pause)
                for c in q[1:]:
                    out.append(await sim.driver.send(c))
                got["r"] = ("ok", out)
            except Exception as e:
                got["r"] = ("exc", e)
        await asyncio.sleep(0.5)
        return True
    out, stalled = sim.run(main)
    res.evaluations += 1
    res.hit("late_answer_runs")
    wit = {"driver": driver, "seed": seed, "case": i, "late": True, "in_sequence": as_sequence, "late_by": late_by, "pause": pause,
           "commands": [str(c) for c in q]}
    try:
        if simlib.detached(out):
            res.inconclusive.append("harness detached: " + str(out))
            return
        if stalled or out is not True or got.get("r", ("exc",))[0] != "ok":
            res.violation(f"C16/{driver}/late-answer/hang-or-raise", f"ended with {'a stall' if stalled else repr(got.get('r', out))}", wit)
            return
        for k, (c, val) in enumerate(zip(q, got["r"][1])):
            ans = vals[(len(c.frame), c.frame.as_integer)]
            raw = getattr(val, "raw_value", "missing")
            own = (ans is None and raw is None) or (ans is not None and raw is not None and raw != "missing" and not raw.error and raw.as_integer == ans[1])
            if k == 0 and raw is None:
                res.add("late_answer_given_up")
                continue            # it stopped waiting before the answer came: 'no answer' is what it saw
            if type(val) is not c.response or not own:
                res.violation(f"C16/{driver}/late-answer/wrong-answer",
                              f"the answer to {q[0]} came {late_by}s late; {pause}s afterwards "
                              f"{'in the same sequence' if as_sequence else 'a new send of'} {c}: the bus gave {ans}, the caller received "
                              f"{None if raw is None else raw.as_integer if hasattr(raw, 'as_integer') else raw!r}", wit)
                return
    finally:
        sim.close()


def run_twin_case(driver, seed, i, res):
    """Two gateways of the same kind, two driver instances, one process: the same commands go out on both buses at the
    same time and each driver hands its callers the answers of its own bus."""
    from dali import frame as F
    r = rng(seed, "C16", "twin", driver, i)
    cmds = [simlib.make_command(r, r.choice(simlib.KINDS[driver]), 0, k, driver) for k in range(r.randint(3, 8))]

    def mk_answer(salt):
        def answer(width, value, idx, dt):
            from gateways.sim import is_query
            if not is_query(width, value, dt):
                return None
            ra = rng(seed, "C16", "twin-answer", salt, width, value)
            c = ra.random()
            return None if c < 0.2 else ("ok", (ra.getrandbits(8) & 0x7F) | (0x80 if salt else 0))
        return answer
    picker = simlib.Picker(r)
    sim = simlib.Sim(driver, picker, answer=mk_answer(0), answer2=mk_answer(1))
    got = {0: {}, 1: {}}

    async def caller(which, drv):
        await asyncio.sleep(r.choice([0, 0.001, 0.01]))
        for k, c in enumerate(cmds):
            try:
                got[which][k] = ("ok", await drv.send(c))
            except Exception as e:
                got[which][k] = ("exc", e)

    seen = {0: [], 1: []}

    async def main(sim):
        await sim.connect()
        if hasattr(sim.driver, "bus_traffic"):
            # a subscriber of one instance hears that instance only
            sim.driver.bus_traffic.register(lambda d, c, rsp, e: seen[0].append(d))
            sim.driver2.bus_traffic.register(lambda d, c, rsp, e: seen[1].append(d))
        await asyncio.gather(caller(0, sim.driver), caller(1, sim.driver2))
        await asyncio.sleep(0.5)
        return True
    out, stalled = sim.run(main)
    res.evaluations += 1
    res.hit("twin_runs")
    for which, drv in ((0, sim.driver), (1, sim.driver2)):
        if any(d is not drv for d in seen[which]):
            res.violation(f"C16/{driver}/twin/foreign-report", f"a bus_traffic subscriber of instance {which} was called with reports of the "
                          f"other instance ({sum(1 for d in seen[which] if d is not drv)} of {len(seen[which])})",
                          {"driver": driver, "seed": seed, "case": i, "twin": True})
    wit = {"driver": driver, "seed": seed, "case": i, "twin": True, "commands": [str(c) for c in cmds], "picks": picker.log[:30]}
    try:
        if simlib.detached(out):
            res.inconclusive.append("harness detached: " + str(out))
            return
        if stalled or out is not True:
            res.violation(f"C16/{driver}/twin/hang-or-crash", f"two driver instances: ended with {'a stall' if stalled else repr(out)}", wit)
            return
        for which, bus in ((0, sim.bus), (1, sim.bus2)):
            for k, c in enumerate(cmds):
                st, val = got[which].get(k, ("exc", "missing"))
                if st == "exc":
                    res.violation(f"C16/{driver}/twin/send-raised/{type(val).__name__}", f"instance {which}: send({c}) raised {val!r}", wit)
                    return
                if c.response is None:
                    if val is not None:
                        res.violation(f"C16/{driver}/twin/answer-for-non-query", f"instance {which}: send({c}) returned {val!r}", wit)
                    continue
                ent = [w for w in bus.wire if (w["width"], w["value"]) == (len(c.frame), c.frame.as_integer)]
                ans = ent[-1]["answer"] if ent else "not-sent"
                raw = getattr(val, "raw_value", "missing")
                ok = type(val) is c.response and ((ans is None and raw is None) or
                                                  (isinstance(ans, tuple) and raw is not None and not raw.error and raw.as_integer == ans[1]))
                if not ok:
                    res.violation(f"C16/{driver}/twin/wrong-answer",
                                  f"two {driver} drivers in one process: instance {which} sent {c}, its bus gave {ans}, the caller received "
                                  f"{None if raw is None else raw.as_integer if hasattr(raw, 'as_integer') else raw!r}", {**wit, "instance": which})
                    return
    finally:
        sim.close()


def write_time(sim, cmd, t0):
    """Virtual time at which the driver handed this command's frame to the gateway (first write at or after t0)."""
    fb = bytes(cmd.frame.pack)
    written = getattr(getattr(sim.dev, "transport", None), "written", None)
    if written is None:
        written = [(t, d) for (t, d) in sim.dev.writes]
    for t, data in written:
        if t + 1e-9 >= t0 and fb in data:
            return t
    return None


# --------------------------------------------------------------------------------------- sync drivers

class FakeSocketModule:
    """Stands in for the socket module inside dali.driver.daliserver: a server whose replies take (virtual) time."""

    def __init__(self, outcome_fn, delay_fn=None):
        import socket as _real
        self._real = _real
        self.outcome_fn = outcome_fn
        self.delay_fn = delay_fn or (lambda data: 0.0)
        self.sent = []
        self.opened = 0
        self.closed = 0
        self.now = 0.0
        self.timeouts = 0
        self.socks = []
        self.cut_fn = None

    def __getattr__(self, name):
        # constants and exception classes (socket.timeout, socket.error, AF_INET, ...) are the real module's
        return getattr(self._real, name)

    def create_connection(self, target, timeout=None, *args, **kw):
        self.opened += 1
        sock = FakeSocket(self, timeout)
        self.socks.append(sock)
        return sock

    def pending_total(self):
        return sum(len(x.pending) for x in self.socks)


class FakeSocket:
    def __init__(self, mod, timeout=None):
        self.mod = mod
        self.pending = []          # (available at, bytes)
        self.timeout = timeout

    def settimeout(self, t):
        self.timeout = t

    def gettimeout(self):
        return self.timeout

    def setsockopt(self, *a):
        pass

    def send(self, data):
        self.mod.sent.append(bytes(data))
        self.pending.append((self.mod.now + self.mod.delay_fn(bytes(data)), self.mod.outcome_fn(bytes(data))))
        return len(data)

    sendall = send

    def recv(self, n, *flags):
        if not self.pending:
            return b""
        at, data = self.pending[0]
        if at > self.mod.now:
            if self.timeout is not None and self.mod.now + self.timeout < at:
                self.mod.now += self.timeout
                self.mod.timeouts += 1
                raise self.mod._real.timeout("timed out")
            self.mod.now = at
        self.pending.pop(0)
        cut = self.mod.cut_fn(data) if self.mod.cut_fn else None
        if cut == "closed":
            return b""                         # the server closed the connection instead of replying
        if cut:
            self.pending.insert(0, (self.mod.now, data[cut:]))
            self.mod.cut_fn = None             # one split per session
            return data[:cut]                  # a reply split over two TCP segments
        return data

    def close(self):
        self.mod.closed += 1

    def shutdown(self, *a):
        pass


def run_daliserver(seed, res):
    import dali.driver.daliserver as D
    from dali import frame as F
    from dali.exceptions import CommunicationError
    r = rng(seed, "C16", "daliserver")
    orig = D.socket
    try:
        for session in range(120):
            multi = session % 2 == 1
            cmds = []
            for i in range(1 if not multi else r.randint(2, 6)):
                kind = r.choice(["query", "plain", "twice", "special", "dtquery", "twice", "query"])
                cmd = simlib.make_command(r, kind, i % 4, session * 8 + i, "tridonic")
                oc = r.choice(["none", "value", "error", "bad-status"]) if not multi else r.choice(["none", "value", "error"])
                v = r.choice([0, 255, r.getrandbits(8)])
                cmds.append((cmd, oc, v))
            replies = {}
            for cmd, oc, v in cmds:
                replies[bytes([2, 0]) + bytes(cmd.frame.pack)] = {"none": bytes([2, 0, 0, 0]), "value": bytes([2, 1, v, 0]),
                                                                 "error": bytes([2, 255, 0, 0]), "bad-status": bytes([2, 7, 0, 0])}[oc if cmd.response is not None else "none"]
            # a daliserver busy with other clients / a busy bus answers late: the reply still belongs to its command
            slow = session % 3 == 2
            delays = {k: (r.choice([0.0, 0.02, 0.3, 1.1, 2.6, 7.0]) if slow else r.choice([0.0, 0.02])) for k in replies}
            mod = FakeSocketModule(lambda data: replies.get(data, bytes([2, 0, 0, 0])), lambda data: delays.get(data, 0.0))
            D.socket = mod
            transport = None
            if not multi and session % 5 == 4:
                # the reply never arrives whole: connection closed, or split over two segments
                transport = r.choice(["closed", 1, 2, 3])
                mod.cut_fn = lambda data, transport=transport: transport
            outs = []
            try:
                with D.DaliServer(multiple_frames_per_connection=multi) as ds:
                    for cmd, oc, v in cmds:
                        try:
                            outs.append(("ok", ds.send(cmd)))
                        except Exception as e:
                            outs.append(("exc", e))
            except Exception as e:
                outs.append(("exc", e))
            for (cmd, oc, v), out in zip(cmds, outs):
                res.evaluations += 1
                res.distinct += 1
                res.hit("daliserver_checked")
                wit = {"driver": "daliserver", "command": str(cmd), "outcome": oc, "value": v, "one_connection": multi,
                       "session": [(str(c), o, vv) for c, o, vv in cmds], "transport": transport}
                if transport is not None:
                    res.hit("daliserver_transport_faults")
                    if cmd.response is not None and out[0] == "ok":
                        # nothing (or half a reply) came back: saying so is fine, so is reading the rest; an answer the
                        # server never gave is not
                        val = out[1]
                        raw = getattr(val, "raw_value", None)
                        true_ok = transport != "closed" and type(val) is cmd.response and (
                            (oc == "none" and raw is None) or (oc == "value" and raw is not None and not raw.error and raw.as_integer == v)
                            or (oc == "error" and raw is not None and raw.error))
                        if not true_ok:
                            res.violation("C16/daliserver/answer-invented",
                                          f"send({cmd}): the server's reply was {'missing (connection closed)' if transport == 'closed' else f'cut after {transport} bytes'}"
                                          f" but the caller received {None if raw is None else ('framing error' if raw.error else raw.as_integer)!r} "
                                          f"as if the server had reported it", wit)
                    continue
                if cmd.response is None:
                    if out[0] == "exc" and mod.timeouts and isinstance(out[1], (TimeoutError, OSError, CommunicationError)):
                        res.observe("daliserver-gave-up-on-slow-reply", f"{type(out[1]).__name__} after {mod.timeouts} timeouts")
                    elif out != ("ok", None):
                        res.violation("C16/daliserver/answer-for-non-query", f"send({cmd}) gave {out}", wit)
                    continue
                if oc == "bad-status":
                    if not (out[0] == "exc" and isinstance(out[1], CommunicationError)):
                        res.violation("C16/daliserver/bad-status", f"status 7 gave {out}", wit)
                    continue
                if out[0] == "exc" and mod.timeouts and isinstance(out[1], (TimeoutError, OSError, CommunicationError)):
                    # the driver gave up waiting for a slow server and said so: loud, not a wrong answer - not judged here
                    res.observe("daliserver-gave-up-on-slow-reply", f"{type(out[1]).__name__} after {mod.timeouts} timeouts")
                    continue
                if out[0] == "exc":
                    res.violation(f"C16/daliserver/send-raised/{type(out[1]).__name__}", f"send({cmd}) raised {type(out[1]).__name__}: {out[1]}", wit)
                    continue
                val = out[1]
                if type(val) is not cmd.response:
                    res.violation("C16/daliserver/response-type", f"send({cmd}) returned {type(val).__name__}, expected {cmd.response.__name__}", wit)
                    continue
                raw = val.raw_value
                ok = (oc == "none" and raw is None) or (oc == "value" and isinstance(raw, F.BackwardFrame) and not raw.error and raw.as_integer == v) \
                    or (oc == "error" and isinstance(raw, F.BackwardFrame) and raw.error)
                res.hit({"none": "silent_outcomes", "value": "value_outcomes", "error": "error_outcomes"}[oc])
                if not ok:
                    res.violation(f"C16/daliserver/wrong-answer/{oc}", f"send({cmd}): daliserver reported {oc} {v} for this frame, caller received "
                                  f"{None if raw is None else ('error' if raw.error else raw.as_integer)!r}", wit)
            if slow:
                res.hit("daliserver_slow_sessions")
            if mod.pending_total() and not mod.timeouts and transport is None:
                res.violation("C16/daliserver/unread-replies", f"{mod.pending_total()} replies of the server were left unread in the session",
                              {"session": [(str(c), o, vv) for c, o, vv in cmds], "one_connection": multi})
            if mod.opened != mod.closed:
                res.violation("C16/daliserver/socket-leak", f"{mod.opened} connections opened, {mod.closed} closed", {"one_connection": multi})
    finally:
        D.socket = orig
    res.sample({"driver": "daliserver", "outcomes": ["none", "value", "error", "bad-status"], "sessions": 120})


class FakeSerialModule:
    PARITY_NONE = "N"
    STOPBITS_ONE = 1
    EIGHTBITS = 8

    def __init__(self, outcome_fn):
        self.outcome_fn = outcome_fn
        self.written = []
        self.lines = []

    def Serial(self, **kw):
        return self

    def write(self, data):
        self.written.append(bytes(data))
        line = self.outcome_fn(bytes(data))
        if isinstance(line, list):
            self.lines.extend(line)
        elif line is not None:
            self.lines.append(line)

    def read_until(self, sep):
        return self.lines.pop(0) if self.lines else b""

    def close(self):
        pass


def run_atx(seed, res):
    import importlib
    import sys
    import types
    from dali import frame as F
    if "usb" not in sys.modules:
        sys.modules["usb"] = types.ModuleType("usb")
        sys.modules["usb.core"] = types.ModuleType("usb.core")
        sys.modules["usb"].core = sys.modules["usb.core"]
    try:
        A = importlib.import_module("dali.driver.atxled")
    except Exception as e:
        res.inconclusive.append(f"dali.driver.atxled cannot be imported: {e}")
        return
    r = rng(seed, "C16", "atx")
    orig_serial, orig_sleep = A.serial, A.time.sleep
    import logging
    try:
        for i in range(200):
            kind = r.choice(["query", "plain", "twice", "special", "devquery", "devplain"])
            cmd = simlib.make_command(r, kind, i % 4, i, "tridonic")
            oc = r.choice(["none", "value"])
            v = r.choice([0, 255, r.getrandbits(8)])
            line = b"N\n" if oc == "none" or cmd.response is None else ("J%02X\n" % v).encode()
            # what else the hat's line protocol expresses: 'Z' = the transmission met a conflict on the bus and has to be
            # repeated; a backward frame although the command expects none; 'X' (garbled reception, see known findings)
            variant = r.choice(["plain", "plain", "plain", "conflict-first", "spurious-answer", "garbled", "monitor-then-conflict"])
            if variant == "spurious-answer" and cmd.response is not None:
                variant = "plain"
            if variant == "spurious-answer":
                line = ("J%02X\n" % v).encode()
            if variant == "garbled":
                line = b"X\n"
            nwrites = [0]

            def reply(data, line=line, variant=variant, nwrites=nwrites):
                nwrites[0] += 1
                if variant == "monitor-then-conflict" and nwrites[0] == 1:
                    # the hat also relays what it hears on the bus: four such lines, then the conflict report
                    return [b"H6B01\n", b"H6D02\n", b"HFF00\n", b"H0380\n", b"Z\n"]
                return b"Z\n" if (variant == "conflict-first" and nwrites[0] == 1) else line
            mod = FakeSerialModule(reply)
            A.serial = mod
            A.time.sleep = lambda s: None
            res.evaluations += 1
            res.distinct += 1
            res.hit("atx_checked")
            wit = {"driver": "atxled", "command": str(cmd), "outcome": oc, "value": v, "hat_lines": variant}
            res.hit("atx_" + variant.replace("-", "_"))
            try:
                drv = A.SyncDaliHatDriver(LOG=logging.getLogger("atx-test"))
                out = ("ok", drv.send(cmd))
            except Exception as e:
                out = ("exc", e)
            if variant == "garbled":
                # known finding: the 'X' line itself is handed on
                good = (out[0] == "ok" and (out[1] is None or type(out[1]) is cmd.response)) or \
                    (out[0] == "exc" and type(out[1]).__name__ == "CommunicationError")
                if not good:
                    res.violation("C16/atx/garbled-line-X", f"the hat answered 'X' to {cmd}: send gave "
                                  f"{out[1]!r}" + (f" ({type(out[1]).__name__})" if out[0] == "exc" else ""), wit)
                continue
            if variant in ("conflict-first", "monitor-then-conflict") and out[0] == "ok" and mod.written.count(mod.written[0]) > 2:
                res.observe("atx-conflict-repeats-the-command-more-than-once", f"{cmd}: written {len(mod.written)} times after one 'Z'")
            if out[0] == "exc":
                res.violation(f"C16/atx/send-raised/{type(out[1]).__name__}", f"send({cmd}) raised {type(out[1]).__name__}: {out[1]}",
                              {**wit, "tb": short_tb(out[1])})
                continue
            val = out[1]
            if cmd.response is None:
                if val is not None:
                    res.violation("C16/atx/answer-for-non-query", f"send({cmd}) returned {val!r}", wit)
                continue
            if type(val) is not cmd.response:
                res.violation("C16/atx/response-type", f"send({cmd}) returned {type(val).__name__}, expected {cmd.response.__name__}", wit)
                continue
            raw = val.raw_value
            ok = (oc == "none" and raw is None) or (oc == "value" and isinstance(raw, F.BackwardFrame) and not raw.error and raw.as_integer == v)
            res.hit({"none": "silent_outcomes", "value": "value_outcomes"}[oc])
            if not ok:
                res.violation(f"C16/atx/wrong-answer/{oc}", f"send({cmd}): hat reported {line!r}, caller received {raw!r}", wit)
        # one hat, one driver object, many commands: the hat relays what other masters put on the bus (0-3 'H' lines in front
        # of a reply); what was relayed during earlier commands has nothing to do with later ones
        import dali.gear.general as gg_s
        from dali import address as A_s
        for sess in range(6):
            state = {"foreign": 0}

            def reply_sess(data, state=state):
                txt = bytes(data).decode("ascii", "replace").strip()
                try:
                    v16 = int(txt[1:5], 16)
                except ValueError:
                    return b"N\n"
                k = r.choice([0, 0, 1, 2, 3])
                state["foreign"] += k
                lines_ = [("H%04X\n" % r.getrandbits(16)).encode() for _ in range(k)]
                ans = ("J%02X\n" % ((v16 >> 9) & 0x3F | 0x80)).encode() if (v16 & 0xFF) in (0x90, 0xA0, 0xA1) else b"N\n"
                return lines_ + [ans]
            mod = FakeSerialModule(reply_sess)
            A.serial = mod
            A.time.sleep = lambda s: None
            drv = A.SyncDaliHatDriver(LOG=logging.getLogger("atx-test"))
            for j in range(40):
                a = r.randrange(64)
                c = r.choice([gg_s.QueryStatus, gg_s.QueryActualLevel, gg_s.QueryMaxLevel])(A_s.GearShort(a)) if j % 3 else gg_s.DAPC(A_s.GearShort(a), j)
                res.evaluations += 1
                res.hit("atx_session_commands")
                wit = {"driver": "atxled", "command": str(c), "position_in_session": j, "foreign_lines_relayed_so_far": state["foreign"]}
                try:
                    out = drv.send(c)
                except Exception as e:
                    res.violation(f"C16/atx/send-raised/{type(e).__name__}", f"command {j} of a session, send({c}) raised {type(e).__name__}: {e}", wit)
                    break
                if c.response is None:
                    if out is not None:
                        res.violation("C16/atx/answer-for-non-query", f"command {j} of a session: send({c}) returned {out!r}", wit)
                        break
                    continue
                raw = getattr(out, "raw_value", "missing")
                if type(out) is not c.response or not isinstance(raw, F.BackwardFrame) or raw.error or raw.as_integer != (a | 0x80):
                    res.violation("C16/atx/wrong-answer/session", f"command {j} of a session on one hat ({state['foreign']} foreign lines relayed "
                                  f"so far): send({c}) returned {raw!r}, the hat reported J{a | 0x80:02X} for it", wit)
                    break
        # several threads share one hat driver (it carries a lock for that): each gets the answer to its own command
        import sys as _sys
        import threading
        import dali.gear.general as gg_
        from dali import address as A_

        def reply_by_frame(data):
            txt = bytes(data).decode("ascii", "replace").strip()
            try:
                v16 = int(txt[1:5], 16)
            except ValueError:
                return b"N\n"
            return ("J%02X\n" % ((v16 >> 9) & 0x3F | 0x40)).encode() if (v16 & 0xFF) in (0x90, 0xA0) else b"N\n"
        import time as _time
        real_sleep = orig_sleep

        class SlowSerial(FakeSerialModule):
            # writing to and reading from a serial port takes time: other threads run meanwhile
            def write(self, data):
                real_sleep(0)
                FakeSerialModule.write(self, data)
                real_sleep(0)

            def read_until(self, sep):
                real_sleep(0)
                return FakeSerialModule.read_until(self, sep)
        mod = SlowSerial(reply_by_frame)
        A.serial = mod
        drv = A.SyncDaliHatDriver(LOG=logging.getLogger("atx-test"))
        wrong = []

        def worker(k):
            for j in range(60):
                a = (k * 16 + j) % 64
                c = gg_.QueryStatus(A_.GearShort(a)) if j % 2 else gg_.DAPC(A_.GearShort(a), j)
                try:
                    out = drv.send(c)
                except Exception as e:      # noqa
                    wrong.append((k, str(c), repr(e)))
                    continue
                if c.response is None:
                    if out is not None:
                        wrong.append((k, str(c), repr(out)))
                elif out is None or out.raw_value is None or out.raw_value.as_integer != (a | 0x40):
                    wrong.append((k, str(c), None if out is None or out.raw_value is None else out.raw_value.as_integer))
        old_si = _sys.getswitchinterval()
        _sys.setswitchinterval(1e-6)
        try:
            ts = [threading.Thread(target=worker, args=(k,)) for k in range(6)]
            for t in ts:
                t.start()
            for t in ts:
                t.join(120)
        finally:
            _sys.setswitchinterval(old_si)
        res.evaluations += 360
        res.hit("atx_threaded_sends", 360)
        if wrong:
            res.violation("C16/atx/threads/wrong-answer", f"6 threads sharing one hat driver: thread {wrong[0][0]} sent {wrong[0][1]} and received "
                          f"{wrong[0][2]!r} ({len(wrong)} wrong of 360)", {"driver": "atxled"})
    finally:
        A.serial = orig_serial
        A.time.sleep = orig_sleep
    res.sample({"driver": "atxled", "lines": ["N", "Jhh"]})


def run_shard(desc, tier, seed):
    res = Result()
    simlib.import_all()
    _drv = desc.get("driver")
    if _drv in simlib.DRIVERS and "replay" not in desc:
        why = simlib.probe_attach(_drv)
        if why:
            res.inconclusive.append(why)
            return res
    if "replay" in desc:
        for w in desc["replay"]["witnesses"]:
            x = w["witness"]
            if x.get("stale_status"):
                run_stale_status_case(x["seed"], x["case"], res)
            elif x.get("late"):
                run_late_case(x["driver"], x["seed"], x["case"], res)
            elif x.get("twin"):
                run_twin_case(x["driver"], x["seed"], x["case"], res)
            elif x.get("abandon"):
                run_abandon_case(x["driver"], x["seed"], x["case"], res)
            elif "sequences" in x:
                from props import integ
                integ.run_case(x["driver"], x["seed"], x["case"], res, "C16", concurrent=x.get("concurrent", False))
            elif "case" in x:
                run_async_case(x["driver"], x["seed"], x["part"], x["case"], res,
                               forced=dict(x["forced"]) if x.get("forced") else None)
            else:
                run_daliserver(seed, res)
                run_atx(seed, res)
        return res
    if desc["kind"] == "late":
        for i in range(desc["n"]):
            try:
                run_late_case(desc["driver"], seed, i, res)
                if desc["driver"] == "sci":
                    run_stale_status_case(seed, i, res)
            except Exception as e:
                res.inconclusive.append("harness error (late): " + short_tb(e))
                break
    elif desc["kind"] == "twin":
        for i in range(desc["n"]):
            try:
                run_twin_case(desc["driver"], seed, i, res)
            except Exception as e:
                res.inconclusive.append("harness error (twin): " + short_tb(e))
                break
    elif desc["kind"] == "abandon":
        for i in range(desc["n"]):
            try:
                run_abandon_case(desc["driver"], seed, i, res)
            except Exception as e:
                res.inconclusive.append("harness error (abandon): " + short_tb(e))
                break
    elif desc["kind"] == "integration":
        from props import integ
        for i in range(desc["n"]):
            try:
                integ.run_case(desc["driver"], seed, desc["part"] * 100000 + i, res, "C16", concurrent=(i % 2 == 1))
            except Exception as e:
                res.inconclusive.append("harness error (integration): " + short_tb(e))
                break
    elif desc["kind"] == "dfs":
        try:
            dfs_shard(desc, seed, res)
        except Exception as e:
            res.inconclusive.append("harness error (dfs): " + short_tb(e))
    elif desc["kind"] == "async":
        for i in range(desc["n"]):
            try:
                run_async_case(desc["driver"], seed, desc["part"], i, res)
            except Exception as e:
                res.inconclusive.append("harness error: " + short_tb(e))
                break
    else:
        run_daliserver(seed, res)
        run_atx(seed, res)
    return res
