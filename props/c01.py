"""C01 - every forward frame decodes, and the decoded command re-encodes to it; decoding is pure.

Workload: enumerated forward frames x device types x instance maps, each block decoded in three
orders (ascending, seeded shuffle, shuffle interleaved with decodes under *other* device types /
maps / lengths and unrelated constructions).  Oracle per frame: no exception, a Command comes
back, its frame is bit-identical, the input is not mutated, str()/repr() are strings, frames the
standard's tables do not define come back as the generic classes; per block: per-frame digests of
(class, frame, text) identical in all three orders; registries fingerprinted before/after.
"""
import random

from vlib.common import Result, rng, short_tb

PROP = "C01"
LEVEL = "exploration"
CONTRACTS = "light"
RULE = ("frames are enumerated (not sampled) inside each block; a case is one (length, value, device type, map) "
        "tuple decoded in three orders; distinct = distinct tuples; every tuple is non-trivial in the sense that "
        "the frame is not one of the suite's fixed examples except by coincidence")
ASSUMPTIONS = ["spec/iec62386_tables.py lists every command of the implemented parts; 'unknown' is judged only in "
               "the direction reference-unknown => generic class",
               "instance maps are real DeviceInstanceTypeMapper objects resolving every (address, instance) to one type"]
EXHAUSTIVE = {"quick": False, "thorough": True}
REQUIRED_ANCHORS = {"all": ["decoded16", "decoded24", "decoded_event", "decoded_other_len", "order_passes",
                            "fingerprints_compared", "generic_checked", "map_history_decodes", "retained_results_checked", "threaded_decodes", "reused_frame_decodes"]}
SHARD_TIMEOUT = {"quick": 600, "thorough": 3000}

QUICK_DTS = [0, 1, 4, 5, 6, 8, 2, 3, 7, 254, 255]
MAP_TYPES = [1, 3, 4, 0, 2, 17, 31, 32]      # 32: a map may name a type no frame can carry (types in frames are 5 bits)


def plan(tier, seed):
    sh = []
    if tier == "quick":
        # every device type is decoded by two processes that visit the device types in opposite orders: the per-block
        # digests must agree (cross_check), i.e. a decode must not depend on which device types were decoded before
        for grp in ([0, 6, 8], [1, 4, 5], [2, 3, 7], [254, 255, 9]):
            sh.append({"kind": "g16", "dts": grp, "lo": 0, "hi": 65536})
            sh.append({"kind": "g16", "dts": grp[::-1], "lo": 0, "hi": 65536, "light": True})
        for p in range(8):
            sh.append({"kind": "d24", "lo": 8192 * p, "hi": 8192 * (p + 1), "lows": [0x00, 0x01, 0x55, 0xFF],
                       "random": 8192})
        for p in range(8):
            sh.append({"kind": "ev", "alo": 8 * p, "ahi": 8 * (p + 1), "data": "strided"})
        sh.append({"kind": "len", "n": 40})
        sh.append({"kind": "maphist", "n": 300})
        sh.append({"kind": "threads", "n": 6000})
    else:
        sh.append({"kind": "maphist", "n": 5000})
        for dt0 in range(0, 256, 4):
            sh.append({"kind": "g16", "dts": list(range(dt0, dt0 + 4)), "lo": 0, "hi": 65536})
        for dt0 in (0, 4, 8, 252):
            sh.append({"kind": "g16", "dts": list(range(dt0, dt0 + 4))[::-1], "lo": 0, "hi": 65536, "light": True})
        for p in range(128):
            sh.append({"kind": "d24", "lo": 512 * p, "hi": 512 * (p + 1), "lows": "all", "random": 0})
        for p in range(64):
            sh.append({"kind": "ev", "alo": p, "ahi": p + 1, "data": "all"})
        sh.append({"kind": "len", "n": 400})
        sh.append({"kind": "threads", "n": 60000})
    return sh


# ------------------------------------------------------------------- registries

def fingerprint():
    """Deep fingerprint of every class-level container reachable from the command classes."""
    from dali import command, address
    import dali.device.general as dg
    seen = {}
    roots = list(command.Command._commands) + [command.Command, address.Address, dg._Event]
    classes = set()
    for c in roots:
        for k in c.__mro__:
            classes.add(k)
    for k in sorted(classes, key=lambda c: (c.__module__, c.__qualname__)):
        for name, val in sorted(vars(k).items()):
            if isinstance(val, (dict, list, set, tuple)) and not name.startswith("__"):
                seen[f"{k.__module__}.{k.__qualname__}.{name}"] = _deep(val)
    return seen


def _deep(x):
    if isinstance(x, dict):
        return sorted((repr(_deep(k)), repr(_deep(v))) for k, v in x.items())
    if isinstance(x, (list, tuple)):
        return [_deep(v) for v in x]
    if isinstance(x, set):
        return sorted(repr(_deep(v)) for v in x)
    if isinstance(x, type):
        return f"<class {x.__module__}.{x.__qualname__}>"
    return repr(x)


# ------------------------------------------------------------------- per-frame oracle

class Ctx:
    def __init__(self):
        from dali import command, frame
        import dali.gear.general as gg
        import dali.device.general as dg
        from dali.device.helpers import DeviceInstanceTypeMapper
        # import every module that registers commands, as an application would
        import dali.gear.led, dali.gear.emergency, dali.gear.incandescent, dali.gear.converter, dali.gear.colour  # noqa
        import dali.device.pushbutton, dali.device.occupancy, dali.device.light  # noqa
        self.from_frame = command.from_frame
        self.Command = command.Command
        self.FF = frame.ForwardFrame
        self.UG = gg.UnknownGearCommand
        self.UD = dg.UnknownDeviceCommand
        self.UE = dg.UnknownEvent
        self.AMB = dg.AmbiguousInstanceType
        self.maps = {"none": None, "empty": DeviceInstanceTypeMapper()}
        for t in MAP_TYPES:
            m = DeviceInstanceTypeMapper()
            for a in range(64):
                for i in range(32):
                    m.add_type(short_address=a, instance_number=i, instance_type=t)
            self.maps[f"t{t}"] = m
        self.map_type = {"none": None, "empty": None, **{f"t{t}": t for t in MAP_TYPES}}


def decode_check(cx, res, n, v, dt, mapname, first_pass):
    """Decode one frame; returns the digest of (class, frame, text). Oracle checks run on the first pass."""
    f = cx.FF(n, v)
    try:
        r = cx.from_frame(f, dt, cx.maps[mapname])
    except Exception as e:
        res.violation(f"C01/raised/{n}bit/{type(e).__name__}", f"from_frame raised {type(e).__name__}: {e}",
                      {"len": n, "frame": v, "dt": dt, "map": mapname, "tb": short_tb(e)})
        return None
    try:
        s = str(r)
    except Exception as e:
        res.violation(f"C01/str-raised/{type(r).__name__}", f"str() of the decoded command raised {type(e).__name__}",
                      {"len": n, "frame": v, "dt": dt, "map": mapname})
        s = None
    if not first_pass:
        return hash((type(r).__qualname__, _fi(r), s))
    if not isinstance(r, cx.Command):
        res.violation("C01/not-a-command", f"from_frame returned {type(r).__name__}", {"len": n, "frame": v, "dt": dt})
        return None
    try:
        rf = r.frame
        ok = (rf == f) and len(rf) == n and rf.as_integer == v
    except Exception as e:
        ok = False
    if not ok:
        res.violation(f"C01/frame-differs/{type(r).__name__}",
                      f"decoded {type(r).__name__} re-encodes to {_fi(r)!r}, input was {v:#x} ({n} bits)",
                      {"len": n, "frame": v, "dt": dt, "map": mapname, "text": s})
    if f.as_integer != v or len(f) != n:
        res.violation("C01/input-mutated", "decoding modified the input frame", {"len": n, "frame": v, "dt": dt})
    try:
        rp = repr(r)
    except Exception as e:
        rp = None
        res.violation(f"C01/repr-raised/{type(r).__name__}", f"repr() raised {type(e).__name__}",
                      {"len": n, "frame": v, "dt": dt, "map": mapname})
    if not isinstance(s, str) and s is not None or (rp is not None and not isinstance(rp, str)):
        res.violation("C01/text-not-str", "str()/repr() did not return a string", {"len": n, "frame": v})
    return hash((type(r).__qualname__, _fi(r), s)), r


def _fi(r):
    try:
        return (len(r.frame), r.frame.as_integer)
    except Exception:
        return None


def generic_expected(cx, n, v, dt, mapname):
    """The generic class the result must have when the reference tables do not define the frame, else None."""
    from models import cmd_ref, events_ref
    if n == 16:
        c = cmd_ref.classify16(v, dt)
        return cx.UG if c == cmd_ref.UNKNOWN else None
    if n == 24:
        if (v >> 16) & 1:
            c = cmd_ref.classify24(v)
            return cx.UD if c == cmd_ref.UNKNOWN else None
        sl = events_ref.slice_event(v)
        if sl is None:
            return cx.Command
        t = sl["instance_type"]
        if sl["scheme"] == "device_instance":
            t = cx.map_type[mapname]
            if t is None:
                return cx.AMB
        if events_ref.event_class(t, sl["data"]) == "UnknownEvent":
            return cx.UE
        return None
    return cx.Command


PRIMERS = [(16, 0xC100 + n) for n in (1, 2, 3, 4, 5, 6, 7, 8, 0, 255, 17)] + \
          [(16, 0xA300), (16, 0xC355), (16, 0xC5AA), (16, 0xA500), (16, 0xA100), (16, 0xBD00),
           (24, 0xC13001), (24, 0xC10000), (24, 0xC1017F), (24, 0xC50102), (24, 0xFFFE1E)]


def run_block(cx, res, cases, seed, tag, anchor, light=False, block_key=None):
    """cases: list of (n, v, dt, mapname).  Three decode orders, digests compared per case."""
    dig = [None] * len(cases)
    kept = []          # decoded objects stay alive: a later decode must not change what an earlier one returned
    for i, (n, v, dt, mp) in enumerate(cases):
        out = decode_check(cx, res, n, v, dt, mp, True)
        res.evaluations += 1
        if out is None:
            continue
        dig[i], r = out
        kept.append((r, n, v, dt, mp))
        if len(kept) >= 24 or i + 1 == len(cases):
            for (r0, n0, v0, dt0, mp0) in kept:
                if _fi(r0) != (n0, v0):
                    res.violation(f"C01/earlier-result-changed/{type(r0).__name__}",
                                  f"the {type(r0).__name__} decoded from {v0:#x} ({n0} bits) reads {_fi(r0)!r} after later frames were "
                                  "decoded: results of different decodes share state",
                                  {"len": n0, "frame": v0, "dt": dt0, "map": mp0})
                    break
            res.hit("retained_results_checked", len(kept))
            kept = []
        want = generic_expected(cx, n, v, dt, mp)
        if want is not None:
            res.hit("generic_checked")
            if type(r) is not want:
                res.violation(f"C01/unknown-frame-not-generic/{n}bit/{type(r).__name__}",
                              f"frame {v:#x} (dt {dt}, map {mp}) is not defined by the standard's tables but decoded "
                              f"as {type(r).__name__}; expected the generic {want.__name__}",
                              {"len": n, "frame": v, "dt": dt, "map": mp, "text": str(r)})
    res.hit(anchor, len(cases))
    if block_key is not None:
        res.extra.setdefault("block_digests", []).append(f"{block_key}={hash(tuple(dig)) & 0xFFFFFFFFFFFF:x}")
    if light:
        return
    res.distinct += len(cases)
    # pass 2: seeded shuffle
    order = list(range(len(cases)))
    random.Random(f"{seed}:{tag}").shuffle(order)
    for i in order:
        n, v, dt, mp = cases[i]
        d = decode_check(cx, res, n, v, dt, mp, False)
        if d != dig[i] and dig[i] is not None:
            res.violation("C01/order-dependent/shuffle", "the same (frame, device type, map) decoded differently in another order",
                          {"len": n, "frame": v, "dt": dt, "map": mp})
    # pass 3: reverse order, each decode preceded by a decode of the same bits in another context
    # and by unrelated constructions
    import dali.gear.general as gg
    import dali.device.general as dg
    from dali import address
    mapnames = list(cx.maps)
    k = 0
    for i in reversed(order):
        n, v, dt, mp = cases[i]
        k += 1
        try:
            cx.from_frame(cx.FF(n, v), (dt + 1 + k % 7) % 256, cx.maps[mapnames[k % len(mapnames)]])
            other = 24 if n == 16 else 16
            cx.from_frame(cx.FF(other, v % (1 << other)), dt, cx.maps[mp])
            if k % 5 == 0:
                gg.SetScene(address.GearShort(k % 64), k % 16)
                dg.DTR2DTR1(k % 256, (k * 7) % 256)
                gg.EnableDeviceType(k % 256)
        except Exception:
            pass  # judged where these frames are the subject
        # the immediately preceding decode is a frame that sets context *on the bus* (ENABLE DEVICE TYPE n, DTRs,
        # INITIALISE ...): a decoder is a function of its arguments and must not remember it
        try:
            pn, pv = PRIMERS[k % len(PRIMERS)]
            cx.from_frame(cx.FF(pn, pv), 0, cx.maps[mapnames[0]])
        except Exception:
            pass
        d = decode_check(cx, res, n, v, dt, mp, False)
        if d != dig[i] and dig[i] is not None:
            res.violation("C01/order-dependent/interleaved",
                          "decoding depends on what was decoded or constructed before",
                          {"len": n, "frame": v, "dt": dt, "map": mp})
    res.hit("order_passes", 3)


def map_histories(cx, res, n, seed):
    """The map is an input: the same mapper object is mutated between decodes (add / change / clear) and every
    decode must equal the decode under a *fresh* mapper holding the same contents at that moment."""
    from dali.device.helpers import DeviceInstanceTypeMapper
    for h in range(n):
        r = rng(seed, "C01", "maphist", h)
        live = DeviceInstanceTypeMapper()
        mirror = {}
        log = []
        addrs = [r.randrange(64) for _ in range(2)]
        insts = [r.randrange(32) for _ in range(2)]
        for step in range(r.randint(4, 14)):
            c = r.random()
            a, i = r.choice(addrs), r.choice(insts)
            if c < 0.35:
                t = r.choice([1, 3, 4, 0, 2, 31])
                live.add_type(short_address=a, instance_number=i, instance_type=t)
                mirror[(a, i)] = t
                log.append(["add", a, i, t])
            elif c < 0.45:
                live.clear()
                mirror = {}
                log.append(["clear"])
            else:
                d = r.choice([0, 1, 5, 15, 16, 700, 1023])
                v = a * 131072 + 32768 + i * 1024 + d
                log.append(["decode", v])
                res.evaluations += 1
                res.distinct += 1
                res.hit("map_history_decodes")
                fresh = DeviceInstanceTypeMapper(dict(mirror))
                try:
                    r1 = cx.from_frame(cx.FF(24, v), 0, live)
                    r2 = cx.from_frame(cx.FF(24, v), 0, fresh)
                    same = (type(r1) is type(r2) and str(r1) == str(r2) and r1.frame == r2.frame
                            and r1.frame.as_integer == v)
                except Exception as e:
                    res.violation("C01/raised/map-history", f"from_frame raised {type(e).__name__} in a map history",
                                  {"history": log})
                    break
                if not same:
                    res.violation("C01/order-dependent/map-contents",
                                  f"frame {v:#08x}: decoding under a mapper that was modified since an earlier decode gives "
                                  f"{r1}, a fresh mapper with the same contents gives {r2}", {"history": list(log)})
                    break
        if h == 0:
            res.sample({"map_history": log})


def reused_frames(cx, res, n, seed):
    """A frame object decoded, changed in place (single bits and slices) and decoded again: the result follows the bits the frame
    holds at the time of the call, whatever was decoded from the same object before."""
    r = random.Random(f"{seed}:reuse")
    for t in range(n):
        nb = r.choice([16, 16, 24, 24, 8, 25])
        v = r.getrandbits(nb)
        dt = r.choice([0, 0, 6, 8])
        mp = r.choice(["none", "none", "t1", "empty"])
        f = cx.FF(nb, v)
        for step in range(4):
            try:
                got = cx.from_frame(f, dt, cx.maps[mp])
                fresh = cx.from_frame(cx.FF(nb, v), dt, cx.maps[mp])
            except Exception as e:
                res.violation(f"C01/raised/{nb}bit/{type(e).__name__}", f"from_frame raised {type(e).__name__}: {e}",
                              {"len": nb, "frame": v, "dt": dt, "map": mp, "tb": short_tb(e)})
                break
            res.evaluations += 1
            res.hit("reused_frame_decodes")
            if type(got) is not type(fresh) or _fi(got) != (nb, v) or str(got) != str(fresh):
                res.violation("C01/reused-frame-object", f"a frame object changed in place to {v:#x} ({nb} bits) decodes as {got} "
                              f"[{_fi(got)}]; a fresh frame with those bits decodes as {fresh}", {"len": nb, "frame": v, "dt": dt, "map": mp, "step": step})
                break
            if r.random() < 0.6:
                k = r.randrange(nb)
                f[k] = not f[k]
            else:
                hi = r.randrange(nb)
                lo = r.randrange(hi + 1)
                f[hi:lo] = r.getrandbits(hi - lo + 1)
            v = f.as_integer


def threaded(cx, res, n, seed):
    """A pure function gives the same answers to several threads asking at once (a monitor thread decoding bus traffic beside
    the application).  8 threads, tiny switch interval, each thread its own shuffled order of the same cases."""
    import sys
    import threading
    r = random.Random(f"{seed}:threads")
    cases = []
    for _ in range(n):
        c = r.random()
        if c < 0.45:
            cases.append((16, r.getrandbits(16), r.choice([0, 0, 1, 6, 8, 5, 255]), "none"))
        elif c < 0.9:
            cases.append((24, r.getrandbits(24), 0, r.choice(["none", "empty", "t1", "t3", "t4", "t32"])))
        else:
            nb = r.choice([8, 17, 25, 32])
            cases.append((nb, r.getrandbits(nb), 0, "none"))
    ref = []
    for (nb, v, dt, mp) in cases:
        out = decode_check(cx, res, nb, v, dt, mp, False)
        ref.append(out)
    wrong = []
    sink = Result()
    old = sys.getswitchinterval()
    sys.setswitchinterval(1e-6)
    try:
        def worker(k):
            order = list(range(len(cases)))
            random.Random(k).shuffle(order)
            for i in order:
                nb, v, dt, mp = cases[i]
                d = decode_check(cx, sink, nb, v, dt, mp, False)
                if d != ref[i]:
                    wrong.append((k, cases[i]))
        ts = [threading.Thread(target=worker, args=(k,)) for k in range(8)]
        for t in ts:
            t.start()
        for t in ts:
            t.join(600)
    finally:
        sys.setswitchinterval(old)
    res.evaluations += 8 * len(cases)
    res.hit("threaded_decodes", 8 * len(cases))
    if wrong:
        k, (nb, v, dt, mp) = wrong[0]
        res.violation("C01/threads/result-differs", f"with 8 threads decoding at once, thread {k} decoded frame {v:#x} ({nb} bits, dt {dt}, "
                      f"map {mp}) differently from a single thread ({len(wrong)} differing decodes)",
                      {"len": nb, "frame": v, "dt": dt, "map": mp})
    for v_ in sink.violations[:3]:
        res.violation(v_["key"] + "/threads", v_["what"], v_["witness"])


def cross_check(extra):
    """The same (device type, frame range) block decoded by different processes (other device types decoded before it)."""
    seen = {}
    out = []
    for item in extra.get("block_digests", []):
        key, d = item.split("=")
        if key in seen and seen[key] != d:
            out.append({"key": "C01/order-dependent/across-contexts",
                        "what": f"block {key} (kind:device type:frame range) decodes differently depending on which device types were decoded "
                                "earlier in the same process", "witness": {"block": key, "digests": [seen[key], d]}})
        seen.setdefault(key, d)
    return out


def run_shard(desc, tier, seed):
    res = Result()
    cx = Ctx()
    if "replay" in desc:
        for wit in desc["replay"]["witnesses"]:
            w = wit["witness"]
            if "frame" in w:
                run_block(cx, res, [(w["len"], w["frame"], w.get("dt", 0), w.get("map", "none"))], seed, "replay", "replayed")
        return res
    fp0 = fingerprint()
    kind = desc["kind"]
    CH = 65536
    if kind == "g16":
        for dt in desc["dts"]:
            cases = [(16, v, dt, "none") for v in range(desc["lo"], desc["hi"])]
            run_block(cx, res, cases, seed, f"g16-{dt}", "decoded16", light=desc.get("light", False),
                      block_key=f"g16:{dt}:{desc['lo']}:{desc['hi']}")
        res.sample({"len": 16, "dts": desc["dts"], "frames": [hex(desc["lo"]), hex(desc["hi"] - 1)]})
    elif kind == "d24":
        lows = range(256) if desc["lows"] == "all" else desc["lows"]
        cases = []
        for u in range(desc["lo"], desc["hi"]):
            for lo in lows:
                cases.append((24, u * 256 + lo, 0, "none"))
                if len(cases) >= CH:
                    run_block(cx, res, cases, seed, f"d24-{u}", "decoded24")
                    cases = []
        r = rng(seed, "C01", "d24", desc["lo"])
        for _ in range(desc["random"]):
            cases.append((24, r.getrandbits(24), r.choice([0, 1, 8]), r.choice(["none", "empty", "t1"])))
        if cases:
            run_block(cx, res, cases, seed, f"d24-{desc['lo']}", "decoded24")
        res.sample({"len": 24, "upper16": [hex(desc["lo"]), hex(desc["hi"] - 1)],
                    "low_bytes": "all" if desc["lows"] == "all" else desc["lows"]})
    elif kind == "ev":
        if desc["data"] == "all":
            datas = list(range(1024))
        else:
            r = rng(seed, "C01", "ev", desc["alo"])
            datas = sorted(set(list(range(0, 17)) + [31, 32, 255, 256, 512, 1022, 1023] +
                               [r.getrandbits(10) for _ in range(8)]))
        for mp in ["none", "empty"] + [f"t{t}" for t in MAP_TYPES]:
            cases = []
            for a in range(desc["alo"], desc["ahi"]):
                for inst in range(32):
                    for d in datas:
                        cases.append((24, a * 131072 + 32768 + inst * 1024 + d, 0, mp))
                        if len(cases) >= CH:
                            run_block(cx, res, cases, seed, f"ev-{mp}-{a}", "decoded_event")
                            cases = []
            if cases:
                run_block(cx, res, cases, seed, f"ev-{mp}", "decoded_event")
        res.sample({"event_frames": "device/instance scheme", "addresses": [desc["alo"], desc["ahi"] - 1],
                    "maps": ["none", "empty"] + MAP_TYPES, "data_values": len(datas)})
    elif kind == "len":
        r = rng(seed, "C01", "len")
        cases = []
        for n in list(range(1, 16)) + list(range(17, 24)) + list(range(25, 65)):
            vals = {0, 1, (1 << n) - 1, 1 << (n - 1), ((1 << n) - 1) // 3}
            for _ in range(desc["n"]):
                vals.add(r.getrandbits(n))
            for v in sorted(vals):
                cases.append((n, v, r.choice([0, 0, 1, 6, 8, 200]), r.choice(["none", "empty", "t1", "t3"])))
        run_block(cx, res, cases, seed, "len", "decoded_other_len")
        res.sample({"other_lengths": "1..15, 17..23, 25..64", "cases": len(cases)})
    elif kind == "maphist":
        map_histories(cx, res, desc["n"], seed)
    elif kind == "threads":
        threaded(cx, res, desc["n"], seed)
        reused_frames(cx, res, desc["n"] // 2, seed)
    fp1 = fingerprint()
    res.hit("fingerprints_compared")
    new_containers = [k for k in fp1 if k not in fp0]
    if new_containers:
        res.observe("class-level-container-created-while-decoding", str(new_containers[:3]))
    if any(fp0[k] != fp1.get(k) for k in fp0):
        changed = [k for k in fp0 if fp0[k] != fp1.get(k)]
        res.violation("C01/registry-mutated", f"decoding changed class-level registries: {changed[:5]}",
                      {"changed": changed[:10], "shard": desc})
    res.add("registries_fingerprinted", len(fp0))
    return res
