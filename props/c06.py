"""C06 - responses interpret every backward-frame outcome faithfully and totally.

Workload: every response class attached to a command class (plus the documented secondary byte
classes of part 205) x {None, BackwardFrame(0..255), BackwardFrameError(0..255)} and non-frame
constructor arguments.  Oracle: reference semantics per family (public base classes of dali.command).
"""
import enum
import importlib

from vlib.common import Result, short_tb

PROP = "C06"
LEVEL = "exploration"
CONTRACTS = "icontract"
RULE = ("one case = (response class, bus outcome) with outcome in {none, clean 0..255, framing error 0..255} - the "
        "whole space is enumerated; plus (class, non-frame argument) pairs; distinct = distinct pairs")
ASSUMPTIONS = ["families are recognised by the public base classes YesNoResponse / NumericResponse(Mask) / "
               "BitmapResponse / EnumResponse / Response",
               "for a missing or garbled answer a named bit of a bitmap response must not read as set (None is what "
               "the library documents); the text only forbids MissingResponse/ResponseError escaping from str()"]
EXHAUSTIVE = {"quick": True, "thorough": True}
REQUIRED_ANCHORS = {"all": ["Response.__init__", "classes", "outcomes_checked", "str_checked", "bad_args_checked",
                            "rereads_checked", "bit_tables_compared"]}
SHARD_TIMEOUT = {"quick": 300, "thorough": 600}


def plan(tier, seed):
    return [{"part": p, "of": 8} for p in range(8)]


USER_CLASSES = []


def response_classes():
    from dali import command
    if not USER_CLASSES:
        USER_CLASSES.extend(user_response_classes())
    for m in ("gear.general", "gear.led", "gear.emergency", "gear.incandescent", "gear.converter", "gear.colour",
              "device.general", "device.pushbutton", "device.occupancy", "device.light"):
        importlib.import_module("dali." + m)
    import dali.gear.incandescent as inc
    cls = {c.response for c in command.Command._commands if c.response is not None}
    for extra in ("FeaturesByte2Response", "FeaturesByte3Response", "FailureStatusByte2Response"):
        if hasattr(inc, extra):
            cls.add(getattr(inc, extra))
    for base in (command.Response, command.NumericResponse, command.NumericResponseMask, command.YesNoResponse,
                 command.BitmapResponse, command.EnumResponse):
        cls.add(base)
    return sorted(cls, key=lambda c: (c.__module__, c.__qualname__)) + USER_CLASSES


def family(cls):
    from dali import command
    if issubclass(cls, command.YesNoResponse):
        return "yesno"
    if issubclass(cls, command.NumericResponseMask):
        return "mask"
    if issubclass(cls, command.NumericResponse):
        return "numeric"
    if issubclass(cls, command.BitmapResponse):
        return "bitmap"
    if issubclass(cls, command.EnumResponse):
        # a subclass that defines its own value property documents its own markers
        own = any("value" in vars(k) for k in cls.__mro__ if k is not command.EnumResponse
                  and issubclass(k, command.EnumResponse))
        return "enum-custom" if own else "enum"
    return "generic"


# accessors that restate part of the answer byte (from the standard's tables of the answer): (class, attribute) -> f(n)
DERIVED = {
    ("gear.emergency.QueryEmergencyModeResponse", "mode"): lambda n: ",".join(
        nm for i, nm in enumerate(["rest mode", "normal mode", "emergency mode", "extended emergency mode", "function test",
                                   "duration test"]) if (n >> i) & 1),
    ("gear.colour.QueryColourTypeFeaturesResponse", "primary_n"): lambda n: (n >> 2) & 7,
    ("gear.colour.QueryColourTypeFeaturesResponse", "RGBWAF_channels"): lambda n: (n >> 5) & 7,
    ("gear.colour.QueryRBGWAFControlResponse", "control_type"): lambda n: ["channel control", "colour control",
                                                                          "normalised colour control", "(error)"][(n >> 6) & 3],
    ("gear.general.QueryStatusResponse", "error"): lambda n: bool(n & 0x43),
    ("gear.general.QueryFadeTimeAndRateResponse", "fade_time"): lambda n: n >> 4,
    ("gear.general.QueryFadeTimeAndRateResponse", "fade_rate"): lambda n: n & 15,
    ("gear.incandescent.FeaturesByte3Response", "dimming_method"): lambda n: ["leading & trailing", "leading only", "trailing only",
                                                                             "sine wave"][n & 3],
}


def user_response_classes():
    """Response classes an application may declare from the public bases (a vendor-specific query): they get the family's
    semantics like the library's own."""
    import enum as _enum
    from dali import command

    class VendorStrictResponse(command.Response):
        _expected = True

    class VendorFlags(command.BitmapResponse):
        bits = ["alpha", None, "beta gamma", "delta-epsilon", None, None, "zeta", "eta"]

    class VendorCode(_enum.IntEnum):
        one = 0x01
        two = 0x02
        four = 0x04
        top = 0x80

    class VendorEnumResponse(command.EnumResponse):
        enumerator = VendorCode

    class VendorStrictEnumResponse(command.EnumResponse):
        enumerator = VendorCode
        _expected = True

    class VendorNumber(command.NumericResponse):
        pass

    class VendorNumberMask(command.NumericResponseMask):
        pass

    class VendorYesNo(command.YesNoResponse):
        pass
    out = [VendorStrictResponse, VendorFlags, VendorEnumResponse, VendorStrictEnumResponse, VendorNumber,
           VendorNumberMask, VendorYesNo]
    for c in out:
        c.__module__ = "dali.application"
    return out


def outcome_name(kind, n):
    return {"none": "none", "clean": f"clean({n})", "error": f"framing-error({n})"}[kind]


def check_outcome(cls, fam, kind, n, res):
    from dali import frame, command
    from dali.exceptions import MissingResponse, ResponseError
    arg = None if kind == "none" else (frame.BackwardFrame(n) if kind == "clean" else frame.BackwardFrameError(n))
    tag = f"{cls.__module__.replace('dali.', '')}.{cls.__qualname__}"
    wit = {"cls": tag, "outcome": outcome_name(kind, n)}
    res.evaluations += 1
    res.distinct += 1
    try:
        r = cls(arg)
    except Exception as e:
        res.violation(f"C06/construct-raised/{tag}", f"{tag}({outcome_name(kind, n)}) raised {type(e).__name__}", wit)
        return
    res.hit("outcomes_checked")
    try:
        raw = r.raw_value
    except Exception as e:
        raw = e
    if raw is not arg:
        res.violation(f"C06/raw-value/{tag}", f"raw_value is {raw!r}, not the frame passed in", wit)

    def val():
        try:
            return ("ok", r.value)
        except Exception as e:
            return ("exc", e)

    st, v = val()
    tolerant_exc = st == "exc" and isinstance(v, (MissingResponse, ResponseError))

    def bad(what):
        res.violation(f"C06/{fam}/{kind}/{tag}", f"{tag} on {outcome_name(kind, n)}: {what}", wit)

    if fam == "yesno":
        want = kind != "none"
        if st != "ok" or v is not want:
            bad(f"value is {v!r}, a yes/no response is true exactly when anything was received ({want})")
    elif fam in ("numeric", "mask"):
        if kind == "clean":
            want = "MASK" if (fam == "mask" and n == 255) else n
            if st != "ok" or v != want or (want != "MASK" and (not isinstance(v, int) or isinstance(v, bool))):
                bad(f"value is {v!r}, expected {want!r}")
        else:
            # the marker must be distinguishable from every reading of a clean frame (integers and "MASK")
            if st != "ok" or (isinstance(v, int) and not isinstance(v, bool)) or v == "MASK":
                bad(f"value is {v!r} for a missing/garbled answer; expected a non-integer marker that no clean frame yields")
    elif fam == "bitmap":
        bits = list(cls.bits)
        from spec import response_bits
        row = response_bits.BITS.get(tag)
        if row is None and cls.bits:
            res.observe("bitmap-class-without-spec-row", tag)
        elif row is not None:
            res.hit("bit_tables_compared")
            if [b for b in bits] + [None] * (8 - len(bits)) != list(row) + [None] * (8 - len(row)):
                k = next((i for i in range(8) if (bits + [None] * 8)[i] != (list(row) + [None] * 8)[i]), 0)
                res.violation(f"C06/bitmap/bit-table/{tag}", f"{tag}: bit {k} is named {(bits + [None] * 8)[k]!r}, the answer's table in the "
                              f"standard names it {(list(row) + [None] * 8)[k]!r}", wit)
                return
            bits = list(row)
        try:
            status = ("ok", r.status)
        except Exception as e:
            status = ("exc", e)
        names = [b for i, b in enumerate(bits) if b and (n >> i) & 1] if kind == "clean" else None
        if kind == "clean":
            if status[0] != "ok" or list(status[1]) != names:
                bad(f"status is {status[1]!r}, the set bits of {n:#04x} are named {names}")
        else:
            if status[0] == "exc":
                if not isinstance(status[1], (MissingResponse, ResponseError)):
                    bad(f"status raised {type(status[1]).__name__}")
            elif any(x in [b for b in bits if b] for x in status[1]):
                bad(f"status lists bit names {status[1]!r} although no clean frame was received")
        for i, b in enumerate(bits):
            if not b:
                continue
            attr = b.replace(" ", "_").replace("-", "")
            try:
                got = ("ok", getattr(r, attr))
            except Exception as e:
                got = ("exc", e)
            if kind == "clean":
                if got[0] != "ok" or got[1] is not bool((n >> i) & 1):
                    bad(f"named bit {attr!r} reads {got[1]!r}, bit {i} of {n:#04x} is {(n >> i) & 1}")
            else:
                if got[0] == "exc" and not isinstance(got[1], (MissingResponse, ResponseError)):
                    bad(f"named bit {attr!r} raised {type(got[1]).__name__}")
                elif got[0] == "ok" and got[1]:
                    bad(f"named bit {attr!r} reads {got[1]!r} although no clean frame was received")
                elif got[0] == "ok" and got[1] is not None:
                    res.observe("bitmap-bit-not-None-when-missing", f"{tag}.{attr} = {got[1]!r}")
        # a name that is no bit of this answer is an AttributeError (not a silent False / None)
        if kind != "error" and n in (0, 255):
            for bogus in ("no_such_bit", "lamp_failure_x", "bits_", "status_"):
                try:
                    x = getattr(r, bogus)
                    bad(f"attribute {bogus!r} reads {x!r}; only the named bits of the answer are attributes")
                except AttributeError:
                    res.add("unknown_bit_names_rejected")
                except Exception as e:
                    bad(f"attribute {bogus!r} raised {type(e).__name__}")
        # the generic 'error' flag of bitmap responses that do not redefine it
        from dali import command
        if not any("error" in vars(k) for k in cls.__mro__ if k is not command.BitmapResponse
                   and issubclass(k, command.BitmapResponse)):
            try:
                e = r.error
                if bool(e) != (kind == "error"):
                    bad(f".error is {e!r}")
            except Exception as ex:
                bad(f".error raised {type(ex).__name__}")
    if fam == "generic" or (fam == "bitmap" and not any(
            "value" in vars(k) for k in cls.__mro__ if k is not command.Response and k is not object)):
        # bitmap responses inherit .value from Response: the frame itself, whatever its bits say
        if kind == "clean":
            if st != "ok" or v is not arg:
                bad(f"value is {v!r}; a generic response hands back the frame itself")
        elif kind == "none":
            if not ((st == "ok" and v is None) or (st == "exc" and isinstance(v, MissingResponse))):
                bad(f"value gave {v!r} for a missing answer; expected None or MissingResponse")
        else:
            if not (st == "exc" and isinstance(v, ResponseError)):
                bad(f"value gave {v!r} for a garbled answer; expected ResponseError")
    elif fam in ("enum", "enum-custom"):
        en = cls.enumerator
        if en is None:
            # abstract base: behaves like the generic family for clean frames
            if kind == "error" and not (st == "exc" and isinstance(v, ResponseError)):
                bad(f"value gave {v!r} for a garbled answer; expected ResponseError")
        else:
            defined = {int(m) for m in en}
            if kind == "clean" and n in defined:
                if st != "ok" or not isinstance(v, en) or int(v) != n:
                    bad(f"value is {v!r}, expected {en(n)!r}")
            elif kind == "clean":
                ok = (st == "exc" and isinstance(v, ValueError)) or \
                     (fam == "enum-custom" and st == "ok" and not isinstance(v, enum.Enum) and not isinstance(v, int))
                if not ok:
                    bad(f"undefined code {n} gave {v!r}; expected ValueError" +
                        (" or a documented non-member marker" if fam == "enum-custom" else ""))
            elif kind == "none":
                if not ((st == "ok" and v is None) or tolerant_exc):
                    bad(f"value gave {v!r} for a missing answer")
            else:
                ok = (st == "exc" and isinstance(v, ResponseError)) or \
                     (fam == "enum-custom" and st == "ok" and not isinstance(v, enum.Enum) and not isinstance(v, int))
                if not ok:
                    bad(f"value gave {v!r} for a garbled answer; expected ResponseError")
    if kind == "clean":
        for (ctag, attr), fn in DERIVED.items():
            if ctag == tag:
                res.hit("derived_accessors_checked")
                try:
                    gotd = getattr(r, attr)
                except Exception as e:
                    gotd = e
                wantd = fn(n)
                if isinstance(gotd, Exception) or gotd != wantd or (isinstance(wantd, bool) and bool(gotd) is not wantd):
                    bad(f".{attr} is {gotd!r} for answer {n:#04x}; the answer byte says {wantd!r}")
    # reading is idempotent: a verdict reported once is the verdict of every later read, also after str()
    def same(a, b):
        return (a[0] == b[0] == "exc" and type(a[1]) is type(b[1])) or (a[0] == b[0] == "ok" and (a[1] is b[1] or a[1] == b[1]))
    res.hit("rereads_checked")
    again = val()
    if not same((st, v), again):
        res.violation(f"C06/reread/{fam}/{kind}", f"{tag} on {outcome_name(kind, n)}: first read of .value gave {v!r}, the second {again[1]!r}", wit)
    try:
        r2 = cls(arg)
        try:
            str(r2)
        except Exception:
            pass
        try:
            after = ("ok", r2.value)
        except Exception as e:
            after = ("exc", e)
        if not same((st, v), after) and not (st == "ok" and v is arg and after == ("ok", arg)):
            res.violation(f"C06/reread/{fam}/{kind}", f"{tag} on {outcome_name(kind, n)}: .value gives {v!r} on a fresh object but {after[1]!r} "
                          "after the object was rendered as text", wit)
    except Exception:
        pass
    # a response is a view of the frame it wraps: after the caller rewrote that frame in place every accessor reads the new byte
    if kind == "clean" and n % 8 == 5:
        n2 = n ^ 0x5A
        res.hit("live_view_checked")
        try:
            rr = cls(frame.BackwardFrame(n))
            for a_ in ("value", "status") + tuple(at for (ct, at) in DERIVED if ct == tag):
                try:
                    getattr(rr, a_)
                except Exception:
                    pass
            str(rr)
            rr.raw_value[7:0] = n2
            fresh = cls(frame.BackwardFrame(n2))
            for a_ in ("value", "status") + tuple(at for (ct, at) in DERIVED if ct == tag) + ("__str__",):
                def rd(o):
                    try:
                        v_ = str(o) if a_ == "__str__" else getattr(o, a_)
                        return ("ok", v_ if not isinstance(v_, frame.Frame) else ("frame", v_.as_integer))
                    except Exception as e:
                        return ("exc", type(e).__name__)
                g1, g2 = rd(rr), rd(fresh)
                if g1 != g2:
                    bad(f"after its frame was rewritten from {n:#04x} to {n2:#04x}, {a_} still reads {g1[1]!r}; a fresh response on {n2:#04x} reads {g2[1]!r}")
                    break
        except Exception as e:
            res.observe("live-view-probe-raised", f"{tag}: {type(e).__name__}")
    # text rendering is total w.r.t. MissingResponse / ResponseError
    res.hit("str_checked")
    try:
        s = str(r)
        if not isinstance(s, str):
            res.violation(f"C06/str-not-str/{tag}", f"str() returned {type(s).__name__}", wit)
    except (MissingResponse, ResponseError) as e:
        res.violation(f"C06/str-raises/{type(e).__name__}/{kind}",
                      f"str({tag}({outcome_name(kind, n)})) raised {type(e).__name__}", wit)
    except Exception as e:
        res.observe(f"str-raises-{type(e).__name__}", f"str({tag}({outcome_name(kind, n)}))")
    # ... by every route text is made: repr(), %-formatting, format(), an f-string, a list of responses being printed
    for how, fn in (("repr", repr), ("%r", lambda x: "%r" % (x,)), ("%s", lambda x: "%s" % (x,)), ("format", lambda x: format(x, "")),
                    ("f-string", lambda x: f"{x} {x!r}"), ("str-of-list", lambda x: str([x]))):
        try:
            if not isinstance(fn(r), str):
                res.violation(f"C06/str-not-str/{tag}", f"{how} returned a non-string", wit)
        except (MissingResponse, ResponseError) as e:
            res.violation(f"C06/str-raises/{type(e).__name__}/{kind}/{how}",
                          f"{how} of {tag}({outcome_name(kind, n)}) raised {type(e).__name__}", wit)
            break
        except Exception as e:
            res.observe(f"{how}-raises-{type(e).__name__}", f"{tag}({outcome_name(kind, n)})")
    # copies made by the standard library carry the same bus outcome: nothing received stays nothing, a framing error stays a
    # framing error, a clean byte stays that byte - and read like the original
    if n % 16 == 0 or kind != "clean":
        import copy
        import pickle
        for how, fn in (("copy", copy.copy), ("deepcopy", copy.deepcopy), ("pickle", lambda o: pickle.loads(pickle.dumps(o)))):
            try:
                twin = fn(r)
            except Exception as e:
                res.observe(f"{how}-raises-{type(e).__name__}", tag)
                continue
            res.hit("clones_checked")

            def outcome(x):
                rv = x.raw_value
                return "none" if rv is None else (("error", rv.as_integer) if rv.error else ("clean", rv.as_integer))

            def reading(x):
                try:
                    v_ = x.value
                    return ("ok", v_ if not isinstance(v_, frame.Frame) else ("frame", v_.as_integer, v_.error))
                except Exception as e:
                    return ("exc", type(e).__name__)
            try:
                same = type(twin) is type(r) and outcome(twin) == outcome(r) and reading(twin) == reading(r)
                shown = f"{type(twin).__name__} outcome {outcome(twin)} value {reading(twin)}"
            except Exception as e:
                same, shown = False, f"reading it raised {type(e).__name__}"
            if not same:
                res.violation(f"C06/clone-differs/{how}/{kind}", f"{how} of {tag}({outcome_name(kind, n)}): {shown}; the original has "
                              f"outcome {outcome(r)} value {reading(r)}", wit)
                break


def check_bad_args(cls, res):
    from dali import frame
    tag = f"{cls.__module__.replace('dali.', '')}.{cls.__qualname__}"
    bads = [("str", "wibble"), ("int", 5), ("zero", 0), ("float", 1.5), ("bytes", b"\xff"), ("list", [255]),
            ("tuple", (255,)), ("plain-frame", frame.Frame(8, 1)), ("forward-frame", frame.ForwardFrame(8, 1)),
            ("true", True), ("false", False), ("class", frame.BackwardFrame)]
    for name, b in bads:
        res.evaluations += 1
        res.distinct += 1
        res.hit("bad_args_checked")
        try:
            cls(b)
        except TypeError:
            continue
        except Exception as e:
            res.violation(f"C06/bad-arg-wrong-exception/{name}", f"{tag}({name}) raised {type(e).__name__}, documented TypeError",
                          {"cls": tag, "arg": name})
            continue
        res.violation(f"C06/bad-arg-accepted/{name}", f"{tag}({b!r}) was accepted; a response can only be built from a "
                      "backward frame or None", {"cls": tag, "arg": name})


def run_shard(desc, tier, seed):
    res = Result()
    classes = response_classes()
    if "replay" in desc:
        desc = {"part": 0, "of": 1}
    mine = [c for i, c in enumerate(classes) if i % desc["of"] == desc["part"]]
    for cls in mine:
        fam = family(cls)
        res.hit("classes")
        res.add("family_" + fam)
        check_outcome(cls, fam, "none", 0, res)
        for n in range(256):
            check_outcome(cls, fam, "clean", n, res)
            check_outcome(cls, fam, "error", n, res)
        check_bad_args(cls, res)
    if mine:
        res.sample({"class": mine[0].__qualname__, "family": family(mine[0]),
                    "outcomes": ["none", "clean(0..255)", "framing-error(0..255)"]})
    res.extra["response_classes"] = len(classes)
    return res
