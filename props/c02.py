"""C02 - every constructible command or event decodes back to itself; illegal arguments are rejected.

Workload: every class named by the spec rows (constructor family = row kind) and every event class,
with all destinations / instances / parameters (strided in the quick tier); plus out-of-range and
wrong-type values at every argument position.  Oracle: decode(obj.frame) has the same class, equal
fields (== and by (kind, number)), the same text; a per-shard table detects two different commands
sharing a frame; illegal arguments must raise.
"""
import importlib

from vlib.common import Result, rng, short_tb
from models import addr_ref as R

PROP = "C02"
LEVEL = "exploration"
CONTRACTS = "light"
RULE = ("one case = one (class, argument tuple); legal tuples are enumerated per constructor family, illegal ones "
        "are one-outside-each-end and wrong types per argument position; distinct = distinct (class, arguments)")
ASSUMPTIONS = ["the constructor signature of a command class is determined by its row kind in spec/iec62386_tables.py",
               "bool is accepted as int by the library and is not used as a wrong type",
               "only the argument categories listed by the property are judged as 'must be rejected'"]
EXHAUSTIVE = {"quick": False, "thorough": True}
REQUIRED_ANCHORS = {"all": ["roundtrips", "rejections_checked", "event_roundtrips", "classes_covered"]}
SHARD_TIMEOUT = {"quick": 600, "thorough": 3000}


def plan(tier, seed):
    n = 16 if tier == "quick" else 48
    sh = [{"kind": "cmds", "part": p, "of": n} for p in range(n)]
    ne = 8 if tier == "quick" else 32
    sh += [{"kind": "events", "part": p, "of": ne} for p in range(ne)]
    sh.append({"kind": "reject"})
    sh.append({"kind": "coverage"})
    # an application that derives its own classes from the library's (a traced command, a labelled address): every *other*
    # class must round-trip exactly as before, a derived class may only stand in for its own parent
    sh += [{"kind": "cmds", "part": p, "of": 4, "usersub": True} for p in range(4)]
    return sh


def _import_all():
    for m in ("gear.general", "gear.led", "gear.emergency", "gear.incandescent", "gear.converter", "gear.colour",
              "device.general", "device.pushbutton", "device.occupancy", "device.light"):
        importlib.import_module("dali." + m)


def gear_dests(address, tier, r):
    out = [("obj", a) for a in R.all_gear(address)] + [("int", i) for i in range(64)]
    return out


def describe_dest(d):
    return R.describe(d)


class Table:
    """(len, devicetype, frame int) -> canonical description of the command that produced it."""

    def __init__(self, res):
        self.t = {}
        self.res = res

    def put(self, n, dt, v, canon):
        k = (n, dt, v)
        old = self.t.get(k)
        if old is None:
            self.t[k] = canon
        elif old != canon:
            self.res.violation("C02/shared-frame", f"two different commands share frame {v:#x}: {old} and {canon}",
                               {"len": n, "dt": dt, "frame": v, "a": repr(old), "b": repr(canon)})


USERSUB = set()       # classes an application derived from library classes (usersub shards only)
_THIN = [0]
_PRIME = [0]
PRIMERS = [(16, 0xC100 + n) for n in (1, 2, 3, 4, 5, 6, 7, 8, 0, 255)] + [(16, 0xA300), (16, 0xC355), (16, 0xA500),
                                                                          (24, 0xC13001), (24, 0xC10000), (24, 0xC50102)]


_CLONE = [0]
_ALIVE = []


def roundtrip(res, table, cls, build, canon, fields, dt=None, dmap=None, ctx=None):
    """build() -> object; fields(obj) -> comparable tuple (by kind/number); compare with the decoded object."""
    from dali import command
    if USERSUB:
        _THIN[0] += 1
        if _THIN[0] % 4:
            return            # the usersub pass visits every class on a quarter of the arguments
    res.evaluations += 1
    try:
        obj = build()
    except Exception as e:
        res.violation(f"C02/legal-args-rejected/{cls.__name__}", f"{cls.__name__}{canon} raised {type(e).__name__}: {e}",
                      {"cls": cls.__name__, "args": repr(canon)})
        return
    f = obj.frame
    n, v = len(f), f.as_integer
    # objects stay alive while the next few are built: what a command's frame reads must not change because other commands
    # (of the same class or another) were constructed afterwards
    _ALIVE.append((obj, n, v, cls.__name__, repr(canon)))
    if len(_ALIVE) > 8:
        o_, n_, v_, cn_, ca_ = _ALIVE.pop(0)
        res.hit("kept_alive_rechecked")
        try:
            now_ = (len(o_.frame), o_.frame.as_integer)
        except Exception as e:
            now_ = ("raised", type(e).__name__)
        if now_ != (n_, v_):
            res.violation(f"C02/frame-changed-later/{cn_}", f"{cn_}{ca_}: its frame read {v_:#x} when it was built and reads "
                          f"{now_[1] if isinstance(now_[1], str) else hex(now_[1])} after eight more commands were constructed",
                          {"cls": cn_, "args": ca_, "frame": v_})
    devtype = cls.devicetype if dt is None else dt
    # the context of a device/instance-scheme event (the instance type the map supplies) is part of the key
    table.put(n, (devtype, ctx), v, (cls.__module__ + "." + cls.__name__,) + tuple(canon))
    # what was decoded just before must not matter: every other round trip is preceded by the decode of a frame that
    # sets context on the bus (ENABLE DEVICE TYPE n, a DTR load, INITIALISE)
    _PRIME[0] += 1
    if _PRIME[0] % 2:
        try:
            from dali import frame as _F
            pn, pv = PRIMERS[(_PRIME[0] // 2) % len(PRIMERS)]
            command.from_frame(_F.ForwardFrame(pn, pv))
        except Exception:
            pass
    try:
        back = command.from_frame(f, devicetype=devtype, dev_inst_map=dmap)
    except Exception as e:
        res.violation(f"C02/decode-raised/{cls.__name__}", f"decoding {cls.__name__}{canon} raised {type(e).__name__}",
                      {"cls": cls.__name__, "args": repr(canon), "frame": v, "tb": short_tb(e)})
        return
    res.hit("roundtrips")
    if USERSUB and type(back) in USERSUB and issubclass(type(back), cls):
        res.hit("usersub_stand_ins")
    elif type(back) is not cls:
        res.violation(f"C02/class-differs/{cls.__name__}",
                      f"{cls.__name__}{canon} -> frame {v:#x} -> decodes as {type(back).__name__} ({back})",
                      {"cls": cls.__name__, "args": repr(canon), "frame": v, "decoded": str(back)})
        return
    try:
        fa, fb = fields(obj), fields(back)
        eq_ok = _fields_eq(obj, back)
    except Exception as e:
        res.violation(f"C02/field-access-raised/{cls.__name__}", f"reading fields raised {type(e).__name__}: {e}",
                      {"cls": cls.__name__, "args": repr(canon)})
        return
    if fa != fb or not eq_ok:
        res.violation(f"C02/fields-differ/{cls.__name__}",
                      f"{cls.__name__}{canon}: fields {fa} decode back as {fb} (== on fields: {eq_ok})",
                      {"cls": cls.__name__, "args": repr(canon), "frame": v})
        return
    if fa[:len(canon)] != tuple(canon)[:len(fa)] and canon and fa and False:
        pass
    sa, sb = str(obj), str(back)
    if type(back) is not cls:
        sb = sb.replace(type(back).__name__, cls.__name__, 1)     # an accepted stand-in prints under its own name
    if sa != sb:
        res.violation(f"C02/text-differs/{cls.__name__}", f"text {sa!r} decodes back as {sb!r}",
                      {"cls": cls.__name__, "args": repr(canon), "frame": v})
        return
    # copies made by the standard library (an application queueing, logging or shipping commands to a worker) are the same
    # command: class, fields, frame and text - every 16th object, all three ways
    _CLONE[0] += 1
    if _CLONE[0] % 16 == 0 and not USERSUB:
        import copy
        import pickle
        for how, fn in (("copy", copy.copy), ("deepcopy", copy.deepcopy), ("pickle", lambda o: pickle.loads(pickle.dumps(o)))):
            try:
                twin = fn(obj)
            except Exception as e:
                res.observe(f"{how}-raises-{type(e).__name__}", cls.__name__)
                continue
            res.hit("clones_checked")
            try:
                same = (type(twin) is cls and len(twin.frame) == n and twin.frame.as_integer == v and fields(twin) == fa
                        and _fields_eq(obj, twin) and str(twin) == sa)
                shown = f"{type(twin).__name__} {fields(twin)} frame {twin.frame.as_integer:#x} text {str(twin)!r}"
            except Exception as e:
                same, shown = False, f"reading it raised {type(e).__name__}: {e}"
            if not same:
                res.violation(f"C02/clone-differs/{how}/{cls.__name__}", f"{how} of {sa} (frame {v:#x}) is {shown}",
                              {"cls": cls.__name__, "args": repr(canon), "frame": v, "how": how})
                break


_FIELD_NAMES = ("destination", "param", "power", "address", "broadcast", "param_1", "param_2", "instance",
                "short_address", "instance_number", "instance_group", "device_group", "instance_type",
                "event_data", "illuminance", "movement", "occupied", "repeat", "sensor_type")


def _fields_eq(a, b):
    for nm in _FIELD_NAMES:
        ha, hb = hasattr(a, nm), hasattr(b, nm)
        if ha != hb:
            return False
        if ha:
            x, y = getattr(a, nm), getattr(b, nm)
            if not (x == y) or (x != y):
                return False
    return True


def cmd_fields(obj):
    out = []
    for nm in _FIELD_NAMES:
        if hasattr(obj, nm):
            x = getattr(obj, nm)
            if nm in ("destination", "instance", "short_address") and x is not None and not isinstance(x, (int, str)):
                x = R.describe(x)
            elif nm == "event_data" and isinstance(x, tuple):
                x = tuple(x)
            out.append((nm, x))
    return tuple(out)


# --------------------------------------------------------------------------- commands

def define_user_subclasses():
    """What an application may do with the public classes: derive its own."""
    from dali import address
    import dali.gear.general as gg
    import dali.gear.led as led
    import dali.gear.colour as colour
    import dali.device.general as dg
    import dali.device.pushbutton as pb
    if USERSUB:
        return
    bases = [gg.GoToScene, gg.Off, gg.QueryStatus, gg.SetScene, gg.DTR0, gg.QueryGroupsZeroToSeven, gg.AddToGroup, led.QueryGearType,
             colour.Activate, dg.IdentifyDevice, dg.QueryInstanceType, dg.DTR1, dg.SetEventFilter, pb.ButtonPressed]
    for k, b in enumerate(bases):
        USERSUB.add(type(f"Traced{b.__name__}", (b,), {"__module__": "application"}))
    # labelled addresses: they are addresses like their parents and never take part in decoding
    for b in (address.GearShort, address.GearGroup, address.DeviceShort, address.DeviceGroup, address.InstanceNumber,
              address.InstanceGroup, address.InstanceType, address.FeatureInstanceNumber):
        type(f"Labelled{b.__name__}", (b,), {"__module__": "application"})


def run_cmds(desc, tier, seed, res):
    from dali import address
    from spec import iec62386_tables as T
    _import_all()
    rows = T.all_rows()
    table = Table(res)
    quick = tier == "quick"
    r = rng(seed, "C02", "cmds", desc["part"])
    if desc.get("usersub"):
        define_user_subclasses()
        quick = True
    gear_objs = R.all_gear(address)
    dev_objs = R.all_device(address)
    insts = R.all_instances(address)
    work = []   # (row, cls)
    for i, row in enumerate(rows):
        if i % desc["of"] == desc["part"]:
            work.append(row)
    for row in work:
        try:
            cls = T.resolve(row)
        except Exception as e:
            res.violation("C02/class-missing", f"spec row {row.name} names {row.lib}, which does not exist", {"row": row.lib})
            continue
        res.hit("classes_covered")
        k = row.kind
        if k in ("std", "stdn", "dapc"):
            dests = [(R.describe(a), a) for a in gear_objs] + [(("GearShort", i), i) for i in range(64)]
            for dd, d in dests:
                if k == "std":
                    roundtrip(res, table, cls, lambda: cls(d), (dd,), cmd_fields)
                elif k == "stdn":
                    for p in range(16):
                        roundtrip(res, table, cls, lambda: cls(d, p), (dd, p), cmd_fields)
                else:
                    powers = range(256)
                    for p in powers:
                        roundtrip(res, table, cls, lambda: cls(d, p), (dd, p), cmd_fields)
                    for name, val in (("OFF", 0), ("MASK", 255), ("off".upper(), 0), ("".join(["MA", "SK"]), 255)):
                        roundtrip(res, table, cls, lambda: cls(d, name), (dd, val), cmd_fields)
        elif k == "spc0":
            roundtrip(res, table, cls, lambda: cls(), (), cmd_fields)
        elif k == "spc1":
            for p in range(256):
                roundtrip(res, table, cls, lambda: cls(p), (p,), cmd_fields)
        elif k == "spca":
            # "MASK" as a literal and as an equal string that is another object (read from a file, a command line, upper())
            for a in list(range(64)) + ["MASK", "".join(["MA", "SK"]), "mask".upper()]:
                roundtrip(res, table, cls, lambda: cls(a), (a,), cmd_fields)
        elif k == "init":
            roundtrip(res, table, cls, lambda: cls(broadcast=True), ("broadcast",), cmd_fields)
            roundtrip(res, table, cls, lambda: cls(), ("unaddressed",), cmd_fields)
            roundtrip(res, table, cls, lambda: cls(broadcast=False, address=None), ("unaddressed",), cmd_fields)
            for a in range(64):
                roundtrip(res, table, cls, lambda: cls(address=a), ("short", a), cmd_fields)
                roundtrip(res, table, cls, lambda: cls(False, a), ("short", a), cmd_fields)
        elif k == "dev":
            for d in dev_objs:
                roundtrip(res, table, cls, lambda: cls(d), (R.describe(d),), cmd_fields)
        elif k == "inst":
            ds = dev_objs if not quick else dev_objs[::3] + dev_objs[-2:]
            for d in ds:
                for ins in insts:
                    di = R.describe(ins)
                    if di[0] == "Device":
                        res.add("excluded_instance_device_0xFE")
                        continue
                    roundtrip(res, table, cls, lambda: cls(d, ins), (R.describe(d), di), cmd_fields)
        elif k == "dsp0":
            roundtrip(res, table, cls, lambda: cls(), (), cmd_fields)
        elif k == "dsp1":
            for p in range(256):
                roundtrip(res, table, cls, lambda: cls(p), (p,), cmd_fields)
        elif k == "dsp2":
            for a in range(256):
                bs = range(256) if not quick else sorted({0, 1, 0x7F, 0x80, 0xFE, 0xFF, a} | {r.getrandbits(8) for _ in range(24)})
                for b in bs:
                    roundtrip(res, table, cls, lambda: cls(a, b), (a, b), cmd_fields)
    res.distinct = len(table.t)
    if work:
        res.sample({"classes": [w.lib for w in work[:3]], "n_classes": len(work), "frames_in_table": len(table.t)})


# --------------------------------------------------------------------------- events

def run_events(desc, tier, seed, res):
    from dali import address
    from dali.device import general as dg, pushbutton, occupancy, light
    from dali.device.helpers import DeviceInstanceTypeMapper
    from models import events_ref as E
    _import_all()
    quick = tier == "quick"
    table = Table(res)
    r = rng(seed, "C02", "events", desc["part"])
    part, of = desc["part"], desc["of"]

    def mapper(a, i, t):
        m = DeviceInstanceTypeMapper()
        m.add_type(short_address=a, instance_number=i, instance_type=t)
        return m

    # addressing-scheme argument sets; partitioned over shards by a running counter
    schemes = []
    for a in range(64):
        schemes.append(("device", dict(short_address=a)))
        schemes.append(("device_obj", dict(short_address=address.DeviceShort(a))))
        for i in range(32):
            schemes.append(("device_instance", dict(short_address=a, instance_number=i)))
    for g in range(32):
        schemes.append(("device_group", dict(device_group=g)))
        schemes.append(("instance", dict(instance_number=g)))
        schemes.append(("instance_group", dict(instance_group=g)))
    schemes = [s for n, s in enumerate(schemes) if n % of == part]
    if quick:
        schemes = [s for n, s in enumerate(schemes) if s[0] != "device_instance" or n % 4 == 0]

    pb_classes = [getattr(pushbutton, n) for n in E.PUSHBUTTON_EVENTS.values()]
    occ_tuples = [occupancy.OccupancyEvent.EventData(movement=m, occupied=o, repeat=rp, sensor_type=st)
                  for m in (False, True) for o in (False, True) for rp in (False, True)
                  for st in ("presence", "movement")]

    def canon_of(sname, kw, extra):
        c = []
        for k in ("short_address", "instance_number", "device_group", "instance_group"):
            v = kw.get(k)
            if v is not None and not isinstance(v, int):
                v = v.address
            c.append(v)
        return tuple(c) + tuple(extra)

    def go(cls, sname, kw, data, itype, extra, datakw=True, builder=None):
        kws = dict(kw)
        if datakw:
            kws["data"] = data
        dmap = None
        if sname == "device_instance":
            sa = kw["short_address"] if isinstance(kw["short_address"], int) else kw["short_address"].address
            dmap = mapper(sa, kw["instance_number"], itype) if itype is not None else None
        res.hit("event_roundtrips")
        build = (lambda: builder(kws)) if builder else (lambda: cls(**kws))
        roundtrip(res, table, cls, build, canon_of(sname, kw, extra), cmd_fields, dt=0, dmap=dmap,
                  ctx=(itype if sname == "device_instance" else None))

    for sname, kw in schemes:
        for ci, cls in enumerate(pb_classes):
            go(cls, sname, kw, None, 1, (), datakw=False)
            # the class is the event: a data= argument cannot turn it into another class's frame (accepted and ignored, or refused)
            for dval in (0, 1, (ci * 3 + 2) % 16, 1023):
                res.hit("pushbutton_data_argument")
                try:
                    e = cls(data=dval, **kw)
                except Exception:
                    continue
                plain = cls(**kw)
                if e.frame != plain.frame:
                    res.violation(f"C02/event-data-argument/{cls.__name__}",
                                  f"{cls.__name__}(data={dval}, {kw}) emits {e.frame.as_integer:#08x}, without the argument "
                                  f"{plain.frame.as_integer:#08x}: the frame of another event", {"cls": cls.__name__, "data": dval})
                    break
        for t in occ_tuples:
            go(occupancy.OccupancyEvent, sname, kw, t, 3, (tuple(t),))
        for d in (range(16) if not quick else (0, 5, 10, 15)):
            go(occupancy.OccupancyEvent, sname, kw, d, 3, (tuple(E.occupancy_flags(d).values()),))
        if quick:
            lum = sorted({0, 1, 2, 255, 256, 511, 512, 1022, 1023, r.getrandbits(10), r.getrandbits(10)})
        else:
            lum = range(1024) if sname != "device_instance" else sorted(
                {0, 1, 255, 256, 511, 512, 1023} | {r.getrandbits(10) for _ in range(24)})
        for d in lum:
            go(light.LightEvent, sname, kw, d, 4, (d,))
        # unknown events: (instance type, data) pairs the standard's tables do not decode
        utypes = [0, 2, 5, 17, 31] if quick else [t for t in range(32) if t not in (1, 3, 4)]
        for t in utypes:
            for d in (0, 1, 1023, r.getrandbits(10)):
                _unknown(go, dg, sname, kw, t, d)
        for d in (3, 4, 6, 7, 8, 10, 13, 16, 512, 1023):
            _unknown(go, dg, sname, kw, 1, d)
        for d in (16, 17, 32, 0x3F0, 1023):
            _unknown(go, dg, sname, kw, 3, d)
        if sname == "device_instance":
            for d in (0, 1, 1023, r.getrandbits(10)):
                kws = dict(kw, data=d)
                res.hit("event_roundtrips")
                roundtrip(res, table, dg.AmbiguousInstanceType, lambda: dg.AmbiguousInstanceType(**kws),
                          canon_of(sname, kw, (d,)), cmd_fields, dt=0, dmap=None, ctx="no-map")
    res.distinct = len(table.t)
    res.sample({"event_schemes": [s[0] for s in schemes[:3]], "n_scheme_argument_sets": len(schemes)})


def _unknown(go, dg, sname, kw, t, d):
    go(dg.UnknownEvent, sname, kw, d, t, (t, d), builder=lambda kws: dg.UnknownEvent(instance_type=t, **kws))


_unknown_cache = {}


def _mk_unknown(cls, t):
    """UnknownEvent takes instance_type as an extra argument; bind it, keep the class identity for comparison."""
    key = (cls, t)
    if key not in _unknown_cache:
        class Bound:
            __name__ = cls.__name__
            __module__ = cls.__module__
            devicetype = cls.devicetype

            def __new__(kls, **kw):
                return cls(instance_type=t, **kw)
        _unknown_cache[key] = Bound
    return _unknown_cache[key]


# --------------------------------------------------------------------------- rejections

BAD_TYPES = [("none", None), ("str", "5"), ("float", 1.5), ("bytes", b"\x01"), ("list", [1])]


def expect_reject(res, what, cat, build):
    res.evaluations += 1
    res.distinct += 1
    res.hit("rejections_checked")
    try:
        obj = build()
    except Exception:
        return
    try:
        fr = obj.frame if hasattr(obj, "frame") else None
        desc = f"frame {fr.as_integer:#x}" if fr is not None else repr(obj)
    except Exception:
        desc = "?"
    res.violation(f"C02/illegal-accepted/{cat}", f"{what} was accepted silently ({desc})", {"what": what})


def run_reject(tier, seed, res):
    from dali import address
    from spec import iec62386_tables as T
    _import_all()
    gs, ds = address.GearShort(1), address.DeviceShort(1)
    i1 = address.InstanceNumber(1)
    # address / instance constructors
    for name, hi in (("GearShort", 63), ("DeviceShort", 63), ("GearGroup", 15), ("DeviceGroup", 31),
                     ("InstanceNumber", 31), ("InstanceGroup", 31), ("InstanceType", 31),
                     ("FeatureInstanceNumber", 31), ("FeatureInstanceGroup", 31), ("FeatureInstanceType", 31)):
        cls = getattr(address, name)
        for bad in (-1, hi + 1, hi + 64, 256, -64):
            expect_reject(res, f"address.{name}({bad})", f"address-range/{name}", lambda: cls(bad))
        for tn, tv in BAD_TYPES:
            expect_reject(res, f"address.{name}({tv!r})", f"address-type/{name}", lambda: cls(tv))
    wrong_gear_dest = [("device-short", ds), ("device-group", address.DeviceGroup(1)),
                       ("device-broadcast", address.DeviceBroadcast()), ("abstract-address", address.Address())]
    wrong_dev_dest = [("gear-short", gs), ("gear-group", address.GearGroup(1)), ("gear-broadcast", address.GearBroadcast()),
                      ("abstract-address", address.Address())]
    for row in T.all_rows():
        try:
            cls = T.resolve(row)
        except Exception:
            continue
        nm = cls.__name__
        k = row.kind
        fam = {"std": "gear", "stdn": "gear", "dapc": "gear", "dev": "device", "inst": "device"}.get(k)
        if fam == "gear":
            tail = () if k == "std" else (1,)
            for tn, tv in BAD_TYPES:
                expect_reject(res, f"{nm}(destination={tv!r})", "destination-type", lambda: cls(tv, *tail))
            for bad in (-1, 64, 128, 255):
                expect_reject(res, f"{nm}(destination={bad})", "destination-range", lambda: cls(bad, *tail))
            for wn, w in wrong_gear_dest:
                expect_reject(res, f"{nm}(destination=<{wn}>)", "wrong-address-kind", lambda: cls(w, *tail))
            if k == "stdn":
                for bad in (-1, 16, 17, 255, 256):
                    expect_reject(res, f"{nm}(dest, {bad})", "param4-range", lambda: cls(gs, bad))
                for tn, tv in BAD_TYPES:
                    expect_reject(res, f"{nm}(dest, {tv!r})", "param4-type", lambda: cls(gs, tv))
                expect_reject(res, f"{nm}(dest)", "arity", lambda: cls(gs))
            if k == "dapc":
                for bad in (-1, 256, 257, 1000):
                    expect_reject(res, f"{nm}(dest, {bad})", "power-range", lambda: cls(gs, bad))
                for tv in (None, "5", 1.5, b"\x01", "off", "Mask"):
                    expect_reject(res, f"{nm}(dest, {tv!r})", "power-type", lambda: cls(gs, tv))
            if k == "std":
                expect_reject(res, f"{nm}(dest, 1)", "arity", lambda: cls(gs, 1))
        elif fam == "device":
            tail = () if k == "dev" else (i1,)
            for tn, tv in BAD_TYPES:
                expect_reject(res, f"{nm}(device={tv!r})", "destination-type", lambda: cls(tv, *tail))
            for wn, w in wrong_dev_dest:
                expect_reject(res, f"{nm}(device=<{wn}>)", "wrong-address-kind", lambda: cls(w, *tail))
            # an integer destination is wrapped as a *gear* short address and must not fit a 24-bit frame
            expect_reject(res, f"{nm}(device=5)", "wrong-address-kind", lambda: cls(5, *tail))
            if k == "inst":
                for tn, tv in BAD_TYPES + [("int", 3), ("address", ds), ("gear-address", gs)]:
                    expect_reject(res, f"{nm}(dev, instance={tv!r})", "instance-type", lambda: cls(ds, tv))
        elif k in ("spc1", "dsp1"):
            for bad in (-1, 256, 257, 65535):
                expect_reject(res, f"{nm}({bad})", "param8-range", lambda: cls(bad))
            for tn, tv in BAD_TYPES:
                expect_reject(res, f"{nm}({tv!r})", "param8-type", lambda: cls(tv))
            expect_reject(res, f"{nm}()", "arity", lambda: cls())
        elif k in ("spc0", "dsp0"):
            expect_reject(res, f"{nm}(1)", "arity", lambda: cls(1))
        elif k == "spca":
            for bad in (-1, 64, 127, 255):
                expect_reject(res, f"{nm}({bad})", "short-address-range", lambda: cls(bad))
            for tv in (None, "5", 1.5, b"\x01", "mask"):
                expect_reject(res, f"{nm}({tv!r})", "short-address-type", lambda: cls(tv))
        elif k == "init":
            for bad in (-1, 64, 255):
                expect_reject(res, f"{nm}(address={bad})", "short-address-range", lambda: cls(address=bad))
            for tv in ("5", 1.5, b"\x01"):
                expect_reject(res, f"{nm}(address={tv!r})", "short-address-type", lambda: cls(address=tv))
            expect_reject(res, f"{nm}(broadcast=True, address=1)", "conflicting", lambda: cls(broadcast=True, address=1))
        elif k == "dsp2":
            for bad in (-1, 256, 65535):
                expect_reject(res, f"{nm}({bad}, 0)", "param8-range", lambda: cls(bad, 0))
                expect_reject(res, f"{nm}(0, {bad})", "param8-range", lambda: cls(0, bad))
            for tn, tv in BAD_TYPES:
                expect_reject(res, f"{nm}({tv!r}, 0)", "param8-type", lambda: cls(tv, 0))
                expect_reject(res, f"{nm}(0, {tv!r})", "param8-type", lambda: cls(0, tv))
    # events
    from dali.device import pushbutton, occupancy, light, general as dg
    occ = occupancy.OccupancyEvent.EventData(movement=True, occupied=True)
    ev_classes = [(pushbutton.ButtonPressed, {}), (occupancy.OccupancyEvent, {"data": occ}),
                  (light.LightEvent, {"data": 5}), (_mk_unknown(dg.UnknownEvent, 9), {"data": 5})]
    for cls, base in ev_classes:
        nm = cls.__name__
        for bad in (-1, 64, 128):
            expect_reject(res, f"{nm}(short_address={bad})", "event-short-address-range",
                          lambda: cls(short_address=bad, **base))
            expect_reject(res, f"{nm}(short_address={bad}, instance_number=1)", "event-short-address-range",
                          lambda: cls(short_address=bad, instance_number=1, **base))
        for bad in (-1, 32, 33, 255):
            expect_reject(res, f"{nm}(instance_number={bad})", "event-instance-number-range",
                          lambda: cls(instance_number=bad, **base))
            expect_reject(res, f"{nm}(short_address=1, instance_number={bad})", "event-instance-number-range",
                          lambda: cls(short_address=1, instance_number=bad, **base))
            expect_reject(res, f"{nm}(device_group={bad})", "event-group-range", lambda: cls(device_group=bad, **base))
            expect_reject(res, f"{nm}(instance_group={bad})", "event-group-range", lambda: cls(instance_group=bad, **base))
        for tn, tv in BAD_TYPES[1:]:
            for field in ("short_address", "instance_number", "device_group", "instance_group"):
                expect_reject(res, f"{nm}({field}={tv!r})", "event-field-type", lambda: cls(**{field: tv}, **base))
        expect_reject(res, f"{nm}()", "event-no-scheme", lambda: cls(**base))
        expect_reject(res, f"{nm}(short_address=1, device_group=1)", "event-conflicting",
                      lambda: cls(short_address=1, device_group=1, **base))
        expect_reject(res, f"{nm}(device_group=1, instance_group=1)", "event-conflicting",
                      lambda: cls(device_group=1, instance_group=1, **base))
        expect_reject(res, f"{nm}(device_group=1, instance_number=1)", "event-conflicting",
                      lambda: cls(device_group=1, instance_number=1, **base))
        expect_reject(res, f"{nm}(short_address=<gear address>)", "wrong-address-kind",
                      lambda: cls(short_address=address.GearShort(1), **base))
        # the short-address field takes a short address: other kinds of address / instance objects would rewrite the
        # scheme bits and come back as some other event
        for wn, wrong in (("DeviceGroup", address.DeviceGroup(5)), ("DeviceBroadcast", address.DeviceBroadcast()),
                          ("DeviceBroadcastUnaddressed", address.DeviceBroadcastUnaddressed()),
                          ("InstanceNumber", address.InstanceNumber(1)), ("InstanceGroup", address.InstanceGroup(2)),
                          ("GearGroup", address.GearGroup(1)), ("GearBroadcast", address.GearBroadcast())):
            expect_reject(res, f"{nm}(short_address=<{wn}>)", "wrong-address-kind",
                          lambda: cls(short_address=wrong, **base))
            expect_reject(res, f"{nm}(short_address=<{wn}>, instance_number=1)", "wrong-address-kind",
                          lambda: cls(short_address=wrong, instance_number=1, **base))
    for bad in (-1, 1024, 1025, 65535):
        for kw in (dict(short_address=1), dict(instance_group=3), dict(short_address=1, instance_number=2)):
            expect_reject(res, f"LightEvent(data={bad}, {kw})", "illuminance-range", lambda: light.LightEvent(data=bad, **kw))
            expect_reject(res, f"UnknownEvent(data={bad})", "event-data-range",
                          lambda: dg.UnknownEvent(instance_type=9, data=bad, **kw))
    for tn, tv in BAD_TYPES:
        expect_reject(res, f"LightEvent(data={tv!r})", "illuminance-type", lambda: light.LightEvent(short_address=1, data=tv))
    for tv in (None, "x", 1.5, (True, True)):
        expect_reject(res, f"OccupancyEvent(data={tv!r})", "occupancy-data-type",
                      lambda: occupancy.OccupancyEvent(short_address=1, data=tv))
    for bad in (-1, 32, 64):
        expect_reject(res, f"UnknownEvent(instance_type={bad})", "event-instance-type-range",
                      lambda: dg.UnknownEvent(instance_type=bad, short_address=1, data=0))
        expect_reject(res, f"UnknownEvent(instance_type={bad}, instance_number=1)", "event-instance-type-range",
                      lambda: dg.UnknownEvent(instance_type=bad, instance_number=1, data=0))
    # recorded, not judged (outside the property's list)
    try:
        e = occupancy.OccupancyEvent(short_address=1, data=0x3F5)
        res.observe("occupancy-int-data-above-4-bits-is-masked", f"data=0x3F5 -> frame {e.frame.as_integer:#x}")
    except Exception:
        pass
    try:
        c = T.resolve([r for r in T.all_rows() if r.kind == "dev"][0])(address.InstanceNumber(3))
        res.observe("instance-object-accepted-as-device-destination", f"frame {c.frame.as_integer:#x}")
    except Exception:
        pass
    res.sample({"rejections": ["GearShort(64)", "SetScene(dest, 16)", "DAPC(dest, 256)", "QueryDeviceStatus(<gear address>)",
                               "LightEvent(data=1024)"]})


def run_coverage(res):
    """Every concrete command class the library registers is exercised by some shard."""
    from dali import command
    from spec import iec62386_tables as T
    _import_all()
    import dali.device.general as dg
    import dali.gear.general as gg
    named = set()
    for row in T.all_rows():
        try:
            named.add(T.resolve(row))
        except Exception:
            pass
    from dali.device import pushbutton, occupancy, light
    from models import events_ref as E
    events = {getattr(pushbutton, n) for n in E.PUSHBUTTON_EVENTS.values()} | {
        occupancy.OccupancyEvent, light.LightEvent, dg.UnknownEvent, dg.AmbiguousInstanceType}
    generic = {gg.UnknownGearCommand, dg.UnknownDeviceCommand}
    missing = [c for c in command.Command._commands if c not in named | events | generic]
    res.evaluations += len(command.Command._commands)
    res.distinct += len(command.Command._commands)
    res.add("library_command_classes", len(command.Command._commands))
    res.add("classes_named_by_rows", len(named))
    for c in missing:
        res.inconclusive.append(f"library class {c.__module__}.{c.__name__} is not exercised by any C02 family")
    res.hit("classes_covered", len(named))
    res.sample({"library_classes": len(command.Command._commands), "covered": len(named) + len(events) + len(generic)})


def run_shard(desc, tier, seed):
    res = Result()
    if "replay" in desc:
        # re-run the full quick workload and keep the violations with the replayed key
        for d in plan("quick", seed):
            r2 = run_shard(d, "quick", seed)
            for v in r2.violations:
                if v["key"] == desc["replay"]["key"]:
                    res.violation(v["key"], v["what"], v["witness"])
            res.evaluations += r2.evaluations
        return res
    k = desc["kind"]
    if k == "cmds":
        run_cmds(desc, tier, seed, res)
    elif k == "events":
        run_events(desc, tier, seed, res)
    elif k == "reject":
        run_reject(tier, seed, res)
    elif k == "coverage":
        run_coverage(res)
    return res
