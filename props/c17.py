"""C17 - gateway loss or silence fails sends promptly and recovery is clean.

Fault enumeration in the virtual-time simulation:
  A  HID device lost (read error / EOF / write error) at every I/O instant of a fault-free base run,
     during the handshake, during the reconnect wait, repeatedly; restore never / before / after the
     reconnect limit; reconnect_limit None/0/1/3; exceptions on/off; 1-3 callers.
  B  a caller cancelled at every task step of a send, followed by 300 further sends.
  C  serial gateway silent at confirmation or at answer time, or altogether, then recovering.
Oracle: outcome of every send, status-callback events with virtual timestamps, reconnect attempt
times, lock / semaphore / in-flight table afterwards, answers of later sends.
"""
import asyncio

from vlib.common import Result, rng, short_tb, digest
from vlib import vloop
from props import simlib

PROP = "C17"
LEVEL = "fault_enumeration"
CONTRACTS = "icontract"
DEVMODE = True
RULE = ("A: (driver, fault kind, fault instant taken from the I/O log of a fault-free base run, restore delay, reconnect "
        "limit, exceptions flag, callers); B: (driver, cancel step k, sends afterwards); C: (driver, silence kind, command "
        "kind); distinct = distinct (scenario, fault position) tuples")
ASSUMPTIONS = ["loss is what the kernel shows: read raises OSError or returns b'', write raises OSError, open fails until the "
               "device is back", "a caller that issues a send while the device is away and never returns is legitimately "
               "still waiting at the horizon; every other caller must have finished",
               "'failed' is reported once, when the configured number of reconnection attempts has been used up"]
EXHAUSTIVE = {"quick": False, "thorough": False}
REQUIRED_ANCHORS = {"all": ["loss_runs", "loss_during_handshake", "loss_in_flight", "reconnects_checked", "failed_expected",
                            "cancel_runs", "sends_after_cancel", "serial_silence_runs", "state_checked"]}
SHARD_TIMEOUT = {"quick": 900, "thorough": 3000}


def plan(tier, seed):
    sh = []
    for d in ("tridonic", "hasseb"):
        for p in range(4 if tier == "quick" else 16):
            sh.append({"kind": "loss", "driver": d, "part": p, "n": 80 if tier == "quick" else 300})
        sh.append({"kind": "cancel", "driver": d, "steps": 16 if tier == "quick" else 40, "after": 300})
    for d in ("luba", "sci"):
        sh.append({"kind": "silence", "driver": d, "n": 200 if tier == "quick" else 1200})
        sh.append({"kind": "cancel", "driver": d, "steps": 16 if tier == "quick" else 40, "after": 60})
    return sh


# --------------------------------------------------------------------------------------------- helpers

def check_answer(driver, cmd, val, wire, t_from=0.0):
    """None or a text: is val the right result of send(cmd) given the wire log?"""
    from dali import frame as F
    f = cmd.frame
    entries = [w for w in wire if (w["width"], w["value"]) == (len(f), f.as_integer) and w["origin"] == "own" and w["t"] >= t_from - 1e-9]
    if not entries:
        return "its frame never reached the bus"
    ans = entries[-1]["answer"]
    if cmd.response is None:
        return None if val is None else f"returned {val!r} for a command without answer"
    if type(val) is not cmd.response:
        return f"returned {type(val).__name__}, expected {cmd.response.__name__}"
    raw = val.raw_value
    if ans is None:
        return None if raw is None else f"bus silent, caller received {raw!r}"
    if ans[0] == "ok":
        ok = isinstance(raw, F.BackwardFrame) and not raw.error and raw.as_integer == ans[1]
        return None if ok else f"bus answered {ans[1]}, caller received {None if raw is None else raw.as_integer}"
    return None


def state_problems(sim, driver):
    """Lock / slot state after a scenario.  Internal attributes are looked up defensively: a renamed attribute is not a verdict."""
    d = sim.driver
    out = []
    if d.transaction_lock.locked():
        out.append("transaction_lock still held")
    if driver == "tridonic":
        sem = getattr(d, "_command_semaphore", None)
        if sem is not None and getattr(sem, "_value", 2) != 2:
            out.append(f"command semaphore not free ({sem._value}/2)")
        outst = getattr(d, "_outstanding", None)
        if outst:
            out.append(f"in-flight table not empty: {sorted(outst)}")
    if driver == "hasseb":
        lk = getattr(d, "_command_lock", None)
        if lk is not None and lk.locked():
            out.append("command lock still held")
    if driver in ("luba", "sci"):
        lk = getattr(getattr(d, "_protocol", None), "_tx_lock", None)
        if lk is not None and lk.locked():
            out.append("tx lock still held")
    return out


# --------------------------------------------------------------------------------------------- A: loss

def loss_case(driver, seed, part, i, res, base_times):
    from dali.exceptions import CommunicationError
    r = rng(seed, "C17", "loss", driver, part, i)
    limit = r.choice([None, 0, 1, 3])
    exceptions = r.random() < 0.6
    n_callers = r.choice([0, 1, 2, 3])
    mode = r.choice(["oserror", "eof", "write"])
    interval = 1
    # fault instant: an I/O instant of the base run (incl. the handshake), a midpoint, or during the reconnect wait
    tb = r.choice(base_times)
    t_fault = max(0.0, tb + r.choice([-0.0001, 0.0, 0.0001, 0.004]))
    restore = r.choice([None, 0.4, 2.5, 10.0])
    second = r.random() < 0.25 and restore is not None
    picker = simlib.Picker(r)
    # every third case addresses the device through a glob pattern: the node vanishes from the directory while unplugged
    use_glob = i % 3 == 2
    hk = {"reconnect_interval": interval, "reconnect_limit": limit}
    if use_glob:
        hk["glob"] = True
        res.hit("glob_path_cases")
    sim = simlib.Sim(driver, picker, hid_kwargs=hk)
    outcomes = {}
    frames_t = {}
    tstate = {"detect": None}
    with_sequence = i % 4 == 1
    bad_cleanup = i % 8 == 5

    async def caller(c):
        k = 0
        while sim.world.now < t_fault + 1.0 and k < 40:
            cmd = simlib.make_command(r, ["query", "dtquery" if driver == "tridonic" else "dttwice", "twice", "plain", "dtquery" if driver == "tridonic" else "query"][k % 5], c, k, driver)
            t0 = sim.world.now
            try:
                outcomes[(c, k)] = ("ok", await sim.driver.send(cmd), cmd, t0, sim.world.now)
            except Exception as e:
                outcomes[(c, k)] = ("exc", e, cmd, t0, sim.world.now)
            k += 1
            await asyncio.sleep(0.02)

    seq_out = {}

    async def seq_caller():
        # a sequence that spends most of its time asleep: the gateway vanishes while nothing is in flight and may still be
        # gone when the next command is due - the sequence then waits for it, or ends with CommunicationError
        from dali import sequences as _S
        cmds_ = [simlib.make_command(r, "query", 3, 8 + k, driver) for k in range(4)]

        def g():
            got_ = []
            try:
                for c_ in cmds_:
                    got_.append((yield c_))
                    yield _S.sleep(0.35)
            finally:
                if bad_cleanup:
                    # an application's sequence whose clean-up talks to the bus once more: closing it part-way raises
                    # RuntimeError (the generator ignored GeneratorExit) - that is the application's bug and must not cost
                    # anybody else the transaction lock
                    yield _S.progress(message="cleanup that ignores GeneratorExit")
            return got_
        seq_out["cmds"] = cmds_
        try:
            seq_out["result"] = ("ok", await sim.driver.run_sequence(g()))
        except Exception as e:
            seq_out["result"] = ("exc", e)

    def renumbered_restore():
        # the gateway comes back under another node name that still matches the pattern (hidraw renumbering)
        sim.shim.paths.pop("/dev/dali/hid", None)
        sim.shim.paths["/dev/dali/hid7"] = sim.dev
        sim.dev.restore()

    async def main(sim):
        d = sim.driver
        d.exceptions_on_send = exceptions
        sim.world.at(t_fault, lambda: sim.dev.lose(mode if mode != "write" else "oserror", write_only=(mode == "write")))
        if restore is not None:
            if use_glob and i % 2:
                res.hit("glob_renumbered")
                sim.world.at(t_fault + restore, renumbered_restore)
            else:
                sim.world.at(t_fault + restore, sim.dev.restore)
            if second:
                sim.world.at(t_fault + restore + 3.3, lambda: sim.dev.lose("eof"))
                sim.world.at(t_fault + restore + 4.9, sim.dev.restore)
        d.connect()
        if i % 5 == 0:
            # an application that calls connect() again while the connection is up (or being set up) changes nothing
            d.connect()
            res.hit("connect_called_twice")
        tasks = [asyncio.ensure_future(caller(c)) for c in range(n_callers)]
        if with_sequence:
            tasks.append(asyncio.ensure_future(seq_caller()))
            res.hit("sequences_across_loss")
        # wait long enough for every reconnection attempt the limit allows and for the device to come back
        horizon = t_fault + (restore or 0) + 12.0
        while sim.world.now < horizon:
            await asyncio.sleep(0.5)
        # a fresh caller afterwards
        fresh = None
        if d.connected.is_set():
            cmd = simlib.make_command(r, "query", 3, 7, driver)
            t0 = sim.world.now
            try:
                fresh = ("ok", await asyncio.wait_for(d.send(cmd), 5.0), cmd, t0)
            except Exception as e:
                fresh = ("exc", e, cmd, t0)
        await asyncio.sleep(0.1)       # status callbacks are delivered with call_soon
        pending = [c for c, t in enumerate(tasks) if not t.done()]
        for t in tasks:
            t.cancel()
        await asyncio.gather(*tasks, return_exceptions=True)
        return {"fresh": fresh, "pending": pending, "connected": d.connected.is_set()}

    out, stalled = sim.run(main)
    res.evaluations += 1
    res.distinct += 1
    res.hit("loss_runs")
    wit = {"driver": driver, "seed": seed, "part": part, "case": i, "mode": mode, "t_fault": round(t_fault, 5), "restore_after": restore,
           "reconnect_limit": limit, "exceptions": exceptions, "callers": n_callers, "second_loss": second,
           "status_events": [(round(t, 4), s) for t, s in sim.status_events][:20],
           "opens": [(round(e[1], 4), e[3]) for e in sim.shim.log if e[0] == "open"][:20]}
    try:
        if simlib.detached(out):
            res.inconclusive.append('harness detached: ' + str(out))
            return
        if stalled or not isinstance(out, dict):
            res.violation(f"C17/{driver}/stall-or-crash", f"simulation ended with {'a stall' if stalled else repr(out)}", wit)
            return
        events = sim.status_events
        statuses = [s for t, s in events]
        handshake_end = None
        if driver == "tridonic" and sim.dev.handshakes and sim.dev.handshakes[0][0] <= t_fault < 0.05:
            res.hit("loss_during_handshake")
        # --- when did the driver notice? (first 'disconnected')
        t_detect = next((t for t, s in events if s == "disconnected"), None)
        wire = sim.bus.wire
        lost_for_driver = t_detect is not None
        if mode != "write" and not lost_for_driver and (restore is None or restore > 0.01):
            res.violation(f"C17/{driver}/loss-not-detected", f"the device vanished ({mode}) at {t_fault:.4f} but no 'disconnected' status was reported", wit)
            return
        # --- outcome of every send
        for (c, k), (st, val, cmd, t0, t1) in sorted(outcomes.items()):
            cw = {**wit, "command": str(cmd), "caller": c, "t_call": round(t0, 4), "t_return": round(t1, 4)}
            in_flight = t_detect is not None and t0 <= t_detect <= t1
            if in_flight:
                res.hit("loss_in_flight")
            if st == "exc":
                if isinstance(val, CommunicationError):
                    if not exceptions:
                        res.violation(f"C17/{driver}/exception-although-disabled", f"send({cmd}) raised CommunicationError with exceptions off", cw)
                    elif t_detect is None or not (t0 - 1e-9 <= t_detect + 30):
                        res.violation(f"C17/{driver}/spurious-communication-error", f"send({cmd}) raised CommunicationError without a loss", cw)
                elif isinstance(val, asyncio.CancelledError):
                    pass
                else:
                    res.violation(f"C17/{driver}/send-raised/{type(val).__name__}", f"send({cmd}) raised {type(val).__name__}: {val} "
                                  f"(loss mode {mode})", {**cw, "tb": short_tb(val)})
                continue
            problem = check_answer(driver, cmd, val, wire, t_from=t0)
            if problem:
                key = "after-loss" if t_detect is not None and t1 >= t_detect else "before-loss"
                res.violation(f"C17/{driver}/wrong-result/{key}", f"send({cmd}) {problem}", cw)
            elif in_flight and exceptions and mode != "write":
                # completed normally although the device vanished mid-send: only possible if all reports had arrived
                pass
        if with_sequence and "result" in seq_out:
            st_, val_ = seq_out["result"]
            if st_ == "exc" and bad_cleanup and isinstance(val_, RuntimeError):
                res.hit("sequences_with_failing_cleanup_aborted")
            elif st_ == "exc" and not isinstance(val_, (CommunicationError, asyncio.CancelledError)):
                res.violation(f"C17/{driver}/sequence-raised/{type(val_).__name__}", f"a sequence running across the loss raised {type(val_).__name__}: "
                              f"{val_} (only CommunicationError is documented)", {**wit, "tb": short_tb(val_)})
            elif st_ == "ok":
                for c_, v_ in zip(seq_out["cmds"], val_ or []):
                    problem = check_answer(driver, c_, v_, wire, t_from=0.0)
                    if problem:
                        res.violation(f"C17/{driver}/wrong-result/sequence-across-loss", f"sequence command {c_} {problem}", wit)
                        break
        # --- a command that needs a device type keeps its ENABLE DEVICE TYPE prefix when it is retried after a reconnection
        own = [w_ for w_ in wire if w_["origin"] == "own"]
        dtcmds = {(len(cmd.frame), cmd.frame.as_integer): (cmd.devicetype, bool(cmd.sendtwice)) for (st, val, cmd, t0, t1) in outcomes.values()
                  if len(cmd.frame) == 16 and cmd.devicetype != 0}
        for k, w_ in enumerate(own):
            key = (w_["width"], w_["value"])
            if key in dtcmds:
                dtv, tw = dtcmds[key]
                run = 0
                j = k - 1
                while j >= 0 and (own[j]["width"], own[j]["value"]) == key and own[j + 1]["t"] - own[j]["t"] < 0.1:
                    run += 1
                    j -= 1
                if tw and run % 2 == 1:
                    continue
                prevw = own[k - 1] if k else None
                if prevw is None or (prevw["width"], prevw["value"]) != (16, 0xC100 + dtv):
                    res.violation(f"C17/{driver}/retry-without-device-type-prefix", f"frame {w_['value']:#06x} (device type {dtv}) was transmitted at "
                                  f"{w_['t']:.4f} without the ENABLE DEVICE TYPE frame in front of it (preceded by {hex(prevw['value']) if prevw else None})", wit)
                    break
        # --- status events and reconnection attempts, per outage episode
        lose_times = [t_fault] + ([t_fault + restore + 3.3] if second else [])
        back_times = ([t_fault + restore] if restore is not None else []) + ([t_fault + restore + 4.9] if second else [])

        def present_at(t):
            p = True
            for (tt, v) in sorted([(x, False) for x in lose_times] + [(x, True) for x in back_times]):
                if tt <= t + 1e-9:
                    p = v
            return p
        opens_all = [e for e in sim.shim.log if e[0] == "open"]
        detects = [t for t, s in events if s == "disconnected"]
        gave_up = False
        for n_ep, td in enumerate(detects):
            res.hit("reconnects_checked")
            nxt = detects[n_ep + 1] if n_ep + 1 < len(detects) else float("inf")
            idx0 = [k for k, (t, s) in enumerate(events) if s == "disconnected"][n_ep]
            idx1 = [k for k, (t, s) in enumerate(events) if s == "disconnected"][n_ep + 1] if n_ep + 1 < len(detects) else len(events)
            ep_events = [s for t, s in events[idx0:idx1]]
            ep_opens = [e for e in opens_all if td + 1e-9 < e[1] < nxt + 1e-9]
            # expected attempts
            expected = []
            n = 1
            success = False
            while limit is None or n <= limit:
                ta = td + n * interval
                if ta > sim.world.now - 0.2:
                    break
                ok_ = present_at(ta)
                expected.append((ta, ok_))
                if ok_:
                    success = True
                    break
                n += 1
            got = [(e[1], e[3]) for e in ep_opens][:len(expected) + 1]
            if [(round(a, 5), b) for a, b in got[:len(expected)]] != [(round(a, 5), b) for a, b in expected]:
                res.violation(f"C17/{driver}/reconnect-timing", f"after the loss noticed at {td:.4f} the driver tried to re-open at "
                              f"{[(round(a, 4), b) for a, b in got]}, expected attempts {[(round(a, 4), b) for a, b in expected]} "
                              f"(interval {interval}s, limit {limit})", wit)
                break
            exhausted = limit is not None and not success and len(expected) == limit
            if exhausted:
                res.hit("failed_expected")
                gave_up = True
                if len(ep_opens) > limit:
                    res.violation(f"C17/{driver}/reconnect-limit-exceeded", f"{len(ep_opens)} attempts with reconnect_limit={limit}", wit)
                if ep_events.count("failed") != 1:
                    res.violation(f"C17/{driver}/failed-not-reported" if "failed" not in ep_events else f"C17/{driver}/failed-reported-twice",
                                  f"reconnect_limit={limit} was used up ({len(expected)} attempts) but the events after the loss are {ep_events}", wit)
                if "connected" in ep_events:
                    res.violation(f"C17/{driver}/connected-after-failed", f"events {ep_events}", wit)
            else:
                if "failed" in ep_events:
                    res.violation(f"C17/{driver}/failed-reported-early", f"'failed' reported although the limit ({limit}) was not reached: {ep_events}", wit)
                if success and "connected" not in ep_events:
                    res.violation(f"C17/{driver}/not-reconnected", f"re-opening succeeded at {expected[-1][0]:.3f} but 'connected' was never reported "
                                  f"(events {ep_events})", wit)
                elif success and driver == "tridonic":
                    hs = [h for h in sim.dev.handshakes if expected[-1][0] - 1e-9 <= h[0] < nxt]
                    if not {0, 2} <= {h[1] for h in hs} and present_at(expected[-1][0] + 0.05):
                        res.violation("C17/tridonic/handshake-not-repeated", f"after reconnecting the version/serial handshake was not repeated: {hs}", wit)
        if detects and not gave_up and present_at(sim.world.now) and out["connected"]:
            fr = out["fresh"]
            if fr is None or fr[0] == "exc":
                res.violation(f"C17/{driver}/fresh-send-failed", f"a new send after recovery failed: {fr and fr[1]!r}", wit)
            else:
                p = check_answer(driver, fr[2], fr[1], wire, t_from=fr[3])
                if p:
                    res.violation(f"C17/{driver}/wrong-result/fresh-send", f"a new send after recovery {p}", wit)
        if detects and not gave_up and present_at(sim.world.now) and not out["connected"] and limit != 0:
            res.violation(f"C17/{driver}/not-connected-at-end", "the device is back and the limit was not used up, but the driver is not connected", wit)
        # --- nobody hangs
        legit_wait = not out["connected"]
        if out["pending"] and not legit_wait:
            res.violation(f"C17/{driver}/caller-hangs", f"callers {out['pending']} are still blocked although the device is connected again", wit)
        res.hit("state_checked")
        if out["connected"] or t_detect is None:
            probs = state_problems(sim, driver)
            if probs:
                res.violation(f"C17/{driver}/state-not-clean", "; ".join(probs), wit)
        if getattr(sim, 'hostile_calls', 0):
            res.hit('hostile_listener_runs')
        if sim.loop.errors:
            res.violation(f"C17/{driver}/internal-error", f"exception in a callback/task: {sim.loop.errors[0]}", wit)
        if i == 0:
            res.sample(wit)
    finally:
        sim.close()


def app_disconnect_case(driver, seed, i, res, prefix="C15"):
    """Used by C15.  The application itself calls disconnect() (public API) while commands are in flight - in the very loop
    pass in which a report of the gateway is read, or a little later.  No property says how such a send has to end; what C15
    does say is that every caller completes and the transaction lock is free afterwards.  Only that is judged: the way a
    send ends (the pinned Tridonic driver lets a KeyError escape when the final report and the disconnect share a loop
    pass) is recorded as an observation."""
    from dali.exceptions import CommunicationError
    r = rng(seed, "C17", "app-disconnect", driver, i)
    picker = simlib.Picker(r)
    exceptions = r.random() < 0.5
    sim = simlib.Sim(driver, picker, hid_kwargs={"reconnect_interval": 0.5})
    nth = r.randint(1, 6)                 # the report after which the application disconnects
    lag = r.choice([0.0, 0.0, 0.0, 0.0005, 0.004, 0.02])
    reconnect = r.random() < 0.8
    outcomes = []
    state = {"n": 0, "t": None}

    async def caller(c):
        for k in range(6):
            cmd = simlib.make_command(r, ["query", "twice", "plain", "dtquery" if driver == "tridonic" else "query"][(k + c) % 4], c, k, driver)
            t0 = sim.world.now
            try:
                outcomes.append((c, k, "ok", await sim.driver.send(cmd), cmd, t0, sim.world.now))
            except Exception as e:
                outcomes.append((c, k, "exc", e, cmd, t0, sim.world.now))
            await asyncio.sleep(0.01)

    async def main(sim):
        d = sim.driver
        d.exceptions_on_send = exceptions
        await sim.connect()
        loop = asyncio.get_running_loop()

        def on_report(data):
            if data and data[0] == 0:
                return                    # hasseb idle chatter
            state["n"] += 1
            if state["n"] == nth:
                state["t"] = sim.world.now
                # a timer due now runs after the reader callback of this loop pass: the report is read, then the
                # application disconnects, and only then does the waiting sender get to run
                loop.call_at(loop.time() + lag, lambda: d.disconnect(reconnect=reconnect))
                if not reconnect:
                    loop.call_at(loop.time() + lag + 0.7, d.connect)
        sim.dev.on_report = on_report
        tasks = [asyncio.ensure_future(caller(c)) for c in range(r.choice([1, 2, 3]))]
        done_, pending_ = await asyncio.wait(tasks, timeout=30.0)      # does not cancel what is still running
        hung = [c for c, t in enumerate(tasks) if t in pending_]
        for t in tasks:
            t.cancel()
        await asyncio.gather(*tasks, return_exceptions=True)
        fresh = None
        if not hung:
            await asyncio.sleep(1.5)
            cmd = simlib.make_command(r, "query", 3, 7, driver)
            t0 = sim.world.now
            try:
                fresh = ("ok", await asyncio.wait_for(d.send(cmd), 5.0), cmd, t0)
            except Exception as e:
                fresh = ("exc", e, cmd, t0)
        return {"hung": hung, "fresh": fresh, "connected": d.connected.is_set()}

    out, stalled = sim.run(main)
    res.evaluations += 1
    res.distinct += 1
    res.hit("app_disconnect_runs")
    wit = {"driver": driver, "seed": seed, "case": i, "disconnect_after_report": nth, "lag": lag, "reconnect": reconnect,
           "exceptions_on_send": exceptions, "disconnected_at": state["t"]}
    try:
        if simlib.detached(out):
            res.inconclusive.append('harness detached: ' + str(out))
            return
        if stalled or not isinstance(out, dict):
            res.violation(f"{prefix}/{driver}/app-disconnect/stall-or-crash", f"simulation ended with {'a stall' if stalled else repr(out)}", wit)
            return
        if state["t"] is None:
            res.add("app_disconnect_not_reached")
            return
        if out["hung"]:
            res.violation(f"{prefix}/{driver}/app-disconnect/send-never-ends", f"after the application's disconnect() (report {nth}, lag {lag}) the "
                          f"send() of callers {out['hung']} had not ended 30 s later", wit)
            return
        for c, k, st, val, cmd, t0, t1 in outcomes:
            if st == "exc" and not isinstance(val, CommunicationError):
                res.observe(f"{driver}-send-ends-with-{type(val).__name__}-when-the-application-disconnects-in-the-pass-of-its-last-report", str(cmd))
            if st == "ok" and t1 < state["t"]:
                why = check_answer(driver, cmd, val, sim.bus.wire, t_from=t0)
                if why:
                    res.violation(f"{prefix}/{driver}/app-disconnect/wrong-result-before", f"send({cmd}) before the disconnect: {why}", wit)
                    return
        probs = state_problems(sim, driver)
        if probs:
            res.violation(f"{prefix}/{driver}/app-disconnect/state-left-behind", "; ".join(probs), wit)
            return
        fr = out["fresh"]
        if fr is not None and fr[0] == "ok":
            why = check_answer(driver, fr[2], fr[1], sim.bus.wire, t_from=fr[3])
            if why:
                res.violation(f"{prefix}/{driver}/app-disconnect/fresh-send-wrong", f"a new send after the reconnection: {why}", wit)
        elif fr is not None and isinstance(fr[1], (asyncio.TimeoutError, TimeoutError)):
            res.violation(f"{prefix}/{driver}/app-disconnect/fresh-send-never-ends", "a new send() after the application's disconnect / "
                          "reconnect had not ended 5 s later", wit)
        if getattr(sim, "hostile_calls", 0):
            res.hit("hostile_listener_runs")
        if sim.loop.errors:
            res.violation(f"{prefix}/{driver}/internal-error", f"exception in a callback/task: {sim.loop.errors[0]}", wit)
    finally:
        sim.close()


def base_run_times(driver, seed):
    """I/O instants (virtual time) of a fault-free run: every write and every report delivery."""
    r = rng(seed, "C17", "base", driver)
    sim = simlib.Sim(driver, simlib.Picker(r))
    times = []

    async def main(sim):
        await sim.connect()
        for k in range(6):
            await sim.driver.send(simlib.make_command(r, ["query", "plain", "twice"][k % 3], 0, k, driver))
        return True
    sim.run(main)
    times = sorted({round(e[1], 6) for e in sim.shim.log} | {round(w["t"], 6) for w in sim.bus.wire} | {0.0, 0.001})
    sim.close()
    return times


# --------------------------------------------------------------------------------------------- B: cancellation

def cancel_case(driver, seed, k, after, res):
    r = rng(seed, "C17", "cancel", driver, k)
    picker = simlib.Picker(r)
    sim = simlib.Sim(driver, picker)
    log = {}

    pause = (0, 0, 0.4)[k % 3]
    as_sequence = (k // 2) % 2 == 1          # the victim runs a sequence (run_sequence) instead of a single send
    with_bystander = (k // 4) % 2 == 1       # somebody else's command is in flight: the victim may be cancelled while queued

    async def victim():
        cmd = simlib.make_command(r, r.choice(["query", "twice", "dtquery" if driver != "hasseb" else "query"]), 3, k, driver)
        log["victim_cmd"] = cmd
        cmd2 = simlib.make_command(r, "query", 3, (k + 1) % 16, driver)
        log["victim_frames"] = [(len(c_.frame), c_.frame.as_integer) for c_ in (cmd, cmd2)] + [(16, 0xC100 + cmd.devicetype)]
        if as_sequence:
            def g():
                yield cmd
                yield cmd2
            return await sim.driver.run_sequence(g())
        return await sim.driver.send(cmd)

    async def main(sim):
        await sim.connect()
        by = None
        if with_bystander:
            by_cmd = simlib.make_command(r, "query", 3, (k + 8) % 16, driver)     # an address nobody else in this run uses
            by_t0 = sim.world.now
            by = asyncio.ensure_future(sim.driver.send(by_cmd))
            await asyncio.sleep(0)
        t = vloop.CountingTask(victim(), loop=asyncio.get_running_loop(), cancel_at=k)
        try:
            log["victim"] = ("ok", await t)
        except asyncio.CancelledError:
            log["victim"] = ("cancelled", None)
        except Exception as e:
            log["victim"] = ("exc", e)
        log["t_cancel"] = sim.world.now
        log["steps"] = t.steps
        if pause:
            # the abandoned command's reports all arrive before anybody sends again: the next send must discard them
            await asyncio.sleep(pause)
            log["t_cancel"] = sim.world.now
        results = []
        if by is not None:
            # the command that was in flight while the victim was cancelled still gets its own answer
            try:
                results.append(("ok", await asyncio.wait_for(by, 20.0), by_cmd, by_t0))
            except Exception as e:
                results.append(("exc", e, by_cmd, by_t0))
            res.hit("cancel_with_command_in_flight")
        for n in range(after):
            cmd = simlib.make_command(r, ["query", "plain", "query", "twice"][n % 4], n % 3, n // 3, driver)
            t0 = sim.world.now
            try:
                results.append(("ok", await asyncio.wait_for(sim.driver.send(cmd), 20.0), cmd, t0))
            except Exception as e:
                results.append(("exc", e, cmd, t0))
                if isinstance(e, (AssertionError, asyncio.TimeoutError)):
                    break
        await asyncio.sleep(1.0)
        return results

    out, stalled = sim.run(main)
    res.evaluations += 1
    res.distinct += 1
    res.hit("cancel_runs")
    wit = {"driver": driver, "seed": seed, "cancel_at_step": k, "victim_runs_sequence": as_sequence, "command_in_flight": with_bystander, "pause_after_cancel": pause,
           "victim": str(log.get("victim_cmd")), "victim_outcome": repr(log.get("victim"))[:80],
           "victim_steps": log.get("steps")}
    try:
        if simlib.detached(out):
            res.inconclusive.append('harness detached: ' + str(out))
            return
        if stalled or not isinstance(out, list):
            res.violation(f"C17/{driver}/stall-after-cancel", f"simulation ended with {'a stall' if stalled else repr(out)} after cancelling a caller at step {k}", wit)
            return
        wire = sim.bus.wire
        for n, (st, val, cmd, t0) in enumerate(out):
            res.hit("sends_after_cancel")
            if st == "exc":
                res.violation(f"C17/{driver}/send-after-cancel-raised/{type(val).__name__}",
                              f"send number {n + 1} after a caller was cancelled mid-send raised {type(val).__name__}: {val}", {**wit, "n": n + 1, "tb": short_tb(val)})
                break
            p = check_answer(driver, cmd, val, wire, t_from=t0)
            if p:
                # mechanism: was a command of the cancelled caller still in progress in the gateway (written, its
                # transmission / reports not yet through) when the next command was written?
                tc = log.get("t_cancel", 0.0)
                writes = getattr(getattr(sim.dev, "transport", None), "written", None) or getattr(sim.dev, "writes", [])
                nxt = [tw for (tw, dd) in writes if tw >= tc - 1e-9]
                t_next = nxt[0] if nxt else float("inf")
                vframes = set(log.get("victim_frames", []))
                vbytes = [v_.to_bytes(w_ // 8, "big") for (w_, v_) in vframes]
                # (a) a victim frame went onto the bus so late that its reports reached the host after the next write, or
                # (b) a victim frame was written to the gateway before the cancellation and transmitted only after the next write
                late_reports = any((w_["width"], w_["value"]) in vframes and tc - 0.2 <= w_["t"] and w_["t"] + 0.03 > t_next for w_ in wire)
                v_writes = [tw for (tw, dd) in writes if tw < tc + 1e-9 and any(vb in bytes(dd) for vb in vbytes)]
                late_tx = any(not any((w_["width"], w_["value"]) in vframes and tw <= w_["t"] < t_next for w_ in wire) for tw in v_writes[-1:])
                in_progress = late_reports or late_tx
                key = f"C17/{driver}/wrong-result/after-cancel" if (in_progress and log.get("victim", ("",))[0] == "cancelled") \
                    else f"C17/{driver}/wrong-result/after-cancel/nothing-in-progress"
                res.violation(key, f"send number {n + 1} ({cmd}) after the cancellation {p}", {**wit, "n": n + 1, "cancelled_at": tc, "next_write_at": t_next})
                break
        res.hit("state_checked")
        probs = state_problems(sim, driver)
        if probs:
            res.violation(f"C17/{driver}/state-not-clean/after-cancel", "; ".join(probs), wit)
        if getattr(sim, 'hostile_calls', 0):
            res.hit('hostile_listener_runs')
        if sim.loop.errors:
            res.violation(f"C17/{driver}/internal-error", f"exception in a callback/task: {sim.loop.errors[0]}", wit)
    finally:
        sim.close()


def eagain_case(driver, seed, i, after, res):
    """A write error of the transient kind: the device's output queue is full for a moment, os.write raises
    BlockingIOError (an OSError).  It is a write error like any other - the command in flight fails with CommunicationError
    or is retried after the reconnection - and it leaves nothing behind: several hundred sends later (sequence numbers
    wrapped) everything still works."""
    from dali.exceptions import CommunicationError
    r = rng(seed, "C17", "eagain", driver, i)
    picker = simlib.Picker(r)
    exceptions = r.random() < 0.5
    sim = simlib.Sim(driver, picker, hid_kwargs={"reconnect_interval": 0.2})
    at_cmd = r.randrange(0, 6)
    window = r.choice([0.0005, 0.01, 0.05, 0.3])
    results = []

    async def main(sim):
        d = sim.driver
        d.exceptions_on_send = exceptions
        await sim.connect()
        for n in range(8 + after):
            cmd = simlib.make_command(r, ["query", "plain", "query", "twice"][n % 4], n % 3, n // 3, driver)
            if n == at_cmd:
                sim.dev.blocked_until = sim.world.now + window
            t0 = sim.world.now
            try:
                results.append(("ok", await asyncio.wait_for(d.send(cmd), 20.0), cmd, t0, n))
            except Exception as e:
                results.append(("exc", e, cmd, t0, n))
                if isinstance(e, (AssertionError, asyncio.TimeoutError)):
                    break
                if not d.connected.is_set():
                    await asyncio.wait_for(d.connected.wait(), 10.0)
        await asyncio.sleep(1.0)
        return True

    out, stalled = sim.run(main)
    res.evaluations += 1
    res.distinct += 1
    res.hit("write_would_block_runs")
    wit = {"driver": driver, "seed": seed, "case": i, "blocked_at_command": at_cmd, "window": window, "exceptions_on_send": exceptions}
    try:
        if simlib.detached(out):
            res.inconclusive.append('harness detached: ' + str(out))
            return
        if stalled or out is not True:
            res.violation(f"C17/{driver}/write-would-block/stall-or-crash", f"simulation ended with {'a stall' if stalled else repr(out)}", wit)
            return
        for st, val, cmd, t0, n in results:
            res.hit("sends_after_write_error")
            if st == "exc":
                if isinstance(val, CommunicationError) and exceptions and n <= at_cmd + 1:
                    continue                     # the command that met the full queue (or the one right behind it) failed loudly
                res.violation(f"C17/{driver}/write-would-block/send-raised/{type(val).__name__}",
                              f"send number {n + 1} ({n - at_cmd} after the one that met a full output queue) raised {type(val).__name__}: {val}",
                              {**wit, "n": n + 1, "tb": short_tb(val)})
                break
            p = check_answer(driver, cmd, val, sim.bus.wire, t_from=t0)
            if p:
                res.violation(f"C17/{driver}/write-would-block/wrong-result", f"send number {n + 1} ({cmd}) {p}", {**wit, "n": n + 1})
                break
        probs = state_problems(sim, driver)
        if probs:
            res.violation(f"C17/{driver}/write-would-block/state-left-behind", "; ".join(probs), wit)
        if sim.loop.errors:
            res.violation(f"C17/{driver}/internal-error", f"exception in a callback/task: {sim.loop.errors[0]}", wit)
    finally:
        sim.close()


def handshake_write_error_case(driver, seed, i, res):
    """The device node can be opened but the first writes to it fail (the adapter is enumerated, its endpoint not ready yet):
    at the application's connect(), or at a reconnection after a loss.  connect() does not raise, the driver keeps trying at
    its interval and is connected once the writes work; then commands get their answers."""
    r = rng(seed, "C17", "handshake-write", driver, i)
    picker = simlib.Picker(r)
    sim = simlib.Sim(driver, picker, hid_kwargs={"reconnect_interval": 0.2})
    when = ("at-connect", "after-loss")[i % 2]
    window = r.choice([0.05, 0.3, 0.5])
    got = {}

    async def main(sim):
        d = sim.driver
        if when == "at-connect":
            sim.dev.write_fails = True
            sim.world.at(window, lambda: setattr(sim.dev, "write_fails", False))
            try:
                d.connect()
            except Exception as e:
                got["connect"] = e
                return True
        else:
            await sim.connect()
            t1 = sim.world.now + 0.05
            sim.world.at(t1, lambda: sim.dev.lose("eof"))

            def back():
                sim.dev.restore()
                sim.dev.write_fails = True
            sim.world.at(t1 + 0.3, back)
            sim.world.at(t1 + 0.3 + window, lambda: setattr(sim.dev, "write_fails", False))
            await asyncio.sleep(0.4)
        try:
            await asyncio.wait_for(d.connected.wait(), window + 5.0)
            got["connected_at"] = sim.world.now
        except (asyncio.TimeoutError, TimeoutError):
            got["connected_at"] = None
            return True
        cmd = simlib.make_command(r, "query", 1, 3, driver)
        t0 = sim.world.now
        try:
            got["send"] = ("ok", await asyncio.wait_for(d.send(cmd), 5.0), cmd, t0)
        except Exception as e:
            got["send"] = ("exc", e, cmd, t0)
        await asyncio.sleep(0.3)
        return True

    out, stalled = sim.run(main)
    res.evaluations += 1
    res.distinct += 1
    res.hit("handshake_write_error_runs")
    wit = {"driver": driver, "seed": seed, "case": i, "when": when, "writes_fail_for": window}
    try:
        if simlib.detached(out):
            res.inconclusive.append('harness detached: ' + str(out))
            return
        if stalled or out is not True:
            res.violation(f"C17/{driver}/handshake-write-error/stall-or-crash", f"simulation ended with {'a stall' if stalled else repr(out)}", wit)
            return
        if "connect" in got:
            res.violation(f"C17/{driver}/handshake-write-error/connect-raised/{type(got['connect']).__name__}",
                          f"connect() raised {type(got['connect']).__name__}: {got['connect']} (the node opens, the first write fails)",
                          {**wit, "tb": short_tb(got["connect"])})
            return
        if got.get("connected_at") is None:
            res.violation(f"C17/{driver}/handshake-write-error/never-connected", f"writes worked again after {window} s but the driver was not "
                          "connected 5 s later", wit)
            return
        sd = got.get("send")
        if sd is None or sd[0] == "exc":
            res.violation(f"C17/{driver}/handshake-write-error/send-failed", f"a send after the connection was established: {sd and sd[1]!r}", wit)
        else:
            p = check_answer(driver, sd[2], sd[1], sim.bus.wire, t_from=sd[3])
            if p:
                res.violation(f"C17/{driver}/handshake-write-error/wrong-result", f"send({sd[2]}) {p}", wit)
        ev = [s_ for (_t, s_) in sim.status_events]
        for a_, b_ in zip(ev, ev[1:]):
            if a_ == b_ == "disconnected":
                res.violation(f"C17/{driver}/handshake-write-error/disconnected-reported-twice", f"status events {ev}", wit)
                break
        if sim.loop.errors:
            res.violation(f"C17/{driver}/internal-error", f"exception in a callback/task: {sim.loop.errors[0]}", wit)
    finally:
        sim.close()


def second_round_case(driver, seed, i, res):
    """The gateway is absent, the driver uses up its reconnect limit and reports 'failed'; the application calls connect()
    again later: that is a new round - with the gateway still absent it ends in 'failed' again, with the gateway back it
    ends in 'connected' and commands work."""
    r = rng(seed, "C17", "second-round", driver, i)
    picker = simlib.Picker(r)
    limit = r.choice([0, 1, 3])
    sim = simlib.Sim(driver, picker, hid_kwargs={"reconnect_interval": 0.3, "reconnect_limit": limit})
    got = {}

    async def main(sim):
        d = sim.driver
        sim.dev.lose("eof")
        d.connect()
        await asyncio.sleep(0.3 * (limit + 2) + 0.5)
        got["after_first"] = [s_ for (_t, s_) in sim.status_events]
        d.connect()
        await asyncio.sleep(0.3 * (limit + 2) + 0.5)
        got["after_second"] = [s_ for (_t, s_) in sim.status_events]
        sim.dev.restore()
        d.connect()
        try:
            await asyncio.wait_for(d.connected.wait(), 0.3 * (limit + 2) + 3.0)
        except (asyncio.TimeoutError, TimeoutError):
            got["never_connected"] = True
            return True
        cmd = simlib.make_command(r, "query", 1, 4, driver)
        t1 = sim.world.now
        try:
            got["send"] = ("ok", await asyncio.wait_for(d.send(cmd), 5.0), cmd, t1)
        except Exception as e:
            got["send"] = ("exc", e, cmd, t1)
        await asyncio.sleep(0.2)
        got["final"] = [s_ for (_t, s_) in sim.status_events]
        return True

    out, stalled = sim.run(main)
    res.evaluations += 1
    res.distinct += 1
    res.hit("second_round_runs")
    wit = {"driver": driver, "seed": seed, "case": i, "reconnect_limit": limit, "events": got.get("final") or got.get("after_second")}
    try:
        if simlib.detached(out):
            res.inconclusive.append('harness detached: ' + str(out))
            return
        if stalled or out is not True:
            res.violation(f"C17/{driver}/second-round/stall-or-crash", f"simulation ended with {'a stall' if stalled else repr(out)}", wit)
            return
        n1 = (got.get("after_first") or []).count("failed")
        n2 = (got.get("after_second") or []).count("failed")
        if n1 != 1:
            res.violation(f"C17/{driver}/failed-not-reported" if n1 == 0 else f"C17/{driver}/failed-reported-twice",
                          f"gateway absent, reconnect_limit={limit}: events after the first round {got.get('after_first')}", wit)
            return
        if n2 != 2:
            res.violation(f"C17/{driver}/second-round/failed-not-reported", f"the application called connect() again with the gateway still "
                          f"absent: events {got.get('after_second')} ('failed' {n2 - 1} times for the second round, expected once)", wit)
            return
        if got.get("never_connected"):
            res.violation(f"C17/{driver}/second-round/never-connected", "the gateway is back and connect() was called, but the driver did not connect", wit)
            return
        sd = got.get("send")
        if sd is None or sd[0] == "exc":
            res.violation(f"C17/{driver}/second-round/send-failed", f"send after the third connect(): {sd and sd[1]!r}", wit)
            return
        p = check_answer(driver, sd[2], sd[1], sim.bus.wire, t_from=sd[3])
        if p:
            res.violation(f"C17/{driver}/second-round/wrong-result", f"send({sd[2]}) {p}", wit)
        if sim.loop.errors:
            res.violation(f"C17/{driver}/internal-error", f"exception in a callback/task: {sim.loop.errors[0]}", wit)
    finally:
        sim.close()


def serial_connect_retry_case(driver, seed, i, res):
    """The serial gateway says nothing while the driver connects (powered up later than the host, cable plugged in late): the
    first connect() fails within its documented timeout; when the application tries again and the gateway now answers, the
    handshake is done and commands get their answers."""
    r = rng(seed, "C17", "connect-retry", driver, i)
    picker = simlib.Picker(r)
    sim = simlib.Sim(driver, picker)
    got = {}

    async def main(sim):
        d = sim.driver
        sim.dev.silent = True
        t0 = sim.world.now
        try:
            await asyncio.wait_for(d.connect(), 10.0)
            got["first"] = "returned"
        except BaseException as e:  # noqa
            got["first"] = type(e).__name__
        got["first_took"] = sim.world.now - t0
        await asyncio.sleep(r.choice([0.05, 0.5, 2.0]))
        sim.dev.silent = False
        try:
            await asyncio.wait_for(d.connect(), 10.0)
            got["second"] = "returned"
        except BaseException as e:  # noqa
            got["second"] = type(e).__name__
            return True
        cmd = simlib.make_command(r, "query", 1, 2, driver)
        t1 = sim.world.now
        try:
            got["send"] = ("ok", await asyncio.wait_for(d.send(cmd), 5.0), cmd, t1)
        except Exception as e:
            got["send"] = ("exc", e, cmd, t1)
        await asyncio.sleep(0.3)
        return True

    out, stalled = sim.run(main)
    res.evaluations += 1
    res.distinct += 1
    res.hit("serial_connect_retries")
    wit = {"driver": driver, "seed": seed, "case": i, "first_connect": got.get("first"), "first_took": got.get("first_took")}
    try:
        if simlib.detached(out):
            res.inconclusive.append('harness detached: ' + str(out))
            return
        if stalled or out is not True:
            res.violation(f"C17/{driver}/connect-retry/stall-or-crash", f"simulation ended with {'a stall' if stalled else repr(out)}", wit)
            return
        if got.get("first") == "returned":
            res.add("connect_to_silent_gateway_returned")          # not judged: what connect() does when nothing answers
        if got.get("second") != "returned":
            res.violation(f"C17/{driver}/connect-retry/second-connect-failed", f"the gateway answers now, connect() ended with {got.get('second')}", wit)
            return
        sd = got.get("send")
        if sd is None or sd[0] == "exc":
            res.violation(f"C17/{driver}/connect-retry/send-failed", f"after a connect() that failed against a silent gateway and a second one "
                          f"that returned, send raised {sd and type(sd[1]).__name__}: {sd and sd[1]}", wit)
            return
        p = check_answer(driver, sd[2], sd[1], sim.bus.wire, t_from=sd[3])
        if p:
            res.violation(f"C17/{driver}/connect-retry/wrong-result", f"send({sd[2]}) {p}", wit)
    finally:
        sim.close()


# --------------------------------------------------------------------------------------------- C: serial silence

def silence_case(driver, seed, i, res):
    import dali.driver.serial as S
    r = rng(seed, "C17", "silence", driver, i)
    kind = r.choice(["no-confirm", "no-answer", "dead", "no-second-confirm", "mid-frame", "mid-frame"])
    ckind = r.choice(["query", "plain", "twice", "devquery", "dtquery"])
    picker = simlib.Picker(r)
    sim = simlib.Sim(driver, picker)
    drv_cls = S.DriverLubaRs232 if driver == "luba" else S.DriverSCIRS232
    t_confirm, t_rx = drv_cls.timeout_tx_confirm, drv_cls.timeout_rx
    log = {}

    async def main(sim):
        await sim.connect()
        warm = simlib.make_command(r, "query", 0, 0, driver)
        log["warm"] = await sim.driver.send(warm)
        await asyncio.sleep(0.2)
        dev = sim.dev
        if kind == "no-confirm":
            dev.confirm = False
        elif kind == "no-answer":
            dev.answering = False
        elif kind == "dead":
            dev.silent = True
        elif kind == "mid-frame":
            # the gateway dies part-way through its next message and stays silent
            orig_send = dev.send
            cut = r.randint(1, 4)

            def send_cut(delay, data, orig_send=orig_send):
                if not dev.silent:
                    orig_send(delay, bytes(data)[:cut])
                    dev.silent = True
            dev.send = send_cut
            dev.send_whole = lambda delay, data: send_cut(delay, data)
        elif kind == "no-second-confirm":
            orig = dev._sent
            state = {"n": 0}

            def sent(last, *a, **kw):
                state["n"] += 1
                if last and state["n"] > 1:
                    dev.confirm = False
                return orig(last, *a, **kw)
            dev._sent = sent
        cmd = simlib.make_command(r, ckind, 1, 3, driver)
        log["cmd"] = cmd
        t0 = sim.world.now
        try:
            log["result"] = ("ok", await sim.driver.send(cmd))
        except Exception as e:
            log["result"] = ("exc", e)
        log["elapsed"] = sim.world.now - t0
        log["locked_after"] = sim.driver.transaction_lock.locked()
        if kind == "mid-frame":
            # while the gateway is still silent a further send must also fail within the documented timeouts
            cmd1 = simlib.make_command(r, "plain", 2, 2, driver)
            t0 = sim.world.now
            try:
                await sim.driver.send(cmd1)
                log["second"] = ("ok", sim.world.now - t0)
            except Exception as e:
                log["second"] = ("exc", sim.world.now - t0, e)
            dev.__dict__.pop("send", None)
            dev.__dict__.pop("send_whole", None)
        # recovery
        dev.confirm = dev.answering = True
        dev.silent = False
        dev.__dict__.pop("_sent", None)
        await asyncio.sleep(2.0)
        # the receiver may still hold the truncated frame: allow it a few frames to resynchronise
        for attempt in range(1 if kind != "mid-frame" else 4):
            cmd2 = simlib.make_command(r, "query", 2, 5 + attempt, driver)
            t1 = sim.world.now
            try:
                log["after"] = ("ok", await asyncio.wait_for(sim.driver.send(cmd2), 10.0), cmd2, t1)
                if check_answer(driver, cmd2, log["after"][1], sim.bus.wire, t_from=t1) is None:
                    break
            except Exception as e:
                log["after"] = ("exc", e, cmd2, t1)
            await asyncio.sleep(0.5)
        return True

    out, stalled = sim.run(main)
    res.evaluations += 1
    res.distinct += 1
    res.hit("serial_silence_runs")
    cmd = log.get("cmd")
    wit = {"driver": driver, "seed": seed, "case": i, "silence": kind, "command": str(cmd), "result": repr(log.get("result"))[:100],
           "elapsed_virtual_s": round(log.get("elapsed", -1), 4)}
    try:
        if simlib.detached(out):
            res.inconclusive.append('harness detached: ' + str(out))
            return
        if stalled or out is not True:
            res.violation(f"C17/{driver}/hang-on-silence/{kind}", f"send() never returned after the gateway went silent ({kind}): "
                          f"{'stall' if stalled else repr(out)}", wit)
            return
        st, val = log["result"]
        twice = bool(cmd.sendtwice)
        bound = t_confirm * (2 if twice else 1) + t_rx + 0.35 + 0.05       # queueing in the model (<= 0.3 s) + documented timeouts
        if log["elapsed"] > bound:
            res.violation(f"C17/{driver}/silence-timeout-exceeded", f"send() took {log['elapsed']:.3f} virtual seconds, documented timeouts allow {bound:.3f}", wit)
        if log["locked_after"]:
            res.violation(f"C17/{driver}/lock-held-after-silence", "transaction_lock still held after send() ended", wit)
        if kind == "mid-frame":
            sec = log.get("second")
            if sec is None or sec[1] > t_confirm + t_rx + 0.4:
                res.violation(f"C17/{driver}/hang-on-silence/mid-frame", f"a send issued while the gateway was silent took {sec and sec[1]} virtual seconds", wit)
        confirm_missing = kind in ("no-confirm", "dead") or (kind == "no-second-confirm" and twice)
        if kind == "mid-frame":
            confirm_missing = None
        if confirm_missing is None:
            pass
        elif confirm_missing:
            if st != "exc":
                res.violation(f"C17/{driver}/missing-confirmation-not-reported", f"the gateway never confirmed the transmission but send() returned {val!r}", wit)
        else:
            if st == "exc":
                res.violation(f"C17/{driver}/send-raised/{type(val).__name__}", f"{kind}: send raised {type(val).__name__}: {val}", {**wit, "tb": short_tb(val)})
            elif cmd.response is not None:
                if type(val) is not cmd.response or (kind == "no-answer" and val.raw_value is not None):
                    res.violation(f"C17/{driver}/silent-answer-wrong", f"{kind}: send returned {val!r} (raw {getattr(val, 'raw_value', None)!r})", wit)
            elif val is not None:
                res.violation(f"C17/{driver}/silent-answer-wrong", f"{kind}: non-query returned {val!r}", wit)
        a = log.get("after")
        if kind == "mid-frame" and driver == "sci" and (a is None or a[0] == "exc" or check_answer(driver, a[2], a[1], sim.bus.wire, t_from=a[3])):
            # the SCI protocol has fixed five-byte frames and no start marker: after a truncated frame the receiver stays
            # misaligned.  The property only demands that sends fail within the timeout with the lock released.
            res.observe("sci-receiver-stays-misaligned-after-truncated-frame", "no recovery after mid-frame silence")
        elif a is None or a[0] == "exc":
            res.violation(f"C17/{driver}/no-recovery-after-silence", f"a send after the gateway recovered failed: {a and a[1]!r}", wit)
        else:
            p = check_answer(driver, a[2], a[1], sim.bus.wire, t_from=a[3])
            if p:
                res.violation(f"C17/{driver}/wrong-result/after-silence", f"after the gateway recovered a send {p}", wit)
        res.hit("state_checked")
        probs = state_problems(sim, driver)
        if probs:
            res.violation(f"C17/{driver}/state-not-clean/after-silence", "; ".join(probs), wit)
    finally:
        sim.close()


def run_shard(desc, tier, seed):
    res = Result()
    simlib.import_all()
    _drv = desc.get("driver")
    if _drv in simlib.DRIVERS and "replay" not in desc:
        why = simlib.probe_attach(_drv)
        if why:
            res.inconclusive.append(why)
            return res
    if "replay" in desc:
        for d in plan("quick", seed):
            r2 = run_shard(d, "quick", seed)
            for v in r2.violations:
                if v["key"] == desc["replay"]["key"]:
                    res.violation(v["key"], v["what"], v["witness"])
            res.evaluations += r2.evaluations
        return res
    try:
        if desc["kind"] == "loss":
            times = base_run_times(desc["driver"], seed)
            for i in range(desc["n"]):
                loss_case(desc["driver"], seed, desc["part"], i, res, times)
        elif desc["kind"] == "cancel":
            for k in range(1, desc["steps"] + 1):
                cancel_case(desc["driver"], seed, k, desc["after"], res)
            if desc["driver"] in ("tridonic", "hasseb"):
                for k in range(desc["steps"] // 2):
                    eagain_case(desc["driver"], seed, k, desc["after"], res)
                for k in range(desc["steps"] // 2):
                    second_round_case(desc["driver"], seed, k, res)
                if desc["driver"] == "tridonic":        # the hasseb driver has no handshake: it is 'connected' once the node is open
                    for k in range(desc["steps"]):
                        handshake_write_error_case(desc["driver"], seed, k, res)
        else:
            for i in range(desc["n"]):
                silence_case(desc["driver"], seed, i, res)
            for i in range(12):
                serial_connect_retry_case(desc["driver"], seed, i, res)
    except Exception as e:
        res.inconclusive.append("harness error: " + short_tb(e))
    return res
