"""C12 - event messages: scheme fields and instance-type resolution are exact.

Oracle: models/events_ref.py (independent IEC 62386-103 Table 3 slicer + parts 301/303/304 data tables).
"""
from vlib.common import Result, rng, short_tb
from models import events_ref as E

PROP = "C12"
LEVEL = "exploration"
CONTRACTS = "light"
RULE = ("one case = one (24-bit event-space frame, instance map) decoded by the library and sliced by the reference; "
        "frames are enumerated (quick: all 8192 scheme/field headers x 40 data values; thorough: all 2^23); "
        "map cases enumerate (address, instance, type 0..31, data); distinct = distinct (frame, map) pairs")
ASSUMPTIONS = ["models/events_ref.py transcribes 103 Table 3 and the event-information tables of parts 301/303/304"]
EXHAUSTIVE = {"quick": False, "thorough": True}
REQUIRED_ANCHORS = {"all": ["events_sliced", "non_events", "map_hits", "map_misses", "retry_checked",
                            "map_builders_compared", "import_surface_checked"]}
SHARD_TIMEOUT = {"quick": 600, "thorough": 3000}


def plan(tier, seed):
    sh = []
    if tier == "quick":
        for p in range(8):
            sh.append({"kind": "space", "hlo": 1024 * p, "hhi": 1024 * (p + 1), "data": "sample"})
        for p in range(8):
            sh.append({"kind": "maps", "alo": 8 * p, "ahi": 8 * (p + 1), "data": "sample"})
    else:
        for p in range(64):
            sh.append({"kind": "space", "hlo": 128 * p, "hhi": 128 * (p + 1), "data": "all"})
        for p in range(32):
            sh.append({"kind": "maps", "alo": 2 * p, "ahi": 2 * (p + 1), "data": "more"})
    sh.append({"kind": "builders"})
    sh.append({"kind": "user-events"})
    return sh


def _imports():
    import dali.device.pushbutton, dali.device.occupancy, dali.device.light  # noqa


def compare(ev, v, sl, itype, res, ctx):
    """Compare a decoded event with the reference slice (itype = instance type to use for the data)."""
    import dali.device.general as dg
    wit = {"frame": v, "ctx": ctx}
    name = type(ev).__name__
    want_cls = E.event_class(itype, sl["data"])
    if name != want_cls:
        res.violation(f"C12/class/{sl['scheme']}/{want_cls}",
                      f"frame {v:#08x} ({sl['scheme']}, type {itype}, info {sl['data']:#x}) decoded as {name}, "
                      f"the standard's tables give {want_cls}", wit)
        return
    got = {}
    try:
        sa = ev.short_address
        got["short_address"] = None if sa is None else sa.address
        got["instance_number"] = ev.instance_number
        got["device_group"] = ev.device_group
        got["instance_group"] = ev.instance_group
        got["instance_type"] = ev.instance_type
    except Exception as e:
        res.violation(f"C12/field-raised/{name}", f"reading source fields raised {type(e).__name__}: {e}", wit)
        return
    want = {k: sl[k] for k in ("short_address", "instance_number", "device_group", "instance_group")}
    want["instance_type"] = itype
    if got != want:
        diff = {k: (got[k], want[k]) for k in want if got[k] != want[k]}
        res.violation(f"C12/fields/{sl['scheme']}/{'+'.join(sorted(diff))}",
                      f"frame {v:#08x} ({sl['scheme']}): source fields (got, expected) differ: {diff}", wit)
    # 10 bits of event information
    d = sl["data"]
    try:
        if want_cls == "OccupancyEvent":
            fl = E.occupancy_flags(d)
            gotf = dict(movement=ev.movement, occupied=ev.occupied, repeat=ev.repeat, sensor_type=ev.sensor_type)
            ed = ev.event_data
            if gotf != fl or tuple(ed) != tuple(fl.values()):
                res.violation("C12/data/occupancy", f"frame {v:#08x}: occupancy flags {gotf}, event info {d:#x} means {fl}", wit)
        elif want_cls == "LightEvent":
            if ev.illuminance != d or ev.event_data != d:
                res.violation("C12/data/light", f"frame {v:#08x}: illuminance {ev.illuminance}, event info is {d}", wit)
        elif want_cls == "UnknownEvent":
            if ev.event_data != d:
                res.violation("C12/data/unknown", f"frame {v:#08x}: unknown event carries data {ev.event_data}, frame has {d}", wit)
        else:
            if ev.frame.as_integer % 1024 != d:
                res.violation("C12/data/pushbutton", f"frame {v:#08x}: {name} re-encodes event info {ev.frame.as_integer % 1024}", wit)
    except Exception as e:
        res.violation(f"C12/data-raised/{name}", f"reading event data raised {type(e).__name__}: {e}", wit)


_BUSY = []


def BUSY_MAP():
    """A map with an entry for every (address, number): numbers name types 3, 4, 1 in turn."""
    if not _BUSY:
        from dali.device.helpers import DeviceInstanceTypeMapper
        m = DeviceInstanceTypeMapper()
        for a in range(64):
            for i in range(32):
                m.add_type(short_address=a, instance_number=i, instance_type=(3, 4, 1)[(a + i) % 3])
        _BUSY.append(m)
    return _BUSY[0]


def run_space(desc, tier, seed, res):
    from dali import command, frame
    import dali.device.general as dg
    _imports()
    r = rng(seed, "C12", "space", desc["hlo"])
    if desc["data"] == "all":
        datas = list(range(1024))
    else:
        datas = sorted(set(list(range(0, 18)) + [31, 32, 63, 64, 127, 128, 255, 256, 511, 512, 1008, 1022, 1023] +
                           [r.getrandbits(10) for _ in range(10)]))
    for h in range(desc["hlo"], desc["hhi"]):
        top7 = h >> 6          # bits 23..17
        b15 = (h >> 5) & 1
        f5 = h & 31            # bits 14..10
        base = (top7 << 17) | (b15 << 15) | (f5 << 10)
        for d in datas:
            v = base | d
            res.evaluations += 1
            # an event is an event whatever device type a listener believes to be enabled (ENABLE DEVICE TYPE is a 16-bit
            # matter): decoding under a claimed device type gives the same event
            dt = (0, 0, 6, 1, 255, 8)[(h + d) % 6]
            try:
                ev = command.from_frame(frame.ForwardFrame(24, v), devicetype=dt) if dt else command.from_frame(frame.ForwardFrame(24, v))
            except Exception as e:
                res.violation("C12/decode-raised", f"decoding event-space frame {v:#08x} raised {type(e).__name__}",
                              {"frame": v, "tb": short_tb(e)})
                continue
            if dt:
                res.hit("decoded_under_device_type")
            sl = E.slice_event(v)
            if sl is not None and sl["scheme"] != "device_instance" and (h + d) % 3 == 0:
                # only the device/instance scheme consults the instance map: every other scheme decodes the same with a
                # map full of entries (each naming another type) as without one
                res.hit("map_ignored_by_other_schemes")
                try:
                    the_map = BUSY_MAP()
                    if (h + d) % 2 and sl.get("instance_type") is not None:
                        # ... or with a map that knows exactly one instance of the frame's type (at the frame's address, if
                        # it carries one, and at another)
                        from dali.device.helpers import DeviceInstanceTypeMapper
                        the_map = DeviceInstanceTypeMapper()
                        for a_ in {sl["short_address"] if sl.get("short_address") is not None else 7, 9}:
                            the_map.add_type(short_address=a_, instance_number=(h + d) % 32, instance_type=sl["instance_type"])
                            the_map.add_type(short_address=a_, instance_number=(h + d + 1) % 32, instance_type=(sl["instance_type"] + 1) % 32)
                        res.hit("sparse_map_probes")
                    with_map = command.from_frame(frame.ForwardFrame(24, v), dev_inst_map=the_map)
                    if type(with_map) is not type(ev) or str(with_map) != str(ev) or with_map.frame != ev.frame:
                        res.violation(f"C12/map-consulted/{sl['scheme']}", f"frame {v:#08x} ({sl['scheme']} scheme) decodes as {ev} without a map "
                                      f"and as {with_map} with one; only device/instance frames depend on the map", {"frame": v})
                except Exception as e:
                    res.violation("C12/decode-raised", f"decoding {v:#08x} with a map raised {type(e).__name__}", {"frame": v, "tb": short_tb(e)})
            if sl is None:
                res.hit("non_events")
                if isinstance(ev, dg._Event):
                    res.violation("C12/reserved-scheme-decoded", f"frame {v:#08x} uses a reserved scheme but decoded as {type(ev).__name__}",
                                  {"frame": v})
                continue
            res.hit("events_sliced")
            if sl["scheme"] == "device_instance":
                # no map: ambiguous, still carrying fields and data
                if type(ev).__name__ != "AmbiguousInstanceType":
                    res.violation("C12/no-map-not-ambiguous", f"frame {v:#08x} decoded as {type(ev).__name__} without a map", {"frame": v})
                    continue
                sa = ev.short_address
                got = (None if sa is None else sa.address, ev.instance_number, ev.device_group, ev.instance_group,
                       ev.instance_type, ev.event_data)
                want = (sl["short_address"], sl["instance_number"], None, None, None, sl["data"])
                if got != want:
                    res.violation("C12/fields/ambiguous", f"frame {v:#08x}: ambiguous event reports {got}, frame carries {want}",
                                  {"frame": v})
                continue
            compare(ev, v, sl, sl["instance_type"], res, "no-map")
    res.distinct += (desc["hhi"] - desc["hlo"]) * len(datas)
    res.sample({"headers(bits23-17,15,14-10)": [desc["hlo"], desc["hhi"] - 1], "data_values": len(datas)})


def run_maps(desc, tier, seed, res):
    from dali import command, frame, address
    from dali.device.helpers import DeviceInstanceTypeMapper
    _imports()
    r = rng(seed, "C12", "maps", desc["alo"])
    base_data = [0, 1, 2, 5, 9, 11, 12, 14, 15, 16, 3, 1023]
    n_extra = {"sample": 2, "more": 24}[desc["data"]]
    for a in range(desc["alo"], desc["ahi"]):
        for i in range(32):
            datas = sorted(set(base_data + [r.getrandbits(10) for _ in range(n_extra)]))
            for t in range(32):
                hit = DeviceInstanceTypeMapper()
                hit.add_type(short_address=a, instance_number=i, instance_type=t)
                hit.add_type(short_address=(a + 1) % 64, instance_number=i, instance_type=(t + 1) % 32)
                miss = DeviceInstanceTypeMapper()
                miss.add_type(short_address=(a + 1) % 64, instance_number=i, instance_type=t)
                miss.add_type(short_address=a, instance_number=(i + 1) % 32, instance_type=t)
                for d in datas:
                    v = E.encode_event("device_instance", None, d, short_address=a, instance_number=i)
                    sl = E.slice_event(v)
                    res.evaluations += 1
                    f = frame.ForwardFrame(24, v)
                    try:
                        ev = command.from_frame(f, dev_inst_map=hit)
                        ev_miss = command.from_frame(f, dev_inst_map=miss)
                        amb = command.from_frame(f)
                    except Exception as e:
                        res.violation("C12/decode-raised", f"decoding {v:#08x} with a map raised {type(e).__name__}",
                                      {"frame": v, "type": t, "tb": short_tb(e)})
                        continue
                    res.hit("map_hits")
                    compare(ev, v, sl, t, res, f"map->{t}")
                    # as if the type were in the frame: same class and data as the device-scheme frame of that type
                    try:
                        twin = command.from_frame(frame.ForwardFrame(
                            24, E.encode_event("device", t, d, short_address=a)))
                        if type(twin) is not type(ev):
                            res.violation("C12/map-differs-from-in-frame-type",
                                          f"frame {v:#08x} via map type {t} decodes as {type(ev).__name__}, the device-scheme "
                                          f"frame with type {t} in the frame decodes as {type(twin).__name__}", {"frame": v, "type": t})
                    except Exception:
                        pass
                    res.hit("map_misses")
                    if type(ev_miss).__name__ != "AmbiguousInstanceType":
                        res.violation("C12/map-miss-not-ambiguous",
                                      f"frame {v:#08x}: map has no entry for ({a},{i}) but decoding gave {type(ev_miss).__name__}",
                                      {"frame": v, "type": t})
                    # retry of the ambiguous event
                    res.hit("retry_checked")
                    try:
                        again = amb.retry_decode(hit)
                        still = amb.retry_decode(miss)
                    except Exception as e:
                        res.violation("C12/retry-raised", f"retry_decode raised {type(e).__name__}: {e}", {"frame": v, "type": t})
                        continue
                    if still is not None:
                        res.violation("C12/retry-not-none", f"retry_decode with a map lacking the entry returned {type(still).__name__}",
                                      {"frame": v})
                    if again is None or type(again) is not type(ev) or str(again) != str(ev) or \
                            again.frame != ev.frame or again.frame.as_integer != v or \
                            _fields(again) != _fields(ev):
                        res.violation("C12/retry-differs",
                                      f"frame {v:#08x}: retry_decode gives {again}, direct decoding with the same map gives {ev}",
                                      {"frame": v, "type": t})
            res.distinct += 32 * len(datas)
    res.sample({"addresses": [desc["alo"], desc["ahi"] - 1], "instances": "0..31", "types": "0..31",
                "data_values_per_pair": len(datas)})


def _fields(ev):
    sa = ev.short_address
    return (None if sa is None else sa.address, ev.instance_number, ev.device_group, ev.instance_group,
            ev.instance_type, ev.event_data)


def run_builders(seed, res):
    for trial in range(300):
        try:
            _builder_trial(seed, trial, res)
        except Exception as e:
            res.violation(f"C12/map-builder/raised/{type(e).__name__}", f"building or querying an instance map raised {type(e).__name__}: {e}", {"trial": trial, "tb": short_tb(e)})
    res.sample({"map_builders": ["int", "objects", "modules", "initial dict"], "trials": 300})


def _builder_trial(seed, trial, res):
    """Maps built through integer, address-object and module arguments are the same mapping."""
    from dali import command, frame, address
    from dali.device.helpers import DeviceInstanceTypeMapper
    import dali.device.pushbutton as pb, dali.device.occupancy as oc, dali.device.light as li
    mods = {1: pb, 3: oc, 4: li}
    r = rng(seed, "C12", "builders", trial)
    if True:
        entries = [(r.randrange(64), r.randrange(32), r.choice([1, 3, 4, 1, 3, 4, r.randrange(32)])) for _ in range(r.randint(1, 12))]
        m_int, m_obj, m_mod, m_init = (DeviceInstanceTypeMapper() for _ in range(4))
        final = {}
        for a, i, t in entries:
            m_int.add_type(short_address=a, instance_number=i, instance_type=t)
            m_obj.add_type(short_address=address.DeviceShort(a), instance_number=address.InstanceNumber(i), instance_type=t)
            m_mod.add_type(short_address=a, instance_number=address.InstanceNumber(i), instance_type=mods.get(t, t))
            final[(a, i)] = t
        m_init = DeviceInstanceTypeMapper(dict(final))
        res.evaluations += 1
        res.distinct += 1
        res.hit("map_builders_compared")
        maps = {"int": m_int, "objects": m_obj, "modules": m_mod, "initial": m_init}
        for nm, m in maps.items():
            if dict(m.mapping) != final:
                res.violation(f"C12/map-builder/{nm}", f"mapping built through {nm} arguments is {m.mapping}, expected {final}",
                              {"entries": entries})
        for (a, i), t in final.items():
            for nm, m in maps.items():
                g1 = m.get_type(short_address=a, instance_number=i)
                g2 = m.get_type(short_address=address.DeviceShort(a), instance_number=address.InstanceNumber(i))
                if g1 != t or g2 != t:
                    res.violation(f"C12/map-lookup/{nm}", f"get_type({a},{i}) -> {g1}/{g2}, expected {t}", {"entries": entries})
            v = E.encode_event("device_instance", None, r.choice([0, 1, 5, 700]), short_address=a, instance_number=i)
            outs = {nm: str(command.from_frame(frame.ForwardFrame(24, v), dev_inst_map=m)) for nm, m in maps.items()}
            if len(set(outs.values())) != 1:
                res.violation("C12/map-builder/decode-differs", f"frame {v:#08x} decodes differently per map builder: {outs}",
                              {"entries": entries})
        # an address the map does not know
        free = [(a, i) for a in range(64) for i in range(32) if (a, i) not in final][:3]
        for a, i in free:
            if m_int.get_type(short_address=a, instance_number=i) is not None:
                res.violation("C12/map-lookup/phantom", f"get_type({a},{i}) invented an entry", {"entries": entries})
        # an ambiguous event the application kept, retried against a map that changes between the retries
        res.hit("retry_after_map_change")
        (a0, i0), t0 = next(iter(final.items()))
        v0 = E.encode_event("device_instance", None, 5, short_address=a0, instance_number=i0)
        pending = command.from_frame(frame.ForwardFrame(24, v0))
        other = DeviceInstanceTypeMapper()
        n_entries = r.randint(1, 4)
        for k in range(n_entries):
            other.add_type(short_address=(a0 + 1 + k) % 64, instance_number=i0, instance_type=1)
        try:
            first = pending.retry_decode(other)
            other.clear()
            for k in range(n_entries - 1):
                other.add_type(short_address=(a0 + 1 + k) % 64, instance_number=(i0 + 1) % 32, instance_type=3)
            other.add_type(short_address=a0, instance_number=i0, instance_type=t0)      # same size as before, now naming the sender
            second = pending.retry_decode(other)
            direct = command.from_frame(frame.ForwardFrame(24, v0), dev_inst_map=other)
            if first is not None:
                res.violation("C12/retry-not-none", f"retry_decode with a map lacking the entry returned {type(first).__name__}", {"frame": v0})
            elif second is None or type(second) is not type(direct) or str(second) != str(direct):
                res.violation("C12/retry-after-map-change", f"frame {v0:#08x}: after the map was cleared and refilled (same number of entries, now "
                              f"naming the sender) retry_decode gives {second}, direct decoding with that map gives {direct}", {"frame": v0})
        except Exception as e:
            res.violation(f"C12/retry-raised", f"retry_decode raised {type(e).__name__}: {e}", {"frame": v0})
        m_obj.clear()
        if m_obj.mapping:
            res.violation("C12/map-clear", "clear() left entries behind", {})
        # a cleared map is an empty map: lookups, decoding and later additions behave as on a fresh one
        res.hit("map_reuse_after_clear")
        for (a, i), t in list(final.items())[:4]:
            v = E.encode_event("device_instance", None, 5, short_address=a, instance_number=i)
            if m_obj.get_type(short_address=a, instance_number=i) is not None:
                res.violation("C12/map-clear/stale-lookup", f"get_type({a},{i}) still answers {m_obj.get_type(short_address=a, instance_number=i)} "
                              "after clear()", {"entries": entries})
                break
            ev = command.from_frame(frame.ForwardFrame(24, v), dev_inst_map=m_obj)
            if type(ev).__name__ != "AmbiguousInstanceType":
                res.violation("C12/map-clear/stale-decode", f"frame {v:#08x} decodes as {type(ev).__name__} through a cleared map",
                              {"entries": entries})
                break
            t2 = [x for x in (1, 3, 4) if x != t][trial % 2]
            m_obj.add_type(short_address=a, instance_number=i, instance_type=t2)
            fresh = DeviceInstanceTypeMapper()
            fresh.add_type(short_address=a, instance_number=i, instance_type=t2)
            e1 = command.from_frame(frame.ForwardFrame(24, v), dev_inst_map=m_obj)
            e2 = command.from_frame(frame.ForwardFrame(24, v), dev_inst_map=fresh)
            if type(e1) is not type(e2) or str(e1) != str(e2) or m_obj.get_type(short_address=a, instance_number=i) != t2:
                res.violation("C12/map-clear/later-entry-ignored", f"after clear() and add_type(({a},{i}) -> {t2}) the frame {v:#08x} decodes "
                              f"as {e1}; a fresh map with that entry gives {e2}", {"entries": entries})
                break


def run_user_events(seed, res):
    """An application adds its own event classes (a vendor's instance type, helper bases): frames of the types the library
    knows, unmapped device/instance frames and frames of still unknown types decode as before; frames of the new type
    decode through the new class from then on."""
    from dali import command, frame
    import dali.device.general as dg
    _imports()
    r = rng(seed, "C12", "user-events")

    def dec(v, m=None):
        return command.from_frame(frame.ForwardFrame(24, v), dev_inst_map=m)
    probes = []
    for _ in range(300):
        scheme = r.choice(["device", "instance", "device_instance", "device_group", "instance_group"])
        t = r.choice([1, 3, 4, 6, 6, 7, 0, 31])
        d = r.getrandbits(10)
        kw = {"device": dict(short_address=r.randrange(64)), "instance": dict(instance_number=r.randrange(32)),
              "device_instance": dict(short_address=r.randrange(64), instance_number=r.randrange(32)),
              "device_group": dict(device_group=r.randrange(32)), "instance_group": dict(instance_group=r.randrange(32))}[scheme]
        probes.append((scheme, t, d, E.encode_event(scheme, None if scheme == "device_instance" else t, d, **kw)))
    before = {v: (type(dec(v)).__name__, str(dec(v))) for (_s, _t, _d, v) in probes}
    v6 = E.encode_event("device", 6, 0x155, short_address=9)
    probes.insert(0, ("device", 6, 0x155, v6))
    before[v6] = (type(dec(v6)).__name__, str(dec(v6)))       # the last frame decoded before the new classes exist is of the new type
    # helper classes that do not name an instance type of their own
    type("VendorUnknown", (dg.UnknownEvent,), {"__module__": "application"})
    type("VendorEventBase", (dg._Event,), {"__module__": "application"})

    def from_event_data(cls, event_data):
        return cls

    def _set_event_data(self, set_data, set_frame):
        self._event_info = set_data
        set_frame[9:0] = set_data
    # modelled on the library's own LightEvent: one class for the type, the 10 bits are its data
    Vendor6 = type("Vendor6Event", (dg._Event,), {"__module__": "application", "_instance_type": 6, "_event_info": 0,
                                                  "from_event_data": classmethod(from_event_data),
                                                  "_set_event_data": _set_event_data,
                                                  "event_data": property(lambda self: self._event_info)})
    for scheme, t, d, v in probes:
        res.evaluations += 1
        res.hit("user_event_probes")
        try:
            now = dec(v)
        except Exception as e:
            res.violation(f"C12/user-events/raised/{type(e).__name__}", f"after an application defined its own event classes, decoding "
                          f"{v:#08x} ({scheme}, type {t}) raised {type(e).__name__}: {e}", {"frame": v, "scheme": scheme})
            continue
        if scheme != "device_instance" and t == 6:
            if type(now) is not Vendor6:
                res.violation("C12/user-events/new-type-not-used", f"frame {v:#08x} carries instance type 6, for which the application registered "
                              f"a class; it decodes as {type(now).__name__}", {"frame": v})
        elif (type(now).__name__, str(now)) != before[v]:
            res.violation("C12/user-events/other-frames-changed", f"frame {v:#08x} ({scheme}, type {t}) decoded as {before[v][1]} before the "
                          f"application defined its own event classes and as {now} afterwards", {"frame": v, "scheme": scheme})
    res.sample({"user_events": "VendorUnknown(UnknownEvent), VendorEventBase(_Event), Vendor6Event(type 6)", "probes": len(probes)})


def run_import_surface(res):
    """What an application gets from `import dali.device` alone: the event classes of parts 301, 303 and 304 are registered
    (they register themselves when their module is imported - by the package, not by whoever happens to name them)."""
    import subprocess
    import sys
    import json
    import os
    code = r'''
import sys, json
sys.path.insert(0, sys.argv[1]); sys.path.insert(0, sys.argv[2])
import dali.device                      # the package, nothing more
from dali import command, frame
from dali.device.helpers import DeviceInstanceTypeMapper
from models import events_ref as E
bad = []
m = DeviceInstanceTypeMapper()
for t, n in ((1, 1), (3, 3), (4, 4)):
    m.add_type(short_address=5, instance_number=n, instance_type=t)
for itype, datas in ((1, (0, 1, 2, 5, 9, 11, 12, 13, 14, 15, 700)), (3, (0, 3, 10, 15, 16)), (4, (0, 1, 512, 1023)), (2, (0, 7)), (6, (1,))):
    for data in datas:
        for scheme in ("device", "device_group", "instance", "instance_group", "device_instance"):
            v = E.encode_event(scheme, itype, data, short_address=5, instance_number=itype if scheme == "device_instance" else 2,
                               device_group=3, instance_group=4)
            if scheme == "device_instance" and itype not in (1, 3, 4):
                continue
            back = command.from_frame(frame.ForwardFrame(24, v), dev_inst_map=m if scheme == "device_instance" else None)
            want = E.event_class(itype, data)
            if type(back).__name__ != want:
                bad.append([hex(v), scheme, itype, data, type(back).__name__, want])
print(json.dumps({"bad": bad, "modules": sorted(x for x in sys.modules if x.startswith("dali."))}))
'''
    here = os.path.dirname(os.path.dirname(os.path.abspath(__file__)))
    repo = os.environ.get("VERIF_REPO", "/repo")
    p = subprocess.run([sys.executable, "-B", "-c", code, here, repo], capture_output=True, text=True, timeout=300)
    res.evaluations += 1
    res.hit("import_surface_checked")
    if p.returncode != 0:
        res.inconclusive.append("import-surface probe failed: " + p.stderr[-400:])
        return
    info = json.loads(p.stdout.strip().splitlines()[-1])
    for v, scheme, itype, data, got, want in info["bad"][:4]:
        res.violation(f"C12/import-surface/{want}", f"after `import dali.device` alone, frame {v} ({scheme} scheme, instance type {itype}, "
                      f"info {data:#x}) decodes as {got}, the standard's tables give {want} ({len(info['bad'])} probes affected; "
                      f"modules loaded: {[m_ for m_ in info['modules'] if m_.startswith('dali.device')]})",
                      {"frame": v, "modules_loaded": info["modules"]})


def run_shard(desc, tier, seed):
    res = Result()
    if "replay" in desc:
        for d in plan("quick", seed):
            r2 = run_shard(d, "quick", seed)
            for v in r2.violations:
                if v["key"] == desc["replay"]["key"]:
                    res.violation(v["key"], v["what"], v["witness"])
            res.evaluations += r2.evaluations
        return res
    k = desc["kind"]
    if k == "space":
        run_space(desc, tier, seed, res)
    elif k == "maps":
        run_maps(desc, tier, seed, res)
    elif k == "user-events":
        run_user_events(seed, res)
        run_import_surface(res)
    else:
        run_builders(seed, res)
    return res
