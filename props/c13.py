"""C13 - control-device sequences move multi-byte settings and scan results intact.

Executed: dali.device.sequences.query_input_value / SetEventFilters / QueryEventFilters /
SetEventSchemes and DeviceInstanceTypeMapper.autodiscover against models/device103.Device units.
"""
from vlib.common import Result, rng, short_tb

PROP = "C13"
LEVEL = "exploration"
CONTRACTS = "icontract"
RULE = ("input value: (resolution 1..32, value[, explicit resolution argument]); filters: (enum width 8/16/24, flag "
        "set, stale DTR contents); schemes: (scheme, stale DTR0); discovery: one bus population (0..64 devices, status "
        "bits, 0..32 instances, enabled flags, types) [+ one fault (kind, command index)]; distinct = distinct cases")
ASSUMPTIONS = ["models/device103.py: 103 9.7.2 left-aligned input value with repetition padding; SET EVENT FILTER loads "
               "DTR2:DTR1:DTR0 and an instance keeps only the bits its type implements",
               "'healthy' device = answers QUERY DEVICE STATUS cleanly with neither 'short address is mask' nor 'reset state'"]
EXHAUSTIVE = {"quick": False, "thorough": False}
REQUIRED_ANCHORS = {"all": ["input_values_checked", "filters_8", "filters_16", "filters_24", "query_filters_checked",
                            "schemes_checked", "discovery_runs", "discovery_faults", "sequence_faults", "interleaved_pairs", "abandoned_sequences", "rescans"]}
SHARD_TIMEOUT = {"quick": 600, "thorough": 3000}


def plan(tier, seed):
    sh = []
    for res_lo in range(1, 33, 4):
        sh.append({"kind": "input", "rlo": res_lo, "rhi": res_lo + 4, "random": 60 if tier == "quick" else 2000})
    for w in (8, 16, 24):
        sh.append({"kind": "filters", "width": w, "n": 1500 if tier == "quick" else 6000})
    sh.append({"kind": "schemes"})
    sh.append({"kind": "interleaved", "n": 300 if tier == "quick" else 5000})
    nd = 8 if tier == "quick" else 64
    for p in range(nd):
        sh.append({"kind": "discovery", "part": p, "n": (640 if tier == "quick" else 12800) // nd})
    return sh


def mk_filter_enum(width):
    """User-defined InstanceEventFilter subclasses of the three widths (the shipped ones are all 8 bits wide)."""
    from dali.device import general
    n = {8: 7, 16: 12, 24: 20}[width]
    members = {f"flag{i}": 1 << i for i in range(n)}
    if width == 24:
        members["top"] = 1 << 23
        members["mid"] = 1 << 15
        del members["flag19"], members["flag18"]
    return general.InstanceEventFilter(f"UserFilter{width}", members)


def one_device(**inst_kw):
    """A bus with the target device at short address 9; the target instance is number 1.  See many_instances()."""
    return many_instances(9, 1, 3, **inst_kw)


def many_instances(short, index, n, **inst_kw):
    """Target device `short` with n instances, the target at `index`; another device at the next address."""
    from models.device103 import Device, Instance
    from models.bus import Bus
    insts = [Instance(itype=1 if k % 2 else 4) for k in range(n)]
    insts[index] = Instance(**inst_kw)
    dev = Device(short=short, instances=insts, name="target")
    other = Device(short=(short + 1) % 64, instances=[Instance(itype=3, filt=0x15, scheme=1)], name="other")
    return Bus([dev, other], bound=100), dev, other


# --------------------------------------------------------------------------- input value

def run_input(desc, seed, res):
    from dali import address
    from dali.device.sequences import query_input_value
    from dali.exceptions import DALISequenceError
    r = rng(seed, "C13", "input", desc["rlo"])
    for resolution in range(desc["rlo"], desc["rhi"]):
        if resolution <= (12 if desc["random"] < 1000 else 15):
            values = range(1 << resolution)
        else:
            top = (1 << resolution) - 1
            values = sorted({0, 1, top, top - 1, 1 << (resolution - 1), (1 << (resolution - 1)) - 1, 0xFF, 0x100,
                             top // 3} | {r.getrandbits(resolution) for _ in range(desc["random"])})
            values = [v for v in values if v <= top]
        for vi, v in enumerate(values):
            explicit = vi % 3 == 0
            sa, idx = (vi * 5 + resolution) % 64, (vi + resolution) % 32
            bus, dev, other = many_instances(sa, idx, 32, itype=4, resolution=resolution, value=v)
            res.evaluations += 1
            res.distinct += 1
            res.hit("input_values_checked")
            wit = {"sequence": "query_input_value", "resolution": resolution, "value": v, "explicit_resolution": explicit}
            try:
                d = sa if vi % 2 else address.DeviceShort(sa)
                i = idx if vi % 2 else address.InstanceNumber(idx)
                if vi % 4 == 1:
                    got = bus.run_sequence(query_input_value(instance=i, device=d, resolution=resolution if explicit else None))
                else:
                    got = bus.run_sequence(query_input_value(d, i, resolution if explicit else None))
            except Exception as e:
                res.violation(f"C13/input/raised/{type(e).__name__}", f"resolution {resolution} value {v}: {type(e).__name__}: {e}", wit)
                continue
            if got != v:
                res.violation("C13/input/value", f"{resolution}-bit value {v:#x} reassembled as {got!r} "
                              f"(device {sa} instance {idx}, unit bytes {dev.instances[idx].input_bytes()})", wit)
        # faults at each step
        for pos in range(0, 1 + (resolution + 7) // 8 + 1):
            for fk in ("silence", "garble"):
                bus, dev, other = one_device(itype=4, resolution=resolution, value=(1 << resolution) - 1)
                res.evaluations += 1
                res.hit("sequence_faults")
                wit = {"sequence": "query_input_value", "resolution": resolution, "fault": fk, "at": pos}
                try:
                    got = bus.run_sequence(query_input_value(address.DeviceShort(9), address.InstanceNumber(1)),
                                           fault_at=pos, fault_kind=fk)
                except DALISequenceError:
                    continue
                except Exception as e:
                    res.violation(f"C13/input-fault/raised/{type(e).__name__}", f"{fk} at {pos}: {type(e).__name__}: {e}", wit)
                    continue
                if pos < bus.n_commands and got is not None:
                    res.violation("C13/input-fault/value-returned", f"{fk} at command {pos} but the sequence returned {got!r}", wit)
    res.sample({"sequence": "query_input_value", "resolutions": [desc["rlo"], desc["rhi"] - 1]})


# --------------------------------------------------------------------------- filters

def run_filters(desc, seed, res):
    from dali import address
    from dali.device.sequences import SetEventFilters, QueryEventFilters
    from dali.device import pushbutton, occupancy, light
    r = rng(seed, "C13", "filters", desc["width"])
    width = desc["width"]
    enums = [mk_filter_enum(width)]
    if width == 8:
        enums += [pushbutton.InstanceEventFilter, occupancy.InstanceEventFilter, light.InstanceEventFilter]
    # the order in which widths are asked for must not matter: the generic base class and the shipped 8-bit filters are asked
    # first (an application listing the filter types it knows does that), then the wide user-defined one
    from dali.device import general as _g
    for base in (_g.InstanceEventFilter, pushbutton.InstanceEventFilter):
        try:
            base.dali_width()
        except Exception:
            pass
    res.hit("base_width_asked_first")
    for E in enums:
        try:
            dw = E.dali_width()
        except Exception as e:
            res.violation("C13/filter/dali_width-raised", f"{E.__name__}.dali_width() raised {type(e).__name__}", {})
            continue
        allbits = 0
        for m in E:
            allbits |= int(m)
        if width == 8 and len(E) <= 8:
            vals = [v for v in range(256) if v & ~allbits == 0]
        else:
            vals = sorted({0, allbits, 1, allbits & 0xFF, allbits & 0xFF00, allbits & 0xFF0000, allbits & 0x800000,
                           allbits & 0x00FF01} | {r.getrandbits(24) & allbits for _ in range(desc["n"])})
        for vi, v in enumerate(vals):
            fv = E(v)
            stale = (r.randrange(1, 256), r.randrange(1, 256), r.randrange(1, 256))
            prev = r.getrandbits(24) % (1 << width)
            sa, idx = (vi * 7) % 64, vi % 32
            bus, dev, other = many_instances(sa, idx, 32, itype=1, filt=prev, filter_bits=width)
            dev.dtr0, dev.dtr1, dev.dtr2 = stale
            res.evaluations += 1
            res.distinct += 1
            res.hit(f"filters_{width}")
            wit = {"sequence": "SetEventFilters", "enum": E.__name__, "enum_width": width, "filter": v, "stale_dtr": stale}
            try:
                if vi % 3 == 0:
                    got = bus.run_sequence(SetEventFilters(filter_value=fv, instance=address.InstanceNumber(idx), device=address.DeviceShort(sa)))
                else:
                    got = bus.run_sequence(SetEventFilters(address.DeviceShort(sa) if vi % 2 else sa,
                                                           address.InstanceNumber(idx) if vi % 2 else idx, fv))
            except Exception as e:
                res.violation(f"C13/set-filter/raised/{type(e).__name__}", f"{E.__name__}({v:#x}): {type(e).__name__}: {e}", wit)
                continue
            inst = dev.instances[idx]
            wit.update(device=sa, instance=idx)
            if inst.filter != v:
                which = "top-byte" if (inst.filter ^ v) & 0xFF0000 else ("mid-byte" if (inst.filter ^ v) & 0xFF00 else "low-byte")
                res.violation(f"C13/set-filter/instance-filter/{width}bit/{which}",
                              f"{width}-bit filter {v:#08x} requested with stale DTRs {stale}: instance ends with {inst.filter:#08x}",
                              {**wit, "wire": [c[0] for c in bus.commands]})
            elif got is None or int(got) != inst.filter or type(got) is not E:
                res.violation(f"C13/set-filter/return/{width}bit", f"returned {got!r}, the unit reports {inst.filter:#x}", wit)
            if any(x.set_filter_count for k, x in enumerate(dev.instances) if k != idx) or other.instances[0].filter != 0x15:
                res.violation("C13/set-filter/other-instance-changed", "an instance that was not addressed changed", wit)
            # query sequence, by class and (for shipped filters) by module
            res.hit("query_filters_checked")
            inst.filter = prev if vi % 2 else v
            for ft in [E] + ([pushbutton] if E is pushbutton.InstanceEventFilter else []):
                try:
                    q = bus.run_sequence(QueryEventFilters(address.DeviceShort(sa), address.InstanceNumber(idx), ft))
                except Exception as e:
                    res.violation(f"C13/query-filter/raised/{type(e).__name__}", f"{type(e).__name__}: {e}", wit)
                    continue
                if q is None or int(q) != inst.filter:
                    res.violation(f"C13/query-filter/value/{width}bit", f"unit filter {inst.filter:#x}, sequence returned {q!r}", wit)
        # faults
        for pos in range(8):
            for fk in ("silence", "garble"):
                bus, dev, other = one_device(itype=1, filt=0, filter_bits=width)
                res.evaluations += 1
                res.hit("sequence_faults")
                fv = E(allbits)
                wit = {"sequence": "SetEventFilters", "enum_width": width, "fault": fk, "at": pos}
                try:
                    got = bus.run_sequence(SetEventFilters(9, 1, fv), fault_at=pos, fault_kind=fk)
                    n1 = bus.n_commands
                    q = bus.run_sequence(QueryEventFilters(9, 1, E), fault_at=pos, fault_kind=fk)
                except Exception as e:
                    from dali.exceptions import DALISequenceError
                    if not isinstance(e, DALISequenceError):
                        res.violation(f"C13/filter-fault/raised/{type(e).__name__}", f"{fk} at {pos}: {type(e).__name__}: {e}", wit)
                    continue
                if got is not None and int(got) != dev.instances[1].filter:
                    res.violation("C13/filter-fault/wrong-value", f"{fk} at {pos}: SetEventFilters returned {got!r}, unit has {dev.instances[1].filter:#x}", wit)
                if q is not None and int(q) != dev.instances[1].filter:
                    res.violation("C13/filter-fault/wrong-value", f"{fk} at {pos}: QueryEventFilters returned {q!r}, unit has {dev.instances[1].filter:#x}", wit)
    # wrong argument types
    for bad in ("x", None, 1.5):
        try:
            g = SetEventFilters(9, 1, bad)
            next(g)
            res.violation("C13/set-filter/bad-type-accepted", f"filter_value={bad!r} accepted", {})
        except TypeError:
            pass
        except Exception as e:
            res.observe("set-filter-bad-type-other-exception", f"{bad!r}: {type(e).__name__}")
    for bad in (int, str, object, "pushbutton", 5, None):
        try:
            g = QueryEventFilters(9, 1, bad)
            next(g)
            res.violation("C13/query-filter/bad-type-accepted", f"filter_type={bad!r} accepted", {})
        except TypeError:
            res.add("query_filter_bad_types_rejected")
        except Exception as e:
            res.observe("query-filter-bad-type-other-exception", f"{bad!r}: {type(e).__name__}")
    if width == 8:
        # plain integers (the sequence accepts any int): one byte on an 8-bit filter instance
        for v in range(256):
            sa, idx = (v * 3) % 64, v % 32
            bus, dev, other = many_instances(sa, idx, 32, itype=1, filt=v ^ 0xFF, filter_bits=8)
            dev.dtr0, dev.dtr1, dev.dtr2 = v ^ 0x55, 0xEE, 0xDD
            res.evaluations += 1
            res.distinct += 1
            res.hit("plain_int_filters")
            wit = {"sequence": "SetEventFilters", "filter": v, "form": "plain int"}
            try:
                got = bus.run_sequence(SetEventFilters(sa, idx, v))
            except Exception as e:
                res.violation(f"C13/set-filter/raised/{type(e).__name__}", f"plain int {v:#x}: {type(e).__name__}: {e}", wit)
                continue
            if dev.instances[idx].filter != v:
                res.violation("C13/set-filter/instance-filter/8bit/plain-int", f"plain int filter {v:#x}: instance ends with "
                              f"{dev.instances[idx].filter:#x}", wit)
            elif got is None or int(got) != v:
                res.violation("C13/set-filter/return/8bit", f"plain int filter {v:#x}: returned {got!r}", wit)
        run_bad_rsp(res)
    res.sample({"sequence": "SetEventFilters/QueryEventFilters", "enum_width": width, "enums": [e.__name__ for e in enums]})


def run_bad_rsp(res):
    """The classifier every sequence relies on, over every response class and bus outcome: bad = nothing usable."""
    import importlib
    from dali import command, frame
    from dali.device.helpers import check_bad_rsp
    for m in ("gear.general", "gear.led", "gear.colour", "gear.emergency", "device.general", "device.pushbutton"):
        importlib.import_module("dali." + m)
    classes = sorted({c.response for c in command.Command._commands if c.response is not None}, key=lambda c: c.__qualname__)
    res.hit("bad_rsp_checked")
    if check_bad_rsp(None) is not True:
        res.violation("C13/bad-rsp/none", "check_bad_rsp(None) is not True", {})
    for cls in classes:
        for kind, arg in [("none", None)] + [("clean", frame.BackwardFrame(n)) for n in (0, 1, 127, 254, 255)] + \
                [("error", frame.BackwardFrameError(n)) for n in (0, 255, 0x55)]:
            res.evaluations += 1
            res.hit("bad_rsp_checked")
            r = cls(arg)
            if kind == "error":
                want = True
            elif kind == "clean":
                want = False
            elif issubclass(cls, command.YesNoResponse):
                want = False            # silence is a valid 'no'
            elif issubclass(cls, command.NumericResponse):
                want = True
            else:
                want = bool(getattr(cls, "_expected", False))
            try:
                got = check_bad_rsp(r)
            except ValueError:
                continue                # an enumerated answer with an undefined code: reported by the response itself (C06)
            except Exception as e:
                res.violation(f"C13/bad-rsp/raised/{type(e).__name__}", f"check_bad_rsp({cls.__name__}({kind})) raised {type(e).__name__}",
                              {"cls": cls.__name__, "outcome": kind})
                continue
            if got is not want:
                res.violation(f"C13/bad-rsp/{kind}", f"check_bad_rsp({cls.__name__} on {kind} "
                              f"{'' if arg is None else arg.as_integer}) is {got!r}, expected {want!r}",
                              {"cls": cls.__name__, "outcome": kind})


# --------------------------------------------------------------------------- schemes

def run_schemes(seed, res):
    from dali import address
    from dali.device.sequences import SetEventSchemes
    from dali.device.general import EventScheme
    r = rng(seed, "C13", "schemes")
    for trial in range(40):
        for s in range(5):
            for form in ("enum", "int"):
                sa, idx = r.randrange(64), (trial * 5 + s) % 32
                bus, dev, other = many_instances(sa, idx, 32, itype=1, scheme=(s + 1 + trial) % 5)
                dev.dtr0 = r.randrange(0, 256)
                res.evaluations += 1
                res.distinct += 1
                res.hit("schemes_checked")
                arg = EventScheme(s) if form == "enum" else s
                wit = {"sequence": "SetEventSchemes", "scheme": s, "form": form}
                try:
                    got = bus.run_sequence(SetEventSchemes(address.DeviceShort(sa), address.InstanceNumber(idx), arg))
                except Exception as e:
                    res.violation(f"C13/scheme/raised/{type(e).__name__}", f"scheme {s}: {type(e).__name__}: {e}", wit)
                    continue
                wit.update(device=sa, instance=idx)
                if dev.instances[idx].scheme != s:
                    res.violation("C13/scheme/instance", f"instance {idx} of device {sa} ends with scheme {dev.instances[idx].scheme}, requested {s}", wit)
                else:
                    try:
                        val = got.value
                    except Exception as e:
                        val = e
                    if val != EventScheme(s) or not isinstance(val, EventScheme):
                        res.violation("C13/scheme/return", f"returned {val!r}, the unit reports scheme {s}", wit)
                if any(x.set_scheme_count for k, x in enumerate(dev.instances) if k != idx) or other.instances[0].scheme != 1:
                    res.violation("C13/scheme/other-instance-changed", "an instance that was not addressed changed", wit)
    # every number that is no scheme: also those whose low three bits look like one (8 = 0b1000, 0x80, 0x84, 12, 18 ...)
    for bad in sorted(set(range(5, 256)) | {-1, -128, 256, 257, 1000, 0x10000}):
        res.evaluations += 1
        res.hit("invalid_schemes_checked")
        try:
            g = SetEventSchemes(9, 1, bad)
            first = next(g)
            res.violation("C13/scheme/invalid-accepted", f"scheme {bad} accepted ({type(first).__name__} yielded)", {"scheme": bad})
        except ValueError:
            pass
        except StopIteration:
            res.violation("C13/scheme/invalid-accepted", f"scheme {bad}: sequence returned silently", {"scheme": bad})
        except Exception as e:
            res.observe("scheme-invalid-other-exception", f"{bad}: {type(e).__name__}")
    for pos in range(3):
        for fk in ("silence", "garble"):
            bus, dev, other = one_device(itype=1, scheme=0)
            res.evaluations += 1
            res.hit("sequence_faults")
            try:
                got = bus.run_sequence(SetEventSchemes(9, 1, 3), fault_at=pos, fault_kind=fk)
            except Exception as e:
                from dali.exceptions import DALISequenceError
                if not isinstance(e, DALISequenceError):
                    res.violation(f"C13/scheme-fault/raised/{type(e).__name__}", f"{fk} at {pos}: {type(e).__name__}", {"at": pos})
                continue
            if pos == 2 and got is not None:
                try:
                    v = got.value
                    if v is not None:
                        res.violation("C13/scheme-fault/wrong-value", f"{fk} on the read-back but value {v!r} returned", {"at": pos})
                except Exception:
                    pass
    res.sample({"sequence": "SetEventSchemes", "schemes": [0, 1, 2, 3, 4], "invalid": [5, 6, 255, -1]})


# --------------------------------------------------------------------------- discovery

def make_population(r):
    from models.device103 import Device, Instance
    n_dev = r.choice([0, 1, 2, 5, 10, 30, 64]) if r.random() < 0.5 else r.randint(0, 64)
    addrs = r.sample(range(64), n_dev)
    devs = []
    for a in addrs:
        st = 0
        c = r.random()
        if c < 0.15:
            st |= 0x04
        elif c < 0.3:
            st |= 0x40
        if r.random() < 0.5:
            st |= r.choice([0x01, 0x08, 0x10, 0x20, 0x29])
        ni = r.choice([0, 1, 2, 4, 32]) if r.random() < 0.6 else r.randint(0, 32)
        insts = [Instance(itype=r.choice([1, 3, 4, 0, 2, 6, 31]), enabled=r.random() < 0.75) for _ in range(ni)]
        devs.append(Device(short=a, status=st, instances=insts))
    if n_dev >= 2 and r.random() < 0.2:
        # two devices sharing one short address: their answers collide
        devs.append(Device(short=addrs[0], status=0, instances=[Instance(itype=1)]))
    if r.random() < 0.3:
        devs.append(Device(short=None, status=0x04, instances=[Instance(itype=1)]))
    return devs


def expected_mapping(devs, scanned):
    by_addr = {}
    for d in devs:
        if d.short is not None:
            by_addr.setdefault(d.short, []).append(d)
    out = {}
    for a in scanned:
        ds = by_addr.get(a, [])
        if len(ds) != 1:
            continue
        d = ds[0]
        if d.status & 0x04 or d.status & 0x40:
            continue
        for i, x in enumerate(d.instances):
            if x.enabled:
                out[(a, i)] = x.itype
    return out


def run_discovery(desc, seed, res):
    from dali.device.helpers import DeviceInstanceTypeMapper
    from dali.exceptions import DALISequenceError
    from models.bus import Bus
    from models import cmd_ref
    for t in range(desc["n"]):
        r = rng(seed, "C13", "disc", desc["part"], t)
        devs = make_population(r)
        form = r.choice(["default", "int", "tuple", "iter"])
        if form == "default":
            arg, scanned = None, list(range(64))
        elif form == "int":
            n = r.randint(0, 64)
            arg, scanned = n, list(range(n))
        elif form == "tuple":
            lo = r.randint(0, 63)
            hi = r.randint(lo, 63)
            arg, scanned = (lo, hi), list(range(lo, hi + 1))
        else:
            scanned = r.sample(range(64), r.randint(0, 20))
            # any iterable of addresses: a list, a set-like, or something that can be walked only once
            shape = r.choice(["list", "generator", "iter", "tuple3", "dictkeys"])
            if shape == "tuple3" and len(scanned) == 2:
                shape = "list"               # a 2-tuple means (start, end)
            mk_arg = {"list": lambda: list(scanned), "generator": lambda: (a for a in scanned), "iter": lambda: iter(list(scanned)),
                      "tuple3": lambda: tuple(scanned), "dictkeys": lambda: {a: None for a in scanned}.keys()}[shape]
            arg = mk_arg()
            form = "iter:" + shape
        bus = Bus(devs, bound=64 * 70 + 10)
        m = DeviceInstanceTypeMapper()
        res.evaluations += 1
        res.distinct += 1
        res.hit("discovery_runs")
        wit = {"sequence": "autodiscover", "devices": [(d.short, d.status, [(x.itype, x.enabled) for x in d.instances]) for d in devs][:12],
               "addresses": form, "arg": repr(arg)[:80]}
        try:
            bus.run_sequence(m.autodiscover() if arg is None else m.autodiscover(arg))
        except Exception as e:
            res.violation(f"C13/discovery/raised/{type(e).__name__}", f"{type(e).__name__}: {e}", {**wit, "tb": short_tb(e)})
            continue
        want = expected_mapping(devs, scanned)
        got = dict(m.mapping)
        if got != want:
            extra = {k: v for k, v in got.items() if want.get(k) != v}
            missing = {k: v for k, v in want.items() if k not in got}
            kind = "wrong-or-extra-entry" if extra else "missing-entry"
            res.violation(f"C13/discovery/mapping/{kind}", f"extra/wrong {dict(list(extra.items())[:4])}, missing {dict(list(missing.items())[:4])}", wit)
        names = [c[0] for c in bus.commands]
        if not names or names[0] != "StartQuiescentMode" or names[-1] != "StopQuiescentMode":
            res.violation("C13/discovery/not-bracketed", f"first command {names[:1]}, last {names[-1:]}", wit)
        if any(d.quiescent for d in devs):
            res.violation("C13/discovery/left-quiescent", "a device is still in quiescent mode after the scan", wit)
        # a mapper that already holds entries (an earlier scan, `initial`, add_type) and scans a bus where units have been
        # exchanged since: what the scan finds is what is recorded
        if t % 3 == 1:
            r3 = rng(seed, "C13", "rescan", desc["part"], t)
            devs3 = make_population(rng(seed, "C13", "disc", desc["part"], t))
            for d in devs3:
                for x in d.instances:
                    c = r3.random()
                    if c < 0.35:
                        x.itype = r3.choice([t2 for t2 in (1, 3, 4, 0, 2, 6, 31) if t2 != x.itype])
                    elif c < 0.45:
                        x.enabled = not x.enabled
            how = r3.choice(["same-mapper", "initial", "add_type"])
            if how == "same-mapper":
                m3 = m
            elif how == "initial":
                m3 = DeviceInstanceTypeMapper(initial=dict(got))
            else:
                m3 = DeviceInstanceTypeMapper()
                for (a, i), ty in got.items():
                    m3.add_type(short_address=a, instance_number=i, instance_type=ty)
            held = dict(m3.mapping)
            res.hit("rescans")
            try:
                Bus(devs3, bound=64 * 70 + 10).run_sequence(m3.autodiscover())
            except Exception as e:
                res.violation(f"C13/rescan/raised/{type(e).__name__}", f"{type(e).__name__}: {e}", {**wit, "preloaded": how})
                continue
            want3 = expected_mapping(devs3, list(range(64)))
            got3 = dict(m3.mapping)
            stale = {k: (got3.get(k), v) for k, v in want3.items() if got3.get(k) != v}
            invented = {k: v for k, v in got3.items() if k not in want3 and held.get(k) != v}
            if stale:
                res.violation("C13/rescan/found-type-not-recorded", f"mapper preloaded by {how}: after scanning a bus whose units were "
                              f"exchanged, (address, instance): (recorded, on the bus) = {dict(list(stale.items())[:4])}",
                              {**wit, "preloaded": how})
            elif invented:
                res.violation("C13/rescan/invented-entry", f"entries neither held before nor on the bus: {dict(list(invented.items())[:4])}",
                              {**wit, "preloaded": how})
        # one fault somewhere in the scan
        if bus.n_commands > 2 and t % 2 == 0:
            pos = r.randrange(1, bus.n_commands - 1)
            fk = r.choice(["silence", "garble"])
            devs2 = make_population(rng(seed, "C13", "disc", desc["part"], t))
            bus2 = Bus(devs2, bound=64 * 70 + 10)
            m2 = DeviceInstanceTypeMapper()
            res.hit("discovery_faults")
            hit_cmd = {}

            def on_cmd(idx, cmd, hit_cmd=hit_cmd, pos=pos):
                if idx == pos:
                    hit_cmd["cmd"] = cmd
            try:
                bus2.run_sequence(m2.autodiscover() if arg is None else m2.autodiscover(mk_arg() if form.startswith("iter:") else arg),
                                  fault_at=pos, fault_kind=fk,
                                  on_command=on_cmd)
            except DALISequenceError:
                continue
            except Exception as e:
                res.violation(f"C13/discovery-fault/raised/{type(e).__name__}", f"{fk} at command {pos}: {type(e).__name__}: {e}",
                              {**wit, "fault": fk, "at": pos})
                continue
            got2 = dict(m2.mapping)
            wrong = {k: v for k, v in got2.items() if want.get(k) != v}
            if wrong:
                res.violation("C13/discovery-fault/wrong-entry", f"{fk} at command {pos}: entries not matching any device: {wrong}",
                              {**wit, "fault": fk, "at": pos})
            # everything not touched by the faulted command is still found
            cmd = hit_cmd.get("cmd")
            if cmd is not None:
                a = cmd.destination.address if hasattr(cmd.destination, "address") else None
                # a fault on a per-instance question costs that instance only; on a per-device question, the device
                inst_no = getattr(getattr(cmd, "instance", None), "value", None) if type(cmd).__name__ in (
                    "QueryInstanceEnabled", "QueryInstanceType") else None
                untouched = {k: v for k, v in want.items() if k[0] != a or (inst_no is not None and k[1] != inst_no)}
                lost = {k: v for k, v in untouched.items() if k not in got2}
                if lost:
                    res.violation("C13/discovery-fault/unrelated-entry-lost", f"{fk} at command {pos} ({type(cmd).__name__} to {a}): "
                                  f"entries of other devices lost: {dict(list(lost.items())[:4])}", {**wit, "fault": fk, "at": pos})
            names2 = [c[0] for c in bus2.commands]
            if names2[-1] != "StopQuiescentMode":
                res.violation("C13/discovery-fault/not-bracketed", f"scan with a fault did not end with StopQuiescentMode", wit)
        if t == 0:
            res.sample(wit)


def run_interleaved(desc, seed, res):
    from props import pairs
    from dali import address
    from dali.device.sequences import SetEventFilters, QueryEventFilters, query_input_value, SetEventSchemes
    from dali.device.helpers import DeviceInstanceTypeMapper
    from dali.device import pushbutton
    from models.bus import Bus
    E24 = mk_filter_enum(24)
    E16 = mk_filter_enum(16)

    def inst_state(dev):
        return [(x.filter, x.scheme) for x in dev.instances]

    def mk_setf(rr):
        sa, idx, E = rr.randrange(64), rr.randrange(8), rr.choice([E24, E16, pushbutton.InstanceEventFilter])
        w = E.dali_width()
        allbits = 0
        for m in E:
            allbits |= int(m)
        bus, dev, other = many_instances(sa, idx, 8, itype=1, filt=rr.getrandbits(24) % (1 << (8 * ((w + 7) // 8))), filter_bits=8 * ((w + 7) // 8))
        dev.dtr0, dev.dtr1, dev.dtr2 = rr.getrandbits(8), rr.getrandbits(8), rr.getrandbits(8)
        return bus, SetEventFilters(sa, idx, E(rr.getrandbits(24) & allbits)), lambda: inst_state(dev)

    def mk_qf(rr):
        sa, idx, E = rr.randrange(64), rr.randrange(8), rr.choice([E24, E16])
        bus, dev, other = many_instances(sa, idx, 8, itype=1, filt=rr.getrandbits(E.dali_width()), filter_bits=E.dali_width())
        return bus, QueryEventFilters(sa, idx, E), lambda: inst_state(dev)

    def mk_input(rr):
        sa, idx, resolution = rr.randrange(64), rr.randrange(8), rr.randint(1, 32)
        bus, dev, other = many_instances(sa, idx, 8, itype=4, resolution=resolution, value=rr.getrandbits(resolution))
        return bus, query_input_value(sa, idx, resolution if rr.random() < 0.5 else None), lambda: inst_state(dev)

    def mk_scheme(rr):
        sa, idx = rr.randrange(64), rr.randrange(8)
        bus, dev, other = many_instances(sa, idx, 8, itype=1, scheme=rr.randrange(5))
        return bus, SetEventSchemes(sa, idx, rr.randrange(5)), lambda: inst_state(dev)

    def mk_disc(rr):
        devs = make_population(rr)[:6]
        m = DeviceInstanceTypeMapper()
        return Bus(devs, bound=64 * 70 + 10), m.autodiscover(), lambda: sorted(m.mapping.items())
    makers = {"SetEventFilters": mk_setf, "QueryEventFilters": mk_qf, "query_input_value": mk_input,
              "SetEventSchemes": mk_scheme, "autodiscover": mk_disc}
    pairs.differential(res, "C13", rng(seed, "C13", "interleaved"), makers, desc["n"])
    pairs.abandon(res, "C13", rng(seed, "C13", "abandon"), makers, desc["n"])


def run_shard(desc, tier, seed):
    res = Result()
    if "replay" in desc:
        for d in plan("quick", seed):
            r2 = run_shard(d, "quick", seed)
            for v in r2.violations:
                if v["key"] == desc["replay"]["key"]:
                    res.violation(v["key"], v["what"], v["witness"])
            res.evaluations += r2.evaluations
        return res
    k = desc["kind"]
    if k == "input":
        run_input(desc, seed, res)
    elif k == "filters":
        run_filters(desc, seed, res)
    elif k == "schemes":
        run_schemes(seed, res)
    elif k == "interleaved":
        run_interleaved(desc, seed, res)
    else:
        run_discovery(desc, seed, res)
    return res
