"""C08 - gear query/set sequences report and establish exactly the gear's state.

Executed: dali.sequences.QueryDeviceTypes / QueryGroups / SetGroups, (a) against models/gear102 units
on models/bus, (b) fed adversarial answer streams directly.  Oracle: exact result for conforming
units; DALISequenceError within a command bound for the misbehaviours the property lists.
"""
import itertools

from vlib.common import Result, rng, short_tb

PROP = "C08"
LEVEL = "exploration"
CONTRACTS = "icontract"
RULE = ("cases: (device-type list) / (group set) / (current set, requested set, destination kind) against the model; "
        "answer streams over {none, garbled, 0, 1, 6, 6', 254, 255} of length <= L fed to the generators (exhaustive); "
        "distinct = distinct cases; a stream is non-trivial when it is longer than one answer")
ASSUMPTIONS = ["a conforming unit answers QUERY NEXT DEVICE TYPE in strictly ascending order and ends with 254 (102 11.5)",
               "streams that are neither conforming nor one of the listed misbehaviours are only required to stop within "
               "the bound without any exception other than DALISequenceError",
               "when a stream is exhausted the last answer repeats for ever (never-ending unit)"]
EXHAUSTIVE = {"quick": False, "thorough": False}
REQUIRED_ANCHORS = {"all": ["dt_lists_checked", "group_sets_checked", "setgroups_checked", "streams_checked",
                            "streams_must_raise", "streams_conforming", "interleaved_pairs", "abandoned_sequences"]}
SHARD_TIMEOUT = {"quick": 600, "thorough": 3000}

ALPHABET = ["none", "garbled", 0, 1, 6, "6b", 254, 255]
BOUND = 300


def plan(tier, seed):
    sh = []
    L = 5 if tier == "quick" else 6
    firsts = list(range(8))
    for a in firsts:
        sh.append({"kind": "streams", "first": a, "L": L})
    sh.append({"kind": "dtlists", "n": 600 if tier == "quick" else 6000})
    for p in range(8):
        sh.append({"kind": "qgroups", "lo": 8192 * p, "hi": 8192 * (p + 1), "stride": 1})
    np_ = 4 if tier == "quick" else 16
    for p in range(np_):
        sh.append({"kind": "setgroups", "part": p, "of": np_, "random": 1000 if tier == "quick" else 4000,
                   "structured": tier == "thorough"})
    sh.append({"kind": "interleaved", "n": 400 if tier == "quick" else 6000})
    return sh


def run_interleaved(desc, seed, res):
    from props import pairs
    from dali import address
    from dali.sequences import SetGroups, QueryGroups, QueryDeviceTypes
    from models.gear102 import Gear
    from models.bus import Bus

    def units(rr):
        ta = rr.randrange(64)
        t = Gear(short=ta, groups={g for g in range(16) if rr.random() < 0.5}, device_types=rr.choice([[], [6], [1, 6, 8], [0, 4], [7]]))
        o = Gear(short=(ta + 1) % 64, groups={g for g in range(16) if rr.random() < 0.5}, device_types=[6])
        return ta, t, o

    def mk_set(rr):
        ta, t, o = units(rr)
        req = {g for g in range(16) if rr.random() < 0.5}
        return Bus([t, o], bound=BOUND), SetGroups(address.GearShort(ta), req), lambda: (sorted(t.groups), sorted(o.groups))

    def mk_qg(rr):
        ta, t, o = units(rr)
        return Bus([t, o], bound=BOUND), QueryGroups(address.GearShort(ta)), lambda: (sorted(t.groups), sorted(o.groups))

    def mk_qdt(rr):
        ta, t, o = units(rr)
        return Bus([t, o], bound=BOUND), QueryDeviceTypes(address.GearShort(ta)), lambda: (sorted(t.groups),)
    makers = {"SetGroups": mk_set, "QueryGroups": mk_qg, "QueryDeviceTypes": mk_qdt}
    pairs.differential(res, "C08", rng(seed, "C08", "interleaved"), makers, desc["n"])
    pairs.abandon(res, "C08", rng(seed, "C08", "abandon"), makers, desc["n"])


# ----------------------------------------------------------------------------- streams

def mk_response(cmd, sym):
    from dali import frame
    if sym == "none":
        return cmd.response(None)
    if sym == "garbled":
        return cmd.response(frame.BackwardFrameError(0x55))
    if sym == "6b":
        sym = 6
    return cmd.response(frame.BackwardFrame(sym))


def feed(gen, stream):
    """Drive a generator with an answer stream (last symbol repeats). Returns (outcome, value, n_commands)."""
    from dali.command import Command
    from dali.exceptions import DALISequenceError
    n = 0
    resp = None
    i = 0
    try:
        while True:
            item = gen.send(resp)
            resp = None
            if isinstance(item, Command):
                n += 1
                if n > BOUND:
                    gen.close()
                    return ("unbounded", None, n)
                if item.response is not None:
                    sym = stream[min(i, len(stream) - 1)]
                    i += 1
                    resp = mk_response(item, sym)
    except StopIteration as s:
        return ("return", s.value, n)
    except DALISequenceError as e:
        return ("seqerror", str(e), n)
    except Exception as e:
        return ("exception", e, n)


def val(sym):
    return 6 if sym == "6b" else sym


def classify_dt_stream(stream):
    """('conforming', result) | ('must_raise', why) | ('other', why) for QueryDeviceTypes."""
    a0 = stream[0]
    if a0 == "none":
        return ("must_raise", "silence")
    if a0 == "garbled":
        return ("must_raise", "framing error")
    a0 = val(a0)
    if a0 < 254:
        return ("conforming", [a0])
    if a0 == 254:
        return ("conforming", [])
    seen = []
    k = 1
    while True:
        sym = stream[min(k, len(stream) - 1)]
        exhausted = k >= len(stream)
        k += 1
        if sym == "none":
            return ("must_raise", "silence")
        if sym == "garbled":
            return ("must_raise", "framing error")
        v = val(sym)
        if v == 254:
            if len(seen) >= 2:
                return ("conforming", seen)
            return ("other", "unit announced several types but listed fewer than two")
        if v == 255:
            return ("other", "255 is not a device type")
        if seen and v <= seen[-1]:
            return ("must_raise", "repeated / not ascending" + (" (never-ending)" if exhausted else ""))
        seen.append(v)
        if k > 600:
            return ("must_raise", "never-ending")


def run_streams(desc, res):
    from dali.sequences import QueryDeviceTypes, QueryGroups, SetGroups
    from dali import address
    first = ALPHABET[desc["first"]]
    L = desc["L"]
    for n in range(1, L + 1):
        for tail in itertools.product(ALPHABET, repeat=n - 1):
            stream = [first] + list(tail)
            res.evaluations += 1
            res.distinct += 1
            res.hit("streams_checked")
            # --- QueryDeviceTypes
            kind, exp = classify_dt_stream(stream)
            # whoever is asked - one unit, a group, everybody - the answers are judged the same way
            dest = (address.GearShort(3), 3, address.GearGroup(2), address.GearBroadcast(), address.GearShort(63))[(res.evaluations + n) % 5]
            out, value, ncmd = feed(QueryDeviceTypes(dest), stream)
            wit = {"sequence": "QueryDeviceTypes", "destination": str(dest), "stream": [str(s) for s in stream], "outcome": out,
                   "value": repr(value), "commands": ncmd, "class": kind, "why": repr(exp)}
            if out == "unbounded":
                res.violation("C08/QueryDeviceTypes/does-not-stop", f"still asking after {BOUND} commands on stream {stream} (last answer repeating)", wit)
            elif out == "exception":
                res.violation(f"C08/QueryDeviceTypes/raised/{type(value).__name__}", f"raised {type(value).__name__} on stream {stream}", wit)
            elif kind == "conforming":
                res.hit("streams_conforming")
                if out != "return" or value != exp:
                    res.violation("C08/QueryDeviceTypes/conforming-wrong-result",
                                  f"conforming answers {stream} imply {exp}, got {out} {value!r}", wit)
            elif kind == "must_raise":
                res.hit("streams_must_raise")
                if out != "seqerror":
                    res.violation(f"C08/QueryDeviceTypes/misbehaviour-accepted/{exp.split(' (')[0]}",
                                  f"answers {stream} ({exp}) must end in DALISequenceError, got {out} {value!r}", wit)
            # --- QueryGroups on the first two symbols
            if n <= 2:
                st2 = stream if len(stream) == 2 else stream + [stream[-1]]
                out, value, ncmd = feed(QueryGroups(address.GearShort(3)), st2)
                wit = {"sequence": "QueryGroups", "stream": [str(s) for s in st2], "outcome": out, "value": repr(value)}
                bad = [s for s in st2 if s in ("none", "garbled")]
                if bad:
                    res.hit("streams_must_raise")
                    if out != "seqerror":
                        res.violation("C08/QueryGroups/misbehaviour-accepted", f"answers {st2} must end in DALISequenceError, got {out} {value!r}", wit)
                else:
                    g = val(st2[0]) | (val(st2[1]) << 8)
                    exp = {i for i in range(16) if (g >> i) & 1}
                    if out != "return" or value != exp:
                        res.violation("C08/QueryGroups/wrong-result", f"answers {st2} imply {sorted(exp)}, got {out} {value!r}", wit)
                out, value, ncmd = feed(SetGroups(address.GearShort(3), {1, 9}), st2)
                if bad and out != "seqerror":
                    res.violation("C08/SetGroups/misbehaviour-accepted", f"SetGroups on answers {st2} must end in DALISequenceError, got {out}",
                                  {"sequence": "SetGroups", "stream": [str(s) for s in st2]})
                if out in ("exception", "unbounded"):
                    res.violation("C08/SetGroups/raised", f"SetGroups {out} on {st2}: {value!r}", {"stream": [str(s) for s in st2]})
    res.sample({"stream": [str(first), "254", "1"], "alphabet": [str(a) for a in ALPHABET], "max_len": L})


# ----------------------------------------------------------------------------- model-based

def run_dtlists(desc, seed, res):
    from dali.sequences import QueryDeviceTypes
    from dali.exceptions import DALISequenceError
    from dali import address
    from models.gear102 import Gear
    from models.bus import Bus
    r = rng(seed, "C08", "dt")
    vals = [0, 1, 2, 4, 5, 6, 7, 8, 50, 127, 128, 252, 253]
    lists = [[]] + [[a] for a in vals] + [sorted({a, b}) for a in vals for b in vals if a < b]
    for _ in range(desc["n"]):
        n = r.randint(3, 8)
        base = r.sample(range(254), n)
        if r.random() < 0.5:
            base[0] = 0
        lists.append(sorted(set(base)))
    # 'many' has no upper limit short of the 254 type numbers there are
    for n in (9, 15, 16, 17, 31, 32, 33, 64, 100, 253, 254):
        lists.append(sorted(r.sample(range(254), n)))
    for i, dts in enumerate(lists):
        res.evaluations += 1
        res.distinct += 1
        res.hit("dt_lists_checked")
        dest_int = i % 2 == 0
        unit = Gear(short=7, device_types=dts)
        other = Gear(short=8, device_types=[1, 6])
        bus = Bus([unit, other], bound=BOUND)
        wit = {"device_types": dts}
        try:
            got = bus.run_sequence(QueryDeviceTypes(7 if dest_int else address.GearShort(7)))
        except DALISequenceError as e:
            res.violation("C08/QueryDeviceTypes/conforming-unit-rejected" + ("/list-contains-0" if 0 in dts else ""),
                          f"unit with device types {dts} : DALISequenceError({e})", wit)
            continue
        except Exception as e:
            res.violation(f"C08/QueryDeviceTypes/raised/{type(e).__name__}", f"unit with device types {dts}: {type(e).__name__}: {e}", wit)
            continue
        if got != dts:
            res.violation("C08/QueryDeviceTypes/wrong-list", f"unit implements {dts}, sequence returned {got}", wit)
    # an address nobody has
    bus = Bus([Gear(short=1, device_types=[6])], bound=BOUND)
    try:
        bus.run_sequence(QueryDeviceTypes(address.GearShort(9)))
        res.violation("C08/QueryDeviceTypes/misbehaviour-accepted/silence", "no unit at the address but the sequence returned", {})
    except DALISequenceError:
        pass
    res.sample({"device_types": lists[40], "lists": len(lists)})


def run_qgroups(desc, res):
    from dali.sequences import QueryGroups
    from dali import address
    from models.gear102 import Gear
    from models.bus import Bus
    for g in range(desc["lo"], desc["hi"], desc["stride"]):
        want = {i for i in range(16) if (g >> i) & 1}
        unit = Gear(short=g % 64, groups=want)
        bus = Bus([unit, Gear(short=(g + 1) % 64, groups={0, 15})], bound=BOUND)
        res.evaluations += 1
        res.distinct += 1
        res.hit("group_sets_checked")
        try:
            got = bus.run_sequence(QueryGroups(address.GearShort(g % 64) if g % 2 else g % 64) if g % 5 else QueryGroups(addr=g % 64))
        except Exception as e:
            res.violation(f"C08/QueryGroups/raised/{type(e).__name__}", f"membership {sorted(want)}: {type(e).__name__}: {e}", {"groups": sorted(want)})
            continue
        if got != want or not isinstance(got, set):
            res.violation("C08/QueryGroups/wrong-result", f"unit is in {sorted(want)}, sequence returned {got!r}", {"groups": sorted(want)})
        if bus.n_commands != 2 or unit.groups != want:
            res.violation("C08/QueryGroups/side-effect", f"{bus.n_commands} commands, membership now {sorted(unit.groups)}", {"groups": sorted(want)})
    res.sample({"group_sets": [desc["lo"], desc["hi"] - 1], "stride": desc["stride"]})


def run_setgroups(desc, seed, res):
    from dali.sequences import SetGroups
    from dali import address
    from models.gear102 import Gear
    from models.bus import Bus
    r = rng(seed, "C08", "set", desc["part"])
    pairs = []
    if desc["structured"]:
        lows = [i for i in range(256)]
        for a in lows[desc["part"]::desc["of"]]:
            for b in range(0, 256, 5):
                pairs.append((a | ((a * 7) % 256) << 8, b << 8 | (255 - b)))
    for _ in range(desc["random"]):
        c = r.random()
        cur = r.getrandbits(16) if c < 0.8 else r.choice([0, 0xFFFF])
        req = r.getrandbits(16) if r.random() < 0.8 else r.choice([0, 0xFFFF, cur])
        pairs.append((cur, req))
    kinds = ["short", "int", "group", "broadcast", "unaddressed"]
    LabelledGroup = type("Zone", (address.GearGroup,), {"__module__": "application"})
    LabelledShort = type("Luminaire", (address.GearShort,), {"__module__": "application"})
    forced_group = {}
    if desc["part"] == 0:
        # every destination group 0..15, leaving and keeping that group
        for g in range(16):
            for _ in range(6):
                cur = r.getrandbits(16) | (1 << g)
                req = r.getrandbits(16)
                for rq in (req & ~(1 << g), req | (1 << g)):
                    forced_group[len(pairs)] = g
                    pairs.append((cur, rq & 0xFFFF))
    forced_kind = {}
    if desc["part"] == 1 or desc["of"] == 1:
        # current and requested membership differ in exactly one group (each of 0..15, joining and leaving) or in two
        for g in range(16):
            for rep in range(4):
                cur = r.getrandbits(16)
                for k2 in ("short", "int", "broadcast"):
                    forced_kind[len(pairs)] = k2
                    pairs.append((cur, cur ^ (1 << g)))
                g2 = (g + 1 + rep) % 16
                forced_kind[len(pairs)] = "short"
                pairs.append((cur, cur ^ (1 << g) ^ (1 << g2)))
    for idx, (cur, req) in enumerate(pairs):
        curset = {i for i in range(16) if (cur >> i) & 1}
        reqset = {i for i in range(16) if (req >> i) & 1}
        kind = "group" if idx in forced_group else forced_kind.get(idx, kinds[idx % len(kinds)])
        res.evaluations += 1
        res.distinct += 1
        res.hit("setgroups_checked")
        ta = r.randrange(64)
        target = Gear(short=ta if kind != "unaddressed" else None, groups=set(curset), name="target")
        others_groups = {i for i in range(16) if (r.getrandbits(16) >> i) & 1}
        second = Gear(short=(ta + 1) % 64 if kind != "unaddressed" else None, groups=set(others_groups), name="second")
        bystander = Gear(short=(ta + 7) % 64, groups={1, 2, 14}, name="bystander")
        if kind == "short":
            dest = address.GearShort(ta) if idx % 7 else LabelledShort(ta)
            addressed = [target]
        elif kind == "int":
            dest = ta
            addressed = [target]
        elif kind == "group":
            gsel = forced_group.get(idx, r.choice(sorted(curset)) if curset else None)
            if gsel is None:
                continue
            # every fourth group destination is an application's own class derived from the library's
            dest = address.GearGroup(gsel) if idx % 4 else LabelledGroup(gsel)
            addressed = [u for u in (target, second, bystander) if gsel in u.groups]
        elif kind == "broadcast":
            dest = address.GearBroadcast()
            addressed = [target, second, bystander]
        else:
            dest = address.GearBroadcastUnaddressed()
            addressed = [target, second]
        units = [target, second, bystander]
        before = {u.name: set(u.groups) for u in units}
        bus = Bus(units, bound=BOUND)
        wit = {"current": sorted(curset), "requested": sorted(reqset), "destination": kind,
               "dest_group": getattr(dest, "group", None)}
        try:
            # "a set of integers": a set, a frozenset, the keys of a dict - whatever supports the set operations
            shaped = (set(reqset), frozenset(reqset), {g_: None for g_ in reqset}.keys(), set(reqset))[idx % 4]
            bus.run_sequence(SetGroups(dest, shaped) if idx % 3 else SetGroups(groups=shaped, addr=dest))
        except Exception as e:
            res.violation(f"C08/SetGroups/raised/{type(e).__name__}", f"{type(e).__name__}: {e}", {**wit, "tb": short_tb(e)})
            continue
        for u in units:
            if u in addressed:
                if u.groups != reqset:
                    sub = "destination-group-removed-midway" if (kind == "group" and dest.group not in reqset) else kind
                    res.violation(f"C08/SetGroups/membership-differs/{sub}",
                                  f"unit '{u.name}' addressed via {kind} ends in groups {sorted(u.groups)}, requested {sorted(reqset)} "
                                  f"(was {sorted(before[u.name])})", wit)
                    break
            elif u.groups != before[u.name]:
                res.violation("C08/SetGroups/bystander-changed", f"unit '{u.name}' was not addressed but changed", wit)
                break
        if kind in ("short", "int"):
            need = {("add", g) for g in reqset - curset} | {("remove", g) for g in curset - reqset}
            done = target.group_writes
            if set(done) != need or len(done) != len(need):
                res.violation("C08/SetGroups/unnecessary-or-missing-changes",
                              f"changes executed {sorted(done)}, necessary {sorted(need)}", wit)
    res.sample({"current": sorted(curset), "requested": sorted(reqset), "destination": kind, "pairs": len(pairs)})


def run_shard(desc, tier, seed):
    res = Result()
    if "replay" in desc:
        for d in plan("quick", seed):
            r2 = run_shard(d, "quick", seed)
            for v in r2.violations:
                if v["key"] == desc["replay"]["key"]:
                    res.violation(v["key"], v["what"], v["witness"])
            res.evaluations += r2.evaluations
        return res
    k = desc["kind"]
    if k == "streams":
        run_streams(desc, res)
    elif k == "dtlists":
        run_dtlists(desc, seed, res)
    elif k == "qgroups":
        run_qgroups(desc, res)
    elif k == "setgroups":
        run_setgroups(desc, seed, res)
    elif k == "interleaved":
        run_interleaved(desc, seed, res)
    return res
