"""C18 - bytes exchanged with each gateway follow that gateway's wire format.

Transmit side: the bytes the real drivers hand to os.write / transport.write / socket.send /
serial.write (captured at that boundary) and the results of construct() are compared with the
independent encoders of spec/wire_formats.py.  Receive side: legacy extract() tables (the asyncio
drivers' receive side is decided by C16/C19 on the same models).
"""
import asyncio
import importlib
import sys
import types

from vlib.common import Result, rng, short_tb
from props import simlib
from spec import wire_formats as W

PROP = "C18"
LEVEL = "exploration"
CONTRACTS = "icontract"
DEVMODE = True
RULE = ("one case = (driver, command object) for every command class of the standard's tables with one argument set "
        "(thorough: every 16-bit frame decoded to a command, plus sampled 24-bit frames), unsupported frame lengths, and "
        "700 consecutive sends for sequence numbers; distinct = distinct (driver, frame, flags) tuples")
ASSUMPTIONS = ["spec/wire_formats.py describes the vendor formats as the author knows them (no vendor document offline)",
               "SCI: the position of 8/16-bit frames inside the three data bytes of a request is pinned to the reviewed library "
               "behaviour (left aligned); LUBA priority policy (2 for plain standard commands / DAPC, 5 otherwise) is pinned too",
               "daliserver carries 16-bit frames only; the ATX hat prefixes are h (16), t (16, twice), l (24)"]
EXHAUSTIVE = {"quick": False, "thorough": False}
REQUIRED_ANCHORS = {"all": ["tridonic_packets", "hasseb_packets", "luba_packets", "sci_packets", "daliserver_packets", "atx_packets",
                            "legacy_tridonic_packets", "legacy_hasseb_packets", "unipi_packets", "sequence_numbers_checked",
                            "unsupported_lengths_checked", "extract_codes_checked"]}
SHARD_TIMEOUT = {"quick": 600, "thorough": 3000}


def plan(tier, seed):
    sh = [{"kind": "async", "driver": d, "mode": "classes"} for d in simlib.DRIVERS]
    sh += [{"kind": "async", "driver": d, "mode": "seq"} for d in ("tridonic",)]
    # whatever the random source yields for the first sequence number (its extremes included)
    sh += [{"kind": "async", "driver": "tridonic", "mode": "seq", "random": m} for m in ("max", "min")]
    if tier == "thorough":
        for d in simlib.DRIVERS:
            for p in range(4):
                sh.append({"kind": "async", "driver": d, "mode": "frames", "lo": 16384 * p, "hi": 16384 * (p + 1)})
    sh.append({"kind": "sync"})
    sh.append({"kind": "legacy"})
    return sh


def all_commands(r, width_filter=None):
    """One command object per class named by the standard's tables (argument values picked by r)."""
    from spec import iec62386_tables as T
    from dali import address as A
    out = []
    for row in T.all_rows():
        try:
            cls = T.resolve(row)
        except Exception:
            continue
        k = row.kind
        ga, da = A.GearShort(r.randrange(64)), A.DeviceShort(r.randrange(64))
        if r.random() < 0.2:
            ga, da = r.choice([A.GearBroadcast(), A.GearGroup(r.randrange(16))]), r.choice([A.DeviceBroadcast(), A.DeviceGroup(r.randrange(32))])
        try:
            if k == "std":
                c = cls(ga)
            elif k == "stdn":
                c = cls(ga, r.randrange(16))
            elif k == "dapc":
                c = cls(ga, r.randrange(256))
            elif k in ("spc0", "dsp0"):
                c = cls()
            elif k in ("spc1", "dsp1"):
                c = cls(r.randrange(256))
            elif k == "spca":
                c = cls(r.randrange(64))
            elif k == "init":
                c = cls(broadcast=True)
            elif k == "dev":
                c = cls(da)
            elif k == "inst":
                c = cls(da, A.InstanceNumber(r.randrange(32)))
            elif k == "dsp2":
                c = cls(r.randrange(256), r.randrange(256))
            else:
                continue
        except Exception:
            continue
        if width_filter is None or len(c.frame) == width_filter:
            out.append(c)
    # commands of classes an application derived from the library's: on the wire they are their parents
    import dali.gear.general as gg
    import dali.gear.led as led
    import dali.device.general as dg
    global _DERIVED
    if not _DERIVED:
        for b in (gg.SetFadeTime, gg.QueryStatus, gg.DAPC, gg.GoToScene, led.QueryGearType, led.SelectDimmingCurve, dg.IdentifyDevice,
                  dg.QueryInstanceType, gg.DTR0):
            _DERIVED.append((b, type("Traced" + b.__name__, (b,), {"__module__": "application"})))
    for b, dcls in _DERIVED:
        proto = next((c for c in out if type(c) is b), None)
        if proto is None:
            continue
        try:
            if hasattr(proto, "instance"):
                c = dcls(proto.destination, proto.instance)
            elif hasattr(proto, "destination") and hasattr(proto, "param"):
                c = dcls(proto.destination, proto.param)
            elif hasattr(proto, "destination") and hasattr(proto, "power"):
                c = dcls(proto.destination, (proto.power + 1) % 255)
            elif hasattr(proto, "destination"):
                c = dcls(A.GearShort((proto.destination.address + 1) % 64) if isinstance(proto.destination, A.GearShort)
                         else A.DeviceShort((getattr(proto.destination, "address", 0) + 1) % 64) if isinstance(proto.destination, A.DeviceShort)
                         else proto.destination)
            else:
                c = dcls((proto.param + 1) % 256)
        except Exception:
            continue
        if width_filter is None or len(c.frame) == width_filter:
            out.append(c)
    return out


_DERIVED = []


def luba_priority(cmd):
    import dali.gear.general as gg
    plain_std = isinstance(cmd, gg._StandardCommand) and not cmd.response and not cmd.sendtwice
    return 2 if (plain_std or isinstance(cmd, gg.DAPC)) else 5


def expected_packets(driver, cmd, seq_holder):
    f = cmd.frame
    n, v, tw = len(f), f.as_integer, bool(cmd.sendtwice)
    if driver == "tridonic":
        return [("tri", n, v, tw)]
    if driver == "hasseb":
        return [v.to_bytes(2, "big")] * (2 if tw else 1)
    if driver == "luba":
        return [W.luba_tx(n, v, luba_priority(cmd), tw)]
    if driver == "sci":
        ctrl = 0x80 | 0x20 | (0x10 if tw else 0) | {16: 3, 24: 8}[n]
        d = list(v.to_bytes(n // 8, "big")) + [0] * (3 - n // 8)        # pinned: left aligned
        return [W.sci_frame(ctrl, d[0], d[1], d[2])]


def check_tridonic_packet(data, n, v, tw, prev_seq, res, wit):
    ok = len(data) == 64 and data[0] == 0x12 and data[2] == (0x20 if tw else 0) and data[3] == {16: 3, 24: 6}[n] and \
        data[4:8] == v.to_bytes(4, "big") and data[8:] == bytes(56)
    if not ok:
        res.violation("C18/tridonic/packet", f"64-byte command for a {n}-bit frame {v:#x} (send twice {tw}) is {data[:12].hex()}..., expected "
                      f"12 <seq> {'20' if tw else '00'} {'03' if n == 16 else '06'} {v.to_bytes(4, 'big').hex()} and zero padding", wit)
        return None
    seq = data[1]
    if not (1 <= seq <= 255):
        res.violation("C18/tridonic/sequence-range", f"sequence number {seq} outside 1..255", wit)
    if prev_seq is not None and seq == prev_seq:
        res.violation("C18/tridonic/sequence-repeated", f"sequence number {seq} used for two consecutive commands", wit)
    return seq


def run_async(desc, tier, seed, res):
    from dali import command, frame
    from dali.exceptions import UnsupportedFrameTypeError
    driver = desc["driver"]
    r = rng(seed, "C18", driver, desc["mode"], desc.get("lo", 0))
    if desc["mode"] == "classes":
        cmds = all_commands(r)
        if driver == "hasseb":
            cmds = [c for c in cmds if len(c.frame) == 16 and (c.response is None or c.devicetype == 0)]
    elif desc["mode"] == "seq":
        import dali.gear.general as gg
        from dali import address as A
        cmds = [gg.DAPC(A.GearShort(k % 64), k % 255) if k % 3 else gg.SetFadeTime(A.GearShort(k % 64)) for k in range(700)]
    else:
        cmds = []
        for v in range(desc["lo"], desc["hi"]):
            c = command.from_frame(frame.ForwardFrame(16, v))
            if driver == "hasseb" and c.response is not None and c.devicetype != 0:
                continue
            cmds.append(c)
        for _ in range(2000 if driver != "hasseb" else 0):
            cmds.append(command.from_frame(frame.ForwardFrame(24, r.getrandbits(24) | 0x010000)))
    if desc["mode"] == "classes":
        # enough queries that every outcome report is met in every shape the gateway model gives it
        import dali.gear.general as gg2
        from dali import address as A2
        cmds = cmds + [q(A2.GearShort(k)) for k in range(2, 62, 3) for q in (gg2.QueryPowerOnLevel, gg2.QueryMinLevel, gg2.QueryPhysicalMinimum)]
        # a command object is a value: sending the same object again gives the same packet (every 5th object is sent twice,
        # the second time at the end of the run)
        cmds = cmds + cmds[::5]
    picker = simlib.Picker(r, overrides={"tri.queue_delay": 0, "luba.queue_delay": 0, "sci.queue_delay": 0, "serial.chunking": 0})
    def answer(width, value, idx, dt):
        # receive side: every kind of outcome report is exercised in turn
        if (width, value) not in qframes:
            return None           # units answer queries only
        return [("ok", (idx * 29 + 3) % 256), None, ("collision", 0x55), ("ok", 255), ("ok", 0)][idx % 5]
    # application extended opcodes mean different commands under different device types: a frame is answered only if every
    # command of this run that uses it is a query (a unit answering a frame whose sender expects nothing would leave an
    # answer behind that the gateway hands to the next command - the harness' doing, not the driver's)
    qframes = {(len(c.frame), c.frame.as_integer) for c in cmds if c.response is not None} - \
        {(len(c.frame), c.frame.as_integer) for c in cmds if c.response is None}
    sim = simlib.Sim(driver, picker, answer=answer, random_mode=desc.get("random"))
    marks = []
    results = {}
    bad_len = []

    def writes():
        if driver in ("tridonic", "hasseb"):
            return [d for (t, d) in sim.dev.writes]
        return [d for (t, d) in sim.dev.transport.written]

    async def refuse_all(d):
        # unsupported frame lengths must be refused before anything is written
        for nbits in (1, 7, 8, 9, 12, 15, 17, 20, 23, 25, 32, 64):
            if (driver, nbits) in (("sci", 8),):
                continue          # the SCI protocol has an 8-bit mode
            c = command.Command(frame.ForwardFrame(nbits, (1 << nbits) - 1))
            n0 = len(writes())
            try:
                await asyncio.wait_for(d.send(c), 2.0)
                bad_len.append((nbits, "accepted", len(writes()) - n0))
            except asyncio.TimeoutError:
                bad_len.append((nbits, "accepted-and-hung", len(writes()) - n0))
            except Exception as e:
                bad_len.append((nbits, type(e).__name__, len(writes()) - n0))

    async def main(sim):
        await sim.connect()
        d = sim.driver
        if driver in ("luba", "sci") and desc["mode"] == "classes":
            # line noise before any traffic: one packet with a damaged checksum; every well-formed packet after it must
            # still be understood
            from spec import wire_formats as W
            bad = bytearray(W.luba_event_received(bytes([0x12]), 8) if driver == "luba" else W.sci_frame(0x03, 0, 0x12, 0x34))
            bad[-1] ^= 0x5A
            sim.dev.send_whole(0.0, bytes(bad))
            res.hit("damaged_packet_injected")
            if driver == "sci":
                # ... and every error report the gateway can send on its own (codes of the SCI ERROR packet): each is a
                # well-formed packet that denotes a gateway condition, none of them is an answer to anything
                for code in (1, 2, 3, 4, 5):
                    sim.dev.send_whole(0.01 * code, W.sci_frame(sim.dev.dev_id | 7, 0, 0, code))
                    res.hit("gateway_error_reports_injected")
                await asyncio.sleep(0.1)
            await asyncio.sleep(0.2)
        if desc["mode"] == "seq":
            # refusals first: a refused command must leave nothing behind that a later send (hundreds later) trips over
            await refuse_all(d)
        for c in cmds:
            n0 = len(writes())
            try:
                # the public entry point; the HID drivers put the ENABLE DEVICE TYPE frame in front themselves (where it has to
                # be is C15's subject - here its packet is checked like any other and set aside)
                results[len(marks)] = await asyncio.wait_for(d.send(c), 5.0)
                marks.append((c, n0, len(writes()), None))
            except Exception as e:
                marks.append((c, n0, len(writes()), e))
            if driver == "hasseb" and c.response is None:
                # the hasseb driver does not wait for commands without an answer; a caller streaming hundreds of them would
                # only fill the model's (unbounded, assumed) queue and starve the next query of its report - pace the stream
                await asyncio.sleep(0.07 * (2 if c.sendtwice else 1))
        await refuse_all(d)
        return True

    out, stalled = sim.run(main)
    try:
        if simlib.detached(out):
            res.inconclusive.append('harness detached: ' + str(out))
            return
        if getattr(sim.loop, "errors", None):
            # an exception out of the driver's packet handler (a loop callback) on packets the gateway's protocol defines
            res.violation(f"C18/{driver}/packet-handler-raised", f"a well-formed gateway packet made the driver's receive path raise: "
                          f"{sim.loop.errors[0]}", {"driver": driver})
            return
        if not stalled and isinstance(out, (asyncio.TimeoutError, TimeoutError)) and sim.attached() and not marks:
            # the driver opened the (model of the) gateway, the gateway answered the connection handshake the way its protocol
            # prescribes, and the driver never got as far as sending a command: it did not understand well-formed packets
            res.violation(f"C18/{driver}/handshake-replies-not-understood", f"connect() to the {driver} gateway model timed out although the "
                          f"model answered every handshake request ({len(writes())} packets written by the driver)", {"driver": driver})
            return
        if stalled or out is not True:
            res.inconclusive.append(f"C18 {driver}: simulation ended with {'a stall' if stalled else repr(out)}")
            return
        ws = writes()
        prev_seq = None
        for (c, a, b, exc) in marks:
            res.evaluations += 1
            res.distinct += 1
            res.hit(f"{driver}_packets")
            f = c.frame
            wit = {"driver": driver, "command": str(c), "frame": hex(f.as_integer), "bits": len(f), "sendtwice": bool(c.sendtwice),
                   "written": [x.hex() for x in ws[a:b]][:4]}
            if exc is not None:
                res.violation(f"C18/{driver}/send-raised/{type(exc).__name__}", f"sending {c} raised {type(exc).__name__}: {exc}", wit)
                continue
            exp = expected_packets(driver, c, None)
            got = ws[a:b]
            if driver in ("tridonic", "hasseb") and len(f) == 16 and c.devicetype != 0:
                edt_v = 0xC100 + c.devicetype
                if not got:
                    res.violation(f"C18/{driver}/packet-count", "nothing written for a command of an application extended set", wit)
                    continue
                if driver == "tridonic":
                    prev_seq = check_tridonic_packet(got[0], 16, edt_v, False, prev_seq, res, {**wit, "packet": "ENABLE DEVICE TYPE prefix"})
                elif got[0] != edt_v.to_bytes(2, "big"):
                    res.violation("C18/hasseb/packet", f"{c}: prefix packet {got[0].hex()}, ENABLE DEVICE TYPE {c.devicetype} is {edt_v:04x}", wit)
                got = got[1:]
            if driver == "tridonic":
                if len(got) != 1:
                    res.violation("C18/tridonic/packet-count", f"{len(got)} packets written for one command", wit)
                    continue
                prev_seq = check_tridonic_packet(got[0], len(f), f.as_integer, bool(c.sendtwice), prev_seq, res, wit)
                res.hit("sequence_numbers_checked")
            elif got != exp:
                what = "send-twice-flag" if (len(got) == len(exp) == 1 and len(got[0]) == len(exp[0]) and
                                             [i for i in range(len(exp[0])) if got[0][i] != exp[0][i]][:1] in ([5], [0])) else "packet"
                res.violation(f"C18/{driver}/{what}", f"{c}: driver wrote {[x.hex() for x in got]}, the gateway's format prescribes "
                              f"{[x.hex() for x in exp]}", wit)
        # receive side: the report the gateway sent for each query decodes to the outcome it denotes
        from dali import frame as F
        own = [w_ for w_ in sim.bus.wire if w_["origin"] == "own"]
        for mi, (c, a, b, exc) in enumerate(marks):
            if exc is not None and c.response is not None and b > a and type(exc).__name__ not in ("UnsupportedFrameTypeError",):
                # the query went out and the gateway reported on it; whatever the report, it denotes an outcome
                f = c.frame
                ent = [w_ for w_ in own if (w_["width"], w_["value"]) == (len(f), f.as_integer)]
                rep_ = ent[-1]["answer"] if ent else "?"
                res.violation(f"C18/{driver}/report-decoding/raised/{type(exc).__name__}",
                              f"{c}: the gateway reported {rep_} for this command, send() raised {type(exc).__name__}: {exc}",
                              {"driver": driver, "command": str(c)})
                continue
            if exc is not None or c.response is None or mi not in results:
                continue
            f = c.frame
            ent = [w_ for w_ in own if (w_["width"], w_["value"]) == (len(f), f.as_integer)]
            if not ent:
                continue
            ans = ent[-1]["answer"] if len(ent) == 1 else None
            if len(ent) != 1:
                continue          # the same frame was sent more than once in this shard: ambiguous
            val = results[mi]
            res.hit("extract_codes_checked")
            raw = getattr(val, "raw_value", "missing")
            if ans is None:
                ok = raw is None
            elif ans[0] == "ok":
                ok = isinstance(raw, F.BackwardFrame) and not raw.error and raw.as_integer == ans[1]
            else:
                ok = (isinstance(raw, F.BackwardFrame) and raw.error) if driver in ("tridonic", "hasseb") else raw is None
            if type(val) is not c.response or not ok:
                res.violation(f"C18/{driver}/report-decoding/{'none' if ans is None else ans[0]}",
                              f"{c}: the gateway reported {ans} for this command, the driver returned {type(val).__name__} with raw "
                              f"{raw!r}" + (f" (value {raw.as_integer:#04x}, error {raw.error})" if hasattr(raw, "as_integer") else ""),
                              {"driver": driver, "command": str(c)})
        for nbits, outcome, nw in bad_len:
            res.evaluations += 1
            res.hit("unsupported_lengths_checked")
            if outcome.startswith("accepted") or nw:
                res.violation(f"C18/{driver}/unsupported-length-not-refused", f"a {nbits}-bit command frame was {outcome} ({nw} packets written); "
                              "the gateway cannot carry this length", {"driver": driver, "bits": nbits})
        if marks:
            res.sample({"driver": driver, "command": str(marks[0][0]), "written": [x.hex()[:40] for x in ws[marks[0][1]:marks[0][2]]]})
    finally:
        sim.close()


# ------------------------------------------------------------------------------------------------- sync + legacy

def stub_modules():
    for name in ("usb", "usb.core", "usb.util", "hid", "pymodbus", "pymodbus.client", "pymodbus.client.sync"):
        if name not in sys.modules:
            sys.modules[name] = types.ModuleType(name)
    sys.modules["usb"].core = sys.modules["usb.core"]
    sys.modules["usb"].util = sys.modules["usb.util"]
    m = sys.modules["pymodbus.client.sync"]
    for n in ("ModbusTcpClient", "ModbusSerialClient", "ModbusUdpClient"):
        if not hasattr(m, n):
            setattr(m, n, type(n, (), {"__init__": lambda self, *a, **k: None}))
    sys.modules["pymodbus"].client = sys.modules["pymodbus.client"]
    sys.modules["pymodbus.client"].sync = m


def run_sync(seed, res):
    from dali import command, frame
    from props.c16 import FakeSocketModule, FakeSerialModule
    import logging
    r = rng(seed, "C18", "sync")
    cmds = all_commands(r)
    # daliserver
    import dali.driver.daliserver as D
    orig = D.socket
    try:
        for c in cmds:
            f = c.frame
            mod = FakeSocketModule(lambda data: bytes([2, 0, 0, 0]))
            D.socket = mod
            res.evaluations += 1
            res.distinct += 1
            res.hit("daliserver_packets")
            wit = {"driver": "daliserver", "command": str(c), "bits": len(f)}
            try:
                with D.DaliServer() as ds:
                    ds.send(c)
                exc = None
            except Exception as e:
                exc = e
            if len(f) == 16:
                exp = [bytes([2, 0]) + f.as_integer.to_bytes(2, "big")] * (2 if c.sendtwice else 1)
                if exc is not None or mod.sent != exp:
                    res.violation("C18/daliserver/packet", f"{c}: sent {[x.hex() for x in mod.sent]} ({exc!r}), the daliserver protocol prescribes "
                                  f"{[x.hex() for x in exp]}", wit)
            else:
                res.hit("unsupported_lengths_checked")
                if exc is None or mod.sent:
                    res.violation("C18/daliserver/unsupported-length-not-refused", f"{c}: a {len(f)}-bit frame was sent as {[x.hex() for x in mod.sent]}; "
                                  "daliserver messages carry 16-bit frames only", wit)
        # one connection for many commands: every reply packet is decoded as the answer of the request it replies to (the
        # server replies to each message, also to both messages of a send-twice command)
        sixteen = [c for c in cmds if len(c.frame) == 16]
        for t in range(12):
            def reply(data):
                h = (data[2] * 131 + data[3] * 7 + 3) % 256
                st = (0, 1, 1, 1, 255)[h % 5]
                return bytes([2, st, h if st == 1 else 0, 0])
            mod = FakeSocketModule(reply)
            D.socket = mod
            batch = [r.choice(sixteen) for _ in range(r.randint(2, 12))]
            with D.DaliServer(multiple_frames_per_connection=True) as ds:
                for k, c in enumerate(batch):
                    res.evaluations += 1
                    res.hit("daliserver_session_replies")
                    wit = {"driver": "daliserver", "session": [str(x) for x in batch[:k + 1]]}
                    try:
                        got = ds.send(c)
                    except Exception as e:
                        res.violation(f"C18/daliserver/session-raised/{type(e).__name__}", f"{c} as command {k} of a session raised "
                                      f"{type(e).__name__}: {e}", wit)
                        break
                    rep = reply(bytes([2, 0]) + c.frame.pack)
                    if c.response is None:
                        ok = got is None
                        want = "nothing (the command expects no answer)"
                    elif rep[1] == 0:
                        ok, want = got is not None and got.raw_value is None, "no answer"
                    elif rep[1] == 1:
                        ok = got is not None and got.raw_value is not None and not got.raw_value.error and got.raw_value.as_integer == rep[2]
                        want = f"backward frame {rep[2]:#04x}"
                    else:
                        ok, want = got is not None and got.raw_value is not None and got.raw_value.error, "framing error"
                    if not ok:
                        res.violation("C18/daliserver/session-reply-decoded", f"{c} as command {k} of a session (before it: "
                                      f"{[str(x) for x in batch[max(0, k - 2):k]]}): the server's reply {rep.hex()} denotes {want}, "
                                      f"send() returned {got!r}", wit)
                        break
        for nbits in (8, 12, 17, 20, 25, 32):
            mod = FakeSocketModule(lambda data: bytes([2, 0, 0, 0]))
            D.socket = mod
            res.hit("unsupported_lengths_checked")
            try:
                with D.DaliServer() as ds:
                    ds.send(command.Command(frame.ForwardFrame(nbits, 1)))
                exc = None
            except Exception as e:
                exc = e
            if exc is None or mod.sent:
                res.violation("C18/daliserver/unsupported-length-not-refused", f"a {nbits}-bit frame was sent as {[x.hex() for x in mod.sent]}", {"bits": nbits})
    finally:
        D.socket = orig
    # ATX hat
    stub_modules()
    A = importlib.import_module("dali.driver.atxled")
    orig_serial = A.serial
    try:
        A.serial = FakeSerialModule(lambda data: None)
        drv = A.DaliHatSerialDriver(LOG=logging.getLogger("atx-c18"))
        for c in cmds:
            f = c.frame
            res.evaluations += 1
            res.distinct += 1
            res.hit("atx_packets")
            wit = {"driver": "atxled", "command": str(c), "bits": len(f)}
            try:
                got = drv.construct(c)
            except Exception as e:
                res.violation(f"C18/atx/construct-raised/{type(e).__name__}", f"construct({c}) raised {type(e).__name__}", wit)
                continue
            prefix = {16: "t" if c.sendtwice else "h", 24: "l"}[len(f)]
            exp = (prefix + f.as_integer.to_bytes(len(f) // 8, "big").hex().upper() + "\n").encode()
            if got != exp:
                res.violation("C18/atx/packet", f"{c}: line {got!r}, the hat's protocol prescribes {exp!r}", wit)
            if len(f) == 24 and c.sendtwice:
                res.observe("atx-24bit-send-twice-has-no-prefix", str(c))
        for nbits in (1, 12, 17, 20, 32):
            res.hit("unsupported_lengths_checked")
            try:
                got = drv.construct(command.Command(frame.ForwardFrame(nbits, 1)))
                res.violation("C18/atx/unsupported-length-not-refused", f"a {nbits}-bit frame was encoded as {got!r}", {"bits": nbits})
            except Exception:
                pass
        for v in (0, 1, 0x7F, 0xFF):
            res.hit("extract_codes_checked")
            fr = drv.extract("J%02X" % v)
            if fr is None or fr.as_integer != v or fr.error:
                res.violation("C18/atx/extract", f"'J{v:02X}' decoded as {fr!r}", {"value": v})
        for line in ("N", "", "X", "Jzz"):
            if drv.extract(line) is not None:
                res.violation("C18/atx/extract", f"{line!r} decoded as a frame", {"line": line})
    finally:
        A.serial = orig_serial
    res.sample({"driver": "daliserver/atxled", "commands": len(cmds)})


def run_legacy(seed, res):
    from dali import command, frame
    stub_modules()
    r = rng(seed, "C18", "legacy")
    cmds = all_commands(r)
    # ---- legacy Tridonic
    T = importlib.import_module("dali.driver.tridonic")
    drv = T.TridonicDALIUSBDriver()
    prev = None
    seen_twice_bit = False
    for k in range(3):
        for c in cmds:
            f = c.frame
            res.evaluations += 1
            res.distinct += 1
            res.hit("legacy_tridonic_packets")
            wit = {"driver": "legacy tridonic", "command": str(c), "bits": len(f), "n": k}
            try:
                data = drv.construct(c)
            except ValueError:
                if len(f) == 16:
                    res.violation("C18/legacy-tridonic/construct-raised", f"construct({c}) raised ValueError", wit)
                continue
            except Exception as e:
                res.violation(f"C18/legacy-tridonic/construct-raised/{type(e).__name__}", f"construct({c}) raised {type(e).__name__}", wit)
                continue
            if len(f) != 16:
                res.violation("C18/legacy-tridonic/unsupported-length-not-refused", f"a {len(f)}-bit frame was encoded", wit)
                continue
            ok = len(data) == 64 and data[0] == 0x12 and data[3] == 0x03 and data[4:6] == b"\x00\x00" and \
                data[6:8] == f.as_integer.to_bytes(2, "big") and data[8:] == bytes(56)
            if not ok:
                res.violation("C18/legacy-tridonic/packet", f"{c}: packet {bytes(data[:10]).hex()}..., expected 12 <seq> <ctrl> 03 0000 {f.as_integer:04x} + padding", wit)
                continue
            seq = data[1]
            res.hit("sequence_numbers_checked")
            if not (1 <= seq <= 255):
                res.violation("C18/legacy-tridonic/sequence-range", f"sequence number {seq} outside 1..255", wit)
            if prev is not None and seq == prev:
                res.violation("C18/legacy-tridonic/sequence-repeated", f"sequence number {seq} used for two consecutive commands", wit)
            prev = seq
            if bool(data[2] & 0x20) != bool(c.sendtwice):
                res.violation("C18/legacy-tridonic/send-twice-flag", f"{c}: control byte {data[2]:#04x}, send twice is {bool(c.sendtwice)} "
                              "(the interface repeats a frame only when bit 0x20 of the control byte is set)", wit)
    # extract table (64-byte reports): direction, type
    def rep(dr, ty, ad=0x12, cm=0x34, sn=9):
        return bytes([dr, ty, 0, 0, ad, cm, 0xFF, 0xFF, sn]) + bytes(55)
    res.hit("extract_codes_checked")
    checks = [(rep(0x11, 0x73), ("F", 0x1234)), (rep(0x11, 0x74), ("F", 0x1234)), (rep(0x11, 0x72), None), (rep(0x12, 0x72, cm=0x55), ("B", 0x55)),
              (rep(0x12, 0x73), None), (rep(0x11, 0x99), None), (rep(0x33, 0x72), None)]
    for data, exp in checks:
        try:
            got = drv.extract(data)
        except Exception as e:
            res.violation("C18/legacy-tridonic/extract-raised", f"extract({data[:9].hex()}) raised {type(e).__name__}", {"data": data[:9].hex()})
            continue
        if exp is None:
            okk = got is None
        elif exp[0] == "F":
            okk = isinstance(got, frame.ForwardFrame) and len(got) == 16 and got.as_integer == exp[1]
        else:
            okk = isinstance(got, frame.BackwardFrame) and got.as_integer == exp[1]
        if not okk:
            res.violation("C18/legacy-tridonic/extract", f"report {data[:9].hex()} decoded as {got!r}, expected {exp}", {"data": data[:9].hex()})
    if drv.extract(rep(0x12, 0x71)) is not T.DALI_USB_NO_RESPONSE:
        res.violation("C18/legacy-tridonic/extract", "type 0x71 not decoded as 'no response'", {})
    # ---- legacy hasseb
    try:
        Hm = importlib.import_module("dali.driver.hasseb")
        hd = Hm.HassebDALIUSBDriver.__new__(Hm.HassebDALIUSBDriver)
        hd.sn = 0
        import logging
        hd.logger = logging.getLogger("hasseb-c18")
        prev = None
        for k in range(3):
            for c in cmds:
                f = c.frame
                res.evaluations += 1
                res.distinct += 1
                res.hit("legacy_hasseb_packets")
                wit = {"driver": "legacy hasseb", "command": str(c), "bits": len(f)}
                try:
                    data = hd.construct(c)
                except Exception as e:
                    if len(f) == 16:
                        res.violation("C18/legacy-hasseb/construct-raised", f"construct({c}) raised {type(e).__name__}", wit)
                    continue
                if len(f) != 16:
                    res.violation("C18/legacy-hasseb/unsupported-length-not-refused", f"a {len(f)}-bit frame was encoded as {bytes(data).hex()}", wit)
                    continue
                exp_tail = bytes([16, 1 if c.response is not None else 0, 0, 10 if c.sendtwice else 0]) + f.as_integer.to_bytes(2, "big") + b"\x00"
                if len(data) != 10 or data[0] != 0xAA or data[1] != Hm.HASSEB_DALI_FRAME or bytes(data[3:]) != exp_tail:
                    res.violation("C18/legacy-hasseb/packet", f"{c}: packet {bytes(data).hex()}, expected aa {Hm.HASSEB_DALI_FRAME:02x} <sn> {exp_tail.hex()}", wit)
                    continue
                res.hit("sequence_numbers_checked")
                if not (1 <= data[2] <= 255) or data[2] == prev:
                    res.violation("C18/legacy-hasseb/sequence", f"sequence number {data[2]} (previous {prev})", wit)
                prev = data[2]
        for status, exp in ((1, "noanswer"), (2, ("B", 0x5A)), (3, "err")):
            data = bytes([0xAA, Hm.HASSEB_DALI_FRAME, 7, status, 1, 0x5A, 0, 0, 0, 0])
            got = hd.extract(data)
            res.hit("extract_codes_checked")
            okk = (exp == "noanswer" and type(got).__name__ == "HassebDALIUSBNoAnswer") or \
                  (isinstance(exp, tuple) and isinstance(got, frame.BackwardFrame) and not got.error and got.as_integer == 0x5A) or \
                  (exp == "err" and isinstance(got, frame.BackwardFrame) and got.error)
            if not okk:
                res.violation("C18/legacy-hasseb/extract", f"status {status} decoded as {got!r}", {"status": status})
        # the whole receive path: send() of the synchronous legacy driver against a stub HID device reporting each status
        class FakeHidDevice:
            def __init__(self):
                self.reports, self.written = [], []
                self.status, self.value = 2, 0x5A

            def write(self, data):
                self.written.append(bytes(data))
                if data[4]:          # expect_reply
                    self.reports.append(bytes([0xAA, Hm.HASSEB_DALI_FRAME, data[2], self.status, 1, self.value, 0, 0, 0, 0]))

            def read(self, n):
                return self.reports.pop(0) if self.reports else bytes([0xAA, 0, 0, 0, 0, 0, 0, 0, 0, 0])
        import dali.gear.general as gg_
        from dali import address as A_
        orig_sleep_h = Hm.time.sleep
        Hm.time.sleep = lambda t: None
        try:
            # every packet the driver writes - DALI frames, sniffer configuration, firmware-version requests - takes the next
            # sequence number: 1..255, never the one just used
            class SeqDevice(FakeHidDevice):
                def read(self, n):
                    if self.reports:
                        return self.reports.pop(0)
                    last = self.written[-1] if self.written else bytes(10)
                    if last[1] == getattr(Hm, "HASSEB_READ_FIRMWARE_VERSION", 0x02):
                        return bytes([0xAA, last[1], last[2], 1, 5, 0, 0, 0, 0, 0])
                    return bytes([0xAA, 0, 0, 0, 0, 0, 0, 0, 0, 0])
            rs = rng(seed, "C18", "legacy-hasseb-seq")
            for first in ("send", "enableSniffing", "disableSniffing", "readFirmwareVersion"):
                sd = Hm.SyncHassebDALIUSBDriver.__new__(Hm.SyncHassebDALIUSBDriver)
                sd.sn = 0
                sd.logger = logging.getLogger("hasseb-c18")
                sd.device = SeqDevice()
                ops = [first] + [rs.choice(["send", "send", "send", "enableSniffing", "disableSniffing", "readFirmwareVersion"]) for _ in range(560)]
                for op in ops:
                    try:
                        if op == "send":
                            sd.send(gg_.DAPC(A_.GearShort(rs.randrange(64)), rs.randrange(255)))
                        elif hasattr(sd, op):
                            getattr(sd, op)()
                    except Exception as e:
                        res.observe(f"legacy-hasseb-{op}-raises-{type(e).__name__}", str(e)[:80])
                prev_sn, prev_kind = None, None
                for pk in sd.device.written:
                    res.hit("sequence_numbers_checked")
                    if len(pk) < 3 or not (1 <= pk[2] <= 255) or pk[2] == prev_sn:
                        res.violation("C18/legacy-hasseb/sequence", f"packet {pk.hex()} (type {pk[1]:#04x}) carries sequence number "
                                      f"{pk[2] if len(pk) > 2 else None}; the packet before it (type {prev_kind}) carried {prev_sn}; "
                                      f"first operation of the instance: {first}", {"driver": "legacy hasseb", "first": first})
                        break
                    prev_sn, prev_kind = pk[2], f"{pk[1]:#04x}"
            for status, v in ((1, 0), (2, 0x5A), (2, 0), (2, 255), (3, 0x11)):
                sd = Hm.SyncHassebDALIUSBDriver.__new__(Hm.SyncHassebDALIUSBDriver)
                sd.sn = 0
                sd.logger = logging.getLogger("hasseb-c18")
                sd.device = FakeHidDevice()
                sd.device.status, sd.device.value = status, v
                for c in (gg_.QueryStatus(A_.GearShort(3)), gg_.QueryControlGearPresent(A_.GearBroadcast()), gg_.DAPC(A_.GearShort(1), 9)):
                    res.evaluations += 1
                    res.hit("extract_codes_checked")
                    try:
                        out = sd.send(c)
                    except Exception as e:
                        res.violation(f"C18/legacy-hasseb/send-raised/{type(e).__name__}", f"send({c}) with status {status} raised {type(e).__name__}: {e}",
                                      {"status": status})
                        continue
                    if c.response is None:
                        if out is not None:
                            res.violation("C18/legacy-hasseb/report-decoding/non-query", f"send({c}) returned {out!r}", {"status": status})
                        continue
                    raw = getattr(out, "raw_value", "missing")
                    ok_ = type(out) is c.response and ((status == 1 and raw is None) or
                                                       (status == 2 and raw is not None and not raw.error and raw.as_integer == v) or
                                                       (status == 3 and raw is not None and raw.error))
                    if not ok_:
                        res.violation(f"C18/legacy-hasseb/report-decoding/status-{status}",
                                      f"{c}: the device reported status {status} (1 no answer, 2 ok value {v:#x}, 3 invalid answer); send() returned "
                                      f"{type(out).__name__} with raw {None if raw is None else ('framing error' if raw.error else raw.as_integer)!r}",
                                      {"status": status, "command": str(c)})
        finally:
            Hm.time.sleep = orig_sleep_h
    except Exception as e:
        res.inconclusive.append("legacy hasseb driver not importable: " + short_tb(e))
    # ---- UniPi
    try:
        U = importlib.import_module("dali.driver.unipi")
        ud = U.UnipiDALIDriver()
        for c in cmds:
            f = c.frame
            res.evaluations += 1
            res.distinct += 1
            res.hit("unipi_packets")
            wit = {"driver": "unipi", "command": str(c), "bits": len(f)}
            try:
                reg1, reg2 = ud.construct(c)
            except Exception as e:
                res.violation("C18/unipi/construct-raised", f"construct({c}) raised {type(e).__name__}", wit)
                continue
            v = f.as_integer
            twice_bit = U.DA_OPT_TWICE if c.sendtwice else 0
            if len(f) == 16:
                exp = (((0x2 | twice_bit) << 8), v)
            else:
                exp = ((((0x3 | twice_bit) << 8) | (v >> 16)), v & 0xFFFF)
            if (reg1, reg2) != exp:
                res.violation("C18/unipi/packet", f"{c}: registers ({reg1:#06x}, {reg2:#06x}), expected ({exp[0]:#06x}, {exp[1]:#06x})", wit)
        for nbits in (8, 12, 20, 25, 32):
            res.hit("unsupported_lengths_checked")
            try:
                ud.construct(command.Command(frame.ForwardFrame(nbits, 1)))
                res.violation("C18/unipi/unsupported-length-not-refused", f"a {nbits}-bit frame was encoded", {"bits": nbits})
            except Exception:
                pass
        # the synchronous driver writes the register pair to the send registers of its own bus (two registers per bus from
        # 13 on, reply counter + two data registers per bus from 1 on: pinned to the reviewed map of the Unipi firmware)
        class FakeArm:
            def __init__(self, *a, **kw):
                self.writes, self.reads = [], []

            def write_regs(self, reg, values):
                self.writes.append((reg, tuple(values)))

            def read_regs(self, reg, n):
                self.reads.append((reg, n))
                return tuple([0] * n)
        orig_arm, orig_sleep = U.RemoteArm, U.sleep
        U.RemoteArm, U.sleep = FakeArm, (lambda t: None)
        try:
            import dali.gear.general as gg_
            from dali import address as A_
            for bus_no in range(4):
                drv = U.SyncUnipiDALIDriver(bus=bus_no)
                for c in (gg_.DAPC(A_.GearShort(3), 77), gg_.SetFadeTime(A_.GearShort(5)), gg_.QueryStatus(A_.GearShort(9))):
                    drv.backend.writes.clear()
                    drv.backend.reads.clear()
                    res.evaluations += 1
                    res.hit("unipi_bus_registers_checked")
                    drv.send(c)
                    exp_w = [(13 + 2 * bus_no, tuple(drv.construct(c)))] * (2 if c.sendtwice else 1)
                    if drv.backend.writes != exp_w:
                        res.violation("C18/unipi/send-register", f"bus {bus_no}: {c} written as {drv.backend.writes}, the register map "
                                      f"prescribes {exp_w}", {"driver": "unipi", "bus": bus_no, "command": str(c)})
                    bad_reads = [x for x in drv.backend.reads if x[0] not in (1 + 3 * bus_no, 38 + bus_no // 2)]
                    if c.response is not None and (bad_reads or not drv.backend.reads):
                        res.violation("C18/unipi/receive-register", f"bus {bus_no}: reply polled at registers {sorted(set(drv.backend.reads))}, "
                                      f"the map prescribes {1 + 3 * bus_no} (and {38 + bus_no // 2} for COMPARE collisions)",
                                      {"driver": "unipi", "bus": bus_no})
        finally:
            U.RemoteArm, U.sleep = orig_arm, orig_sleep
        # receive side against a model of the firmware's registers: a 16-bit reception counter that wraps, the last received
        # frame next to it (0x100 = backward frame, 0x200 = a forward frame of another master), a framing-error counter
        class ArmModel:
            def __init__(self, bus_no, cnt, fe):
                self.recv, self.send_reg, self.fereg = 1 + 3 * bus_no, 13 + 2 * bus_no, 38 + bus_no // 2
                self.cnt, self.regs, self.fe = cnt, (0, 0), fe
                self.plan, self.pending, self.writes = [], [], 0

            def write_regs(self, reg, values):
                if reg == self.send_reg:
                    self.writes += 1
                    self.pending = [list(e) for e in self.plan]      # what the bus does after this transmission

            def read_regs(self, reg, n):
                if reg == self.recv:
                    return (self.cnt, self.regs[0], self.regs[1])[:n]
                if reg == self.fereg:
                    return (self.fe,)
                return tuple([0] * n)

            def tick(self, _t=None):
                for e in self.pending:
                    e[0] -= 1
                    if e[0] == 0:
                        if e[1] == "fe":
                            self.fe = (self.fe + 1) & 0xFFFF
                        else:
                            self.cnt = (self.cnt + 1) & 0xFFFF
                            self.regs = (0x100, e[2]) if e[1] == "answer" else (0x200, e[2])
        orig_arm, orig_sleep = U.RemoteArm, U.sleep
        try:
            import dali.gear.general as gg_
            from dali import address as A_
            ru = rng(seed, "C18", "unipi-answers")
            for t in range(400):
                bus_no = ru.randrange(4)
                cnt0 = ru.choice([0, 1, 0xFFFF, 0xFFFE, 0x7FFF, 0x8000, 0x00FF, 0x0100, ru.getrandbits(16)])
                model = ArmModel(bus_no, cnt0, ru.choice([0, 0xFFFF, ru.getrandbits(16)]))
                U.RemoteArm, U.sleep = (lambda *a, **kw: model), model.tick
                drv = U.SyncUnipiDALIDriver(bus=bus_no)
                kind = ru.choice(["answer", "answer", "answer", "silent", "late", "foreign-then-answer", "compare-collision", "plain"])
                val = ru.choice([0, 1, 0xFF, 0xFE, ru.getrandbits(8)])
                delay = ru.randint(1, 6)
                if kind == "plain":
                    c = gg_.DAPC(A_.GearShort(ru.randrange(64)), ru.randrange(255))
                elif kind == "compare-collision":
                    c = gg_.Compare()
                    model.plan = [(delay, "fe", None)]
                else:
                    c = ru.choice([gg_.QueryStatus, gg_.QueryActualLevel, gg_.QueryGroupsZeroToSeven])(A_.GearShort(ru.randrange(64)))
                    if kind == "answer":
                        model.plan = [(delay, "answer", val)]
                    elif kind == "late":
                        model.plan = [(ru.randint(8, 20), "answer", val)]
                    elif kind == "foreign-then-answer" and delay > 1:
                        model.plan = [(ru.randint(1, delay - 1), "foreign", ru.getrandbits(16)), (delay, "answer", val)]
                    elif kind == "foreign-then-answer":
                        model.plan = [(delay, "answer", val)]
                res.evaluations += 1
                res.hit("unipi_answers_checked")
                wit = {"driver": "unipi", "bus": bus_no, "command": str(c), "reception_counter_before": cnt0, "bus_events": model.plan}
                try:
                    got = drv.send(c)
                except Exception as e:
                    res.violation(f"C18/unipi/send-raised/{type(e).__name__}", f"send({c}) raised {type(e).__name__}: {e}", wit)
                    continue
                if kind == "plain":
                    ok = got is None or got is getattr(U, "DALI_NO_RESPONSE", None) or getattr(got, "raw_value", 0) is None
                    want = "no answer"
                elif kind in ("silent", "late"):
                    ok = got is not None and got.raw_value is None
                    want = "no answer"
                elif kind == "compare-collision":
                    ok = got is not None and got.raw_value is not None and got.value is True
                    want = "YES (colliding answers)"
                else:
                    ok = got is not None and got.raw_value is not None and not got.raw_value.error and got.raw_value.as_integer == val
                    want = f"backward frame {val:#04x}"
                if not ok:
                    res.violation("C18/unipi/answer-decoded", f"{c} with the reception counter at {cnt0:#06x} and bus events {model.plan}: "
                                  f"send() returned {got!r} ({getattr(got, 'raw_value', None)!r}), the registers denote {want}", wit)
        finally:
            U.RemoteArm, U.sleep = orig_arm, orig_sleep
        res.hit("extract_codes_checked")
        g = ud.extract((0x100, 0x5A))
        if not (isinstance(g, frame.BackwardFrame) and g.as_integer == 0x5A):
            res.violation("C18/unipi/extract", f"(0x100, 0x5A) decoded as {g!r}", {})
        g = ud.extract((0x200, 0x1234))
        if not (isinstance(g, frame.ForwardFrame) and g.as_integer == 0x1234):
            res.violation("C18/unipi/extract", f"(0x200, 0x1234) decoded as {g!r}", {})
    except Exception as e:
        res.inconclusive.append("unipi driver not importable: " + short_tb(e))
    res.sample({"driver": "legacy tridonic / legacy hasseb / unipi", "commands": len(cmds)})


def run_shard(desc, tier, seed):
    res = Result()
    simlib.import_all()
    _drv = desc.get("driver")
    if _drv in simlib.DRIVERS and "replay" not in desc:
        why = simlib.probe_attach(_drv)
        if why:
            res.inconclusive.append(why)
            return res
    if "replay" in desc:
        for d in plan("quick", seed):
            r2 = run_shard(d, "quick", seed)
            for v in r2.violations:
                if v["key"] == desc["replay"]["key"]:
                    res.violation(v["key"], v["what"], v["witness"])
            res.evaluations += r2.evaluations
        return res
    try:
        if desc["kind"] == "async":
            run_async(desc, tier, seed, res)
        elif desc["kind"] == "sync":
            run_sync(seed, res)
        else:
            run_legacy(seed, res)
    except Exception as e:
        res.inconclusive.append("harness error: " + short_tb(e))
    return res
